"""C01 — wire codec round trip and pinned layout: correspondence K_C01 + monitor (DESIGN.md, C01)."""
from __future__ import annotations

import importlib
import json
import random
import struct
import sys
import zlib
from unittest.mock import Mock

from vlib import common, wirecodec as wc
from vlib.common import KResult, Violation, Disagreement, Property
from translate import schemas as schema_tr

PINNED = common.VERIF / 'spec' / 'wire_layout.json'


def _mods():
    m = importlib.import_module('aioslsk.protocol.messages')
    p = importlib.import_module('aioslsk.protocol.primitives')
    o = importlib.import_module('aioslsk.protocol.obfuscation')
    return m, p, o


def strip_names(table):
    """Layout without display names of fields (class names are kept: they identify the message)."""
    def ty(t):
        if 'prim' in t:
            return t['prim']
        if 'arr' in t:
            return ['arr', ty(t['arr'])]
        return ['record', [ty(f['ty']) for f in t['fields']]]
    return [[s['family'], s['dir'], s['name'], s['id_width'], s['id'], s['compress'], s['decompress'],
             [[ty(f['ty']), f['cond'], f['optional'], f['dflt']] for f in s['fields']]] for s in table]


def _scramble(x, depth=0):
    """What an application may do to a message it received: edit every list in place (recursively), overwrite fields."""
    import dataclasses
    if depth > 6:
        return
    if isinstance(x, list):
        for y in x:
            _scramble(y, depth + 1)
        if x:
            x.append(x[0])
            x.reverse()
        else:
            x.append(None)
    elif dataclasses.is_dataclass(x) and not isinstance(x, type):
        for f in dataclasses.fields(x):
            v = getattr(x, f.name, None)
            if isinstance(v, list) or dataclasses.is_dataclass(v):
                _scramble(v, depth + 1)
            else:
                try:
                    setattr(x, f.name, None)
                except Exception:  # noqa: BLE001  (frozen dataclass)
                    pass


def eval_case(args):
    """Worker: run the REAL code for one (schema idx, values) case; returns observations."""
    table, idx, vals = args
    m, p, o = _mods()
    s = table[idx]
    out = {'idx': idx}
    try:
        obj = wc.build(m, p, s, vals)
        data = obj.serialize()
    except Exception as e:  # noqa: BLE001
        out['enc'] = f'err {type(e).__name__}'
        return out
    out['frame'] = data
    if s['compress']:
        idw = s['id_width']
        try:
            body = zlib.decompress(data[4 + idw:])
            out['enc'] = 'ok ' + wc.hexs(struct.pack('<I', idw + len(body)) + data[4:4 + idw] + body)  # deflate = id
            out['zlen_ok'] = struct.unpack('<I', data[:4])[0] == len(data) - 4
        except Exception as e:  # noqa: BLE001
            out['enc'] = f'err inflate {type(e).__name__}'
    else:
        out['enc'] = 'ok ' + wc.hexs(data)
    # monitor (real code only): round trip through the family dispatcher + class deserialize
    fam, d = s['family'], s['dir']
    mon = []
    try:
        clsname, meth = wc.FAMILY_DISPATCH[(fam, d)]
        back = getattr(getattr(m, clsname), meth)(data)
        if back != obj:
            mon.append(('C01-roundtrip', f'{s["name"]}.{d}: dispatcher round trip differs', repr(back)[:300]))
        back2 = type(obj).deserialize(0, data)
        if back2 != obj:
            mon.append(('C01-roundtrip', f'{s["name"]}.{d}: class round trip differs', repr(back2)[:300]))
    except Exception as e:  # noqa: BLE001
        mon.append(('C01-roundtrip', f'{s["name"]}.{d}: decoding own encoding raised {type(e).__name__}: {e}', None))
    # decoding is a function of the bytes alone, encoding of the value alone: what an application does to a message it
    # was handed (the library passes decoded lists straight to events) must not show up in a later decode, and
    # serialising must neither change the message nor depend on earlier calls
    try:
        clsname, meth = wc.FAMILY_DISPATCH[(fam, d)]
        first = getattr(getattr(m, clsname), meth)(data)
        _scramble(first)
        again = getattr(getattr(m, clsname), meth)(data)
        if again != obj:
            mon.append(('C01-roundtrip', f'{s["name"]}.{d}: decoding the same bytes again, after the application edited the '
                        f'first decoded message in place, yields a different message (decoded messages share state)',
                        repr(again)[:300]))
        if obj.serialize() != data or obj != wc.build(m, p, s, vals):
            mon.append(('C01-roundtrip', f'{s["name"]}.{d}: serialising twice gives different bytes / changes the message', None))
    except Exception as e:  # noqa: BLE001
        mon.append(('C01-roundtrip', f'{s["name"]}.{d}: repeated decode/encode raised {type(e).__name__}: {e}', None))
    (n,) = struct.unpack('<I', data[:4])
    if n != len(data) - 4:
        mon.append(('C01-length-prefix', f'{s["name"]}.{d}: prefix {n} != {len(data) - 4}', None))
    code = data[4:4 + s['id_width']]
    out['code'] = int.from_bytes(code, 'little')
    # serialize_into appends exactly the frame, whatever the buffer already holds (batched messages)
    try:
        for prefix in (b'\x07', data):
            buf = bytearray(prefix)
            obj.serialize_into(buf, compress=bool(s['compress']))   # the flag serialize() passes for this class
            if bytes(buf) != prefix + data:
                (n2,) = struct.unpack('<I', bytes(buf[len(prefix):len(prefix) + 4]).ljust(4, b'\0'))
                mon.append(('C01-length-prefix' if bytes(buf[len(prefix) + 4:]) == data[4:] else 'C01-roundtrip',
                            f'{s["name"]}.{d}: serialize_into a buffer already holding {len(prefix)} byte(s) appends '
                            f'{bytes(buf[len(prefix):])[:24].hex()}…, prefix {n2}, expected the frame {data[:24].hex()}… '
                            f'({len(data) - 4} bytes follow)', None))
                break
    except Exception as e:  # noqa: BLE001
        mon.append(('C01-roundtrip', f'{s["name"]}.{d}: serialize_into a non-empty buffer raised {type(e).__name__}: {e}', None))
    # connection level, obfuscated + plain
    try:
        from aioslsk.network.connection import PeerConnection, ServerConnection, PeerConnectionState
        for obf in (False, True):
            if fam == 'server':
                if d != 'response':
                    continue
                conn = ServerConnection('h', 1, Mock(), obfuscated=obf)
            else:
                conn = PeerConnection('h', 1, Mock(), obfuscated=obf,
                                      connection_type={'peer': 'P', 'distributed': 'D', 'peerinit': 'P'}[fam])
                conn.connection_state = (PeerConnectionState.AWAITING_INIT if fam == 'peerinit'
                                         else PeerConnectionState.ESTABLISHED)
            wire = conn.encode_message_data(obj)
            back3 = conn.decode_message_data(wire)
            if back3 != obj:
                mon.append(('C01-roundtrip', f'{s["name"]}.{d}: connection round trip (obfuscated={obf}) differs',
                            repr(back3)[:300]))
            if not obf and wire != data:
                mon.append(('C01-roundtrip', f'{s["name"]}.{d}: encode_message_data differs from serialize()', None))
    except Exception as e:  # noqa: BLE001
        mon.append(('C01-roundtrip', f'{s["name"]}.{d}: connection-level codec raised {type(e).__name__}: {e}', None))
    # the same message OBJECT sent, changed in place and sent again (messages are mutable dataclasses; the library itself
    # re-sends objects, e.g. a search request to every child): the second encoding is that of the new contents
    try:
        import copy
        import dataclasses
        other_vals = wc.gen_message(random.Random(common.sha([idx, wc.show_message(vals)])), s)
        other = wc.build(m, p, s, other_vals)
        clsname, meth = wc.FAMILY_DISPATCH[(fam, d)]
        for obf in (False, True):
            decodable_by_connection = fam != 'server' or d == 'response'      # a client connection parses server RESPONSES
            if obf and not decodable_by_connection:
                continue
            conn = _connection(fam, d, obf)
            mut = wc.build(m, p, s, vals)
            conn.encode_message_data(mut)
            for f in dataclasses.fields(mut):
                setattr(mut, f.name, copy.deepcopy(getattr(other, f.name)))
            wire2 = conn.encode_message_data(mut)
            back4 = (_connection(fam, d, obf).decode_message_data(wire2) if decodable_by_connection
                     else getattr(getattr(m, clsname), meth)(wire2))
            if back4 != other:
                mon.append(('C01-roundtrip', f'{s["name"]}.{d}: the same message object sent, changed in place and sent again '
                            f'(obfuscated={obf}) goes out with other contents than it holds', repr(back4)[:300]))
                break
        if mut.serialize() != other.serialize():
            mon.append(('C01-roundtrip', f'{s["name"]}.{d}: serialize() of an object changed in place differs from a fresh one', None))
    except Exception as e:  # noqa: BLE001
        mon.append(('C01-roundtrip', f'{s["name"]}.{d}: send / change / send again raised {type(e).__name__}: {e}', None))
    out['mon'] = mon
    # decode direction of the correspondence
    out['dec'] = wc.impl_decode(m, table, fam, d, data)
    out['infl'] = wc.inflate_arg(data, fam)
    return out


def _plant_long_string(vals: list, n: int) -> bool:
    """replace the first string leaf of the generated value by a string of n characters (in place); False = none found"""
    def plant(v):
        if isinstance(v, tuple) and v and v[0] == 'S':
            return ('S', 'x' * n), True
        if isinstance(v, tuple) and v and v[0] == 'A':
            items = list(v[1])
            for k, it in enumerate(items):
                nv, done = plant(it)
                if done:
                    items[k] = nv
                    return ('A', items), True
            return v, False
        if isinstance(v, tuple) and v and v[0] == 'R':
            items = list(v[2])
            for k, it in enumerate(items):
                nv, done = plant(it)
                if done:
                    items[k] = nv
                    return ('R', v[1], items), True
            return v, False
        return v, False
    for k, v in enumerate(vals):
        nv, done = plant(v)
        if done:
            vals[k] = nv
            return True
    return False


def _connection(fam: str, d: str, obf: bool, network=None):
    """the real connection object messages of this family / direction travel on (None: we never send or receive them)"""
    from aioslsk.network.connection import PeerConnection, ServerConnection, PeerConnectionState
    network = network if network is not None else Mock()
    if fam == 'server':
        return ServerConnection('h', 1, network, obfuscated=obf)
    conn = PeerConnection('h', 1, network, obfuscated=obf,
                          connection_type={'peer': 'P', 'distributed': 'D', 'peerinit': 'P'}[fam])
    conn.connection_state = (PeerConnectionState.AWAITING_INIT if fam == 'peerinit' else PeerConnectionState.ESTABLISHED)
    return conn


def eval_wire(args):
    """Several messages handed to ONE connection at the same time (send_message under gather / queue_messages), the first
    of them large, while the transport exerts back-pressure (drain() really suspends): what the far end reads must be
    exactly those messages, each frame in one piece. Real sender, real receiver; only the socket is the in-memory one."""
    import asyncio
    from unittest.mock import AsyncMock
    from vlib import fakenet, simloop
    from aioslsk.network.connection import ConnectionState
    table, fam, d, picks, n, obf, mode, sub_seed = args
    m, p, _o = _mods()
    rng = random.Random(sub_seed)
    objs = []
    for k, idx in enumerate(picks):
        vals = wc.gen_message(rng, table[idx])
        if k == 0 and n and not _plant_long_string(vals, n):
            return {'skip': 'no-string-leaf'}
        try:
            objs.append(wc.build(m, p, table[idx], vals))
        except Exception as e:  # noqa: BLE001
            return {'skip': f'build {type(e).__name__}'}
    out = {'mon': [], 'sent': len(objs)}

    async def main(loop):
        far = asyncio.StreamReader(limit=1 << 30)
        net = type('N', (), {'closed_count': 0})()
        w = fakenet.FakeWriter(net, asyncio.StreamReader(), far, ('h', 1), ('me', 2))
        w.drain_gate = asyncio.Event()
        snd = _connection(fam, d, obf, AsyncMock())
        snd._writer = w
        snd.state = ConnectionState.CONNECTED
        if mode == 'seq':                           # one after the other, no back-pressure: plain delivery of every class
            w.drain_gate = None
            for o in objs:
                await snd.send_message(o)
            tasks = []
        elif mode == 'gather':
            tasks = [loop.create_task(snd.send_message(o)) for o in objs]
        else:
            tasks = snd.queue_messages(*objs)
        for _ in range(6 if tasks else 0):        # the transport lets go a little at a time
            await simloop.settle()
            w.drain_gate.set()
            await simloop.settle()
            if all(t.done() for t in tasks):
                break
            w.drain_gate = asyncio.Event()
        if w.drain_gate is not None:
            w.drain_gate.set()
        await asyncio.gather(*tasks, return_exceptions=True)
        for t in tasks:
            if t.exception() is not None:
                out['mon'].append(('C01-roundtrip', f'sending raised {type(t.exception()).__name__}: {t.exception()}'))
        far.feed_eof()
        rcv = _connection(fam, d, obf, AsyncMock())
        rcv._reader = far
        rcv.state = ConnectionState.CONNECTED
        got = []
        try:
            clsname, meth = wc.FAMILY_DISPATCH[(fam, d)]
            for _ in range(len(objs) + 3):
                if fam == 'server':          # a client connection parses server RESPONSES: take the frame, parse as request
                    raw = await rcv.receive_message()
                    o = None if not raw else getattr(getattr(m, clsname), meth)(raw)
                else:
                    o = await rcv.receive_message_object()
                if o is None:
                    break
                got.append(o)
        except Exception as e:  # noqa: BLE001
            out['recv_exc'] = f'{type(e).__name__}: {e}'
        left = list(objs)
        for g in got:
            if g in left:
                left.remove(g)
        out['got'] = len(got)
        out['missing'] = [type(x).__qualname__ for x in left]
        out['bytes'] = len(w.sent)

    try:
        simloop.run(main, wall_timeout=60)
    except Exception as e:  # noqa: BLE001
        out['exc'] = f'{type(e).__name__}: {e}'
        return out
    if out.get('missing') or out.get('got') != len(objs) or out.get('recv_exc'):
        out['mon'].append(('C01-roundtrip',
                           (f'{len(objs)} messages sent one after the other over one connection (obfuscated={obf}): ' if mode == 'seq'
                            else f'{len(objs)} messages handed to one connection at the same time ({mode}, obfuscated={obf}, the '
                                 f'first with a string of {n} characters) under back-pressure: ')
                           + f'the far end read {out.get("got")} messages, '
                           f'{len(out.get("missing") or [])} of the sent ones are missing or differ'
                           + (f'; its reader raised {out["recv_exc"]}' if out.get('recv_exc') else '')
                           + ('' if mode == 'seq' else ' (frames of different messages are mixed on the wire)')))
    return out


def eval_big(args):
    """One message with a very long string somewhere inside it (wherever the class has a string): real code only."""
    table, idx, n, sub_seed = args
    m, p, _o = _mods()
    s = table[idx]
    rng = random.Random(sub_seed)
    vals = wc.gen_message(rng, s)
    if not _plant_long_string(vals, n):
        return {'skip': 'no-string-leaf'}
    mon = []
    try:
        obj = wc.build(m, p, s, vals)
        data = obj.serialize()
    except Exception as e:  # noqa: BLE001
        return {'mon': [('C01-encode-raises', f'{s["name"]}.{s["dir"]} with a string of {n} characters cannot be serialised: '
                                               f'{type(e).__name__}: {e}')]}
    (ln,) = struct.unpack('<I', data[:4])
    if ln != len(data) - 4:
        mon.append(('C01-length-prefix', f'{s["name"]}.{s["dir"]}: prefix {ln} != {len(data) - 4}'))
    try:
        clsname, meth = wc.FAMILY_DISPATCH[(s['family'], s['dir'])]
        back = getattr(getattr(m, clsname), meth)(data)
        if back != obj:
            mon.append(('C01-roundtrip', f'{s["name"]}.{s["dir"]} with a string of {n} characters: round trip differs'))
    except Exception as e:  # noqa: BLE001
        mon.append(('C01-roundtrip', f'{s["name"]}.{s["dir"]} with a string of {n} characters ({len(data)} bytes on the wire): '
                                     f'decoding its own encoding raised {type(e).__name__}: {e}'))
    return {'mon': mon}


def eval_obf(args):
    key, data = args
    _, _, o = _mods()
    try:
        e = o.encode(data, key)
        d = o.decode(e)
        return wc.hexs(e), wc.hexs(d)
    except Exception as ex:  # noqa: BLE001
        return f'err {type(ex).__name__}', ''


class C01(Property):
    id = 'C01'
    props_module = 'AioslskVerif.Props.C01'
    driver_module = 'AioslskVerif.Driver.C01'
    rule = ('for every message class of the regenerated schema table, type-directed in-domain values (boundary '
            'biased integers, ASCII/2-3-4-byte UTF-8/NUL strings, arrays of 0/1/many, every guard value, every '
            'present-prefix of the trailing optionals) + obfuscation cases (random keys x lengths 0..300) + very long strings '
            '(2^20 .. 2^28+1 characters) + per message: the same object sent, changed in place to a second in-domain value and '
            'sent again + wire level (monitor only): 2..4 messages handed to one real connection at once (gather / '
            'queue_messages), the first 70 kB..1 MB, over an in-memory socket whose drain() really suspends, read back by a '
            'real connection; '
            'non-trivial = message with at least one non-empty string/array or a guarded/optional field; '
            'distinct = distinct (class, canonical value)')
    assumptions = [
        'zlib is a parameter of the model (law inflate(deflate x) = x); compressed frames are compared after '
        'inflation and their header against the deflated length',
        'in-domain values only (DESIGN.md C01): outside the domain the Python encoder raises or drops fields silently',
        'struct / socket.inet_aton / str.encode are CPython; the model is tied to them by the correspondence',
    ]
    modelled = ('protocol/primitives.py (all primitive codecs, ProtocolDataclass engine incl. guards/optionals, '
                'MessageDataclass framing, hand-optimised Attribute/FileData/DirectoryData codecs), the four '
                'family dispatchers of protocol/messages.py, every message schema (regenerated), '
                'protocol/obfuscation.py; network/connection.py encode_message_data/decode_message_data are '
                'exercised by the monitor')

    def __init__(self):
        self.table = None

    def regenerate(self):
        rel, self.table = schema_tr.generate(common.REPO, common.LEAN)
        return [rel]

    def _table(self):
        if self.table is None:
            self.table = schema_tr.extract(common.REPO)
        return self.table

    def correspondence(self, seed, tier, model_ok, widen=1):
        res = KResult()
        rng = random.Random(f'C01-{seed}')
        try:
            table = self._table()
        except Exception as e:  # translator broken: fall back to the pinned table for generation
            table = None
            res.notes.append(f'translator failed ({e}); generating from the pinned table')
        pinned = json.loads(PINNED.read_text())
        gen_table = table if table is not None else pinned
        same_layout = table is not None and strip_names(table) == strip_names(pinned)
        if not same_layout:
            res.notes.append('regenerated layout differs from the pinned layout')
        per = (10 if tier == 'quick' else 120) * widen
        cases = []
        for idx, s in enumerate(gen_table):
            for _ in range(per):
                cases.append((gen_table, idx, wc.gen_message(rng, s)))
        outs = common.parallel_map(eval_case, cases, chunksize=32)
        # model side
        lines = []
        for (_t, idx, vals), o in zip(cases, outs):
            lines.append(f'enc {idx} {wc.show_message(vals)}')
            s = gen_table[idx]
            fr = o.get('frame')
            lines.append(f'dec {s["family"]} {s["dir"]} {wc.hexs(fr) if fr is not None else "-"} {o.get("infl", "!")}')
            lines.append(f'dom {idx} {wc.show_message(vals)}')
        model = pinned_model = None
        if model_ok and table is not None:
            model = common.run_driver(self.driver_file, lines)
        else:
            res.model_available = False
        if not same_layout or model is None:
            # oracle for the "pinned layout" clause: the same engine over the frozen table
            ok, _ = common.lake_build(['AioslskVerif.Driver.C01Pinned'])
            if ok:
                pinned_model = common.run_driver('AioslskVerif/Driver/C01Pinned.lean', lines)
        pinned_by_key = {(s['family'], s['dir'], s['name']): s for s in pinned}
        for k, ((_t, idx, vals), o) in enumerate(zip(cases, outs)):
            s = gen_table[idx]
            res.evaluations += 1
            res.count(f'family:{s["family"]}')
            case = {'kind': 'message', 'class': f'{s["name"]}.{s["dir"]}', 'idx': idx,
                    'values': wc.show_message(vals)}
            txt = case['values']
            if ' S ' in txt and any(f['optional'] or f['cond'][0] != 'always' or 'arr' in f['ty'] for f in s['fields']) \
                    or len(txt) > 30:
                res.nontrivial_keys.add(common.sha([idx, txt]))
            if o['enc'].startswith('err'):
                res.count('impl-encode-error')
                res.violations.append(Violation('C01-encode-raises', f'in-domain {case["class"]} cannot be serialised: {o["enc"]}',
                                                case, observed=o['enc']))
                continue
            for sig, what, obs in o.get('mon', []):
                res.violations.append(Violation(sig, what, case, observed=obs, required='deserialize(serialize(m)) == m'))
            if s['compress'] and not o.get('zlen_ok', True):
                res.violations.append(Violation('C01-length-prefix', f'{case["class"]}: compressed frame header wrong', case))
            ps = pinned_by_key.get((s['family'], s['dir'], s['name']))
            if ps is not None and o.get('code') != ps['id']:
                res.violations.append(Violation('C01-code', f'{case["class"]}: code {o.get("code")} != pinned {ps["id"]}',
                                                case, observed=o.get('code'), required=ps['id']))
            if model is not None:
                res.traces_validated += 1
                me, md = model[3 * k], model[3 * k + 1]
                if me != o['enc']:
                    res.disagreements.append(Disagreement(case, o['enc'][:200], me[:200], 'encode'))
                if md != o['dec']:
                    res.disagreements.append(Disagreement(case, o['dec'][:200], md[:200], 'decode'))
                if model[3 * k + 2] != 'dom 1 plain 1':
                    res.disagreements.append(Disagreement(case, 'generated as in-domain', model[3 * k + 2],
                                                          'domain: generator value outside the theorems\' inDomain'))
            oracle = pinned_model if pinned_model is not None else (model if same_layout else None)
            if oracle is not None and oracle[3 * k] != o['enc'] and oracle[3 * k].startswith('ok'):
                res.violations.append(Violation(
                    'C01-layout', f'{case["class"]}: bytes differ from the pinned layout', case,
                    observed=o['enc'][:300], required=oracle[3 * k][:300]))
            if len(res.samples) < 3 and 20 < len(txt) < 120:
                res.samples.append({'case': case, 'impl_bytes': o['enc'][:120]})
        # hand-written byte vectors harvested from the repo's protocol tests (frozen in spec/test_vectors.json)
        # through the model over the PINNED table: validates table + engine model against bytes nobody computed
        try:
            vectors = json.loads((common.VERIF / 'spec' / 'test_vectors.json').read_text())
            okp, _ = common.lake_build(['AioslskVerif.Driver.C01Pinned'])
            if okp:
                pidx = {(ps['family'], ps['dir'], ps['name']): i for i, ps in enumerate(pinned)}
                vlines, vexp = [], []
                for v in vectors:
                    name = v['class'].split('.')[0]
                    i = pidx.get((v['family'], v['dir'], name))
                    if i is None:
                        continue
                    data = bytes.fromhex(v['hex'])
                    idw = pinned[i]['id_width']
                    if v['kind'] == 'ser':
                        vlines.append(f'enc {i} {v["values"]}')
                        if v['compressed']:
                            body = zlib.decompress(data[4 + idw:])
                            vexp.append('ok ' + wc.hexs(struct.pack('<I', idw + len(body)) + data[4:4 + idw] + body))
                        else:
                            vexp.append('ok ' + wc.hexs(data))
                    else:
                        vlines.append(f'dec {v["family"]} {v["dir"]} {wc.hexs(data)} {wc.inflate_arg(data, v["family"])}')
                        vexp.append(f'ok {i} {v["values"]}')
                vout = common.run_driver('AioslskVerif/Driver/C01Pinned.lean', vlines)
                for ln, exp, got in zip(vlines, vexp, vout):
                    res.evaluations += 1
                    res.count('pinned-test-vectors')
                    if exp != got:
                        res.disagreements.append(Disagreement({'kind': 'vector', 'line': ln[:300]}, exp[:200], got[:200],
                                                              'hand-written test vector vs. model over the pinned table'))
        except (OSError, ValueError) as e:
            res.notes.append(f'test vectors not run: {e}')
        # very large in-domain values (monitor only: the Lean driver's byte lists are not meant for 100 MB): one long string
        # inside every message class that has one — for the compressed classes the inflated contents pass 16 / 64 / 256 MiB
        bcases = []
        sizes = [1 << 20, (1 << 24) + 1, (1 << 26) + 1] + ([(1 << 28) + 1] if tier != 'quick' else [])
        bidx = [i for i, sch in enumerate(gen_table) if sch.get('compress')]
        bidx += rng.sample([i for i, sch in enumerate(gen_table) if not sch.get('compress')], 3)
        for i in bidx:
            sch = gen_table[i]
            for n in (sizes if sch.get('compress') else sizes[:2]):
                bcases.append((gen_table, i, n, rng.randrange(1 << 30)))
        bouts = common.parallel_map(eval_big, bcases, workers=4, chunksize=1)
        for (_t, i, n, _sd), o in zip(bcases, bouts):
            sch = gen_table[i]
            res.evaluations += 1
            res.count('big-value')
            case = {'kind': 'big', 'class': f'{sch["name"]}.{sch["dir"]}', 'idx': i, 'string_length': n, 'sub_seed': _sd}
            if o.get('skip'):
                res.count('big-value-skipped:' + o['skip'])
                continue
            res.nontrivial_keys.add(common.sha(case))
            for sig, what in o.get('mon', []):
                res.violations.append(Violation(sig, what, case))
        # wire level: several messages handed to one connection at once, the first one large, under back-pressure
        wcases = []
        n_wire = (24 if tier == 'quick' else 300) * widen
        by_fd = {}
        for i, sch in enumerate(gen_table):
            if not sch.get('compress') and not (sch['family'] == 'server' and sch['dir'] == 'response'):
                by_fd.setdefault((sch['family'], sch['dir']), []).append(i)
        sendable = [k for k in by_fd if k[0] != 'peerinit' and len(by_fd[k]) >= 3]
        for _ in range(n_wire):
            fam, d = rng.choice(sendable)
            picks = [rng.choice(by_fd[(fam, d)]) for _ in range(rng.choice([2, 3, 4]))]
            wcases.append((gen_table, fam, d, picks, rng.choice([70_000, 200_000, 1_000_000]),
                           rng.random() < 0.4 and fam != 'server',       # the server connection is never obfuscated
                           rng.choice(['gather', 'queue']), rng.randrange(1 << 30)))
        # … and every sendable class once through a real sending and a real receiving connection, in batches of small messages
        # (n = 0: no long string is planted): the frame reader must accept every frame the codec produces — the shortest one
        # is one byte long (DistributedPing: a uint8 code and nothing else)
        for (fam, d), idxs in sorted(by_fd.items()):
            if fam == 'peerinit':
                continue
            for a in range(0, len(idxs), 4):
                wcases.append((gen_table, fam, d, idxs[a:a + 4], 0, (a // 4) % 2 == 1 and fam != 'server', 'seq',
                               rng.randrange(1 << 30)))
        wouts = common.parallel_map(eval_wire, wcases, workers=8, chunksize=2)
        for (_t, fam, d, picks, n, obf, mode, sd), o in zip(wcases, wouts):
            res.evaluations += 1
            case = {'kind': 'wire', 'family': fam, 'dir': d, 'picks': picks, 'string_length': n, 'obf': obf, 'mode': mode,
                    'sub_seed': sd, 'classes': [f'{gen_table[i]["name"]}.{gen_table[i]["dir"]}' for i in picks]}
            if o.get('skip'):
                res.count('wire-skipped:' + o['skip'].split(' ')[0])
                continue
            res.count('wire:' + mode + (':obfuscated' if obf else ':plain'))
            res.nontrivial_keys.add(common.sha(case))
            if o.get('exc'):
                res.violations.append(Violation('C01-wire-impl-error', o['exc'], case))
                continue
            for sig, what in o.get('mon', []):
                res.violations.append(Violation(sig, what, case, observed={k: o.get(k) for k in ('got', 'missing', 'bytes')},
                                                required='every message arrives once, equal to what was sent'))
        # obfuscation
        ocases = []
        n_obf = (1500 if tier == 'quick' else 20000) * widen
        for i in range(n_obf):
            key = bytes(rng.randrange(256) for _ in range(4)) if i % 7 else rng.choice(
                [b'\x00\x00\x00\x00', b'\xff\xff\xff\xff', b'\x01\x00\x00\x00', b'\x00\x00\x00\x80'])
            ln = rng.choice([0, 1, 3, 4, 5, 7, 8, 124, 125, 127, 128, 129, 131, 132, 255, 256, 257, 300,
                             rng.randrange(0, 301)])
            ocases.append((key, bytes(rng.randrange(256) for _ in range(ln))))
        oouts = common.parallel_map(eval_obf, ocases, chunksize=64)
        olines = []
        for (key, data), (e, d) in zip(ocases, oouts):
            olines.append(f'obf {key.hex()} {wc.hexs(data)}')
            olines.append(f'deobf {e if not e.startswith("err") else "-"}')
        omodel = common.run_driver(self.driver_file, olines) if (model_ok and table is not None) else None
        for k, ((key, data), (e, d)) in enumerate(zip(ocases, oouts)):
            res.evaluations += 1
            res.count('obfuscation')
            case = {'kind': 'obfuscation', 'key': key.hex(), 'data': wc.hexs(data)}
            if len(data) > 4:
                res.nontrivial_keys.add(common.sha(case))
            if d != wc.hexs(data):
                res.violations.append(Violation('C01-obfuscation-roundtrip', 'decode(encode(data, key)) != data', case,
                                                observed=d[:200], required=wc.hexs(data)[:200]))
            if omodel is not None:
                res.traces_validated += 1
                if omodel[2 * k] != e or omodel[2 * k + 1] != d:
                    res.disagreements.append(Disagreement(case, [e[:100], d[:100]],
                                                          [omodel[2 * k][:100], omodel[2 * k + 1][:100]], 'obfuscation'))
        return res

    def replay(self, case):
        table = self._table()
        if case.get('kind') == 'obfuscation':
            key = bytes.fromhex(case['key'])
            data = b'' if case['data'] == '-' else bytes.fromhex(case['data'])
            e, d = eval_obf((key, data))
            return [] if d == wc.hexs(data) else [Violation('C01-obfuscation-roundtrip', 'decode(encode(x)) != x', case, observed=d)]
        idx = next((i for i, s in enumerate(table) if f'{s["name"]}.{s["dir"]}' == case['class']), case['idx'])
        if case.get('kind') == 'wire':
            o = eval_wire((table, case['family'], case['dir'], case['picks'], case['string_length'], case['obf'], case['mode'],
                           case['sub_seed']))
            return [Violation(sig, what, case) for sig, what in o.get('mon', [])]
        if case.get('kind') == 'big':
            o = eval_big((table, idx, case['string_length'], case['sub_seed']))
            return [Violation(sig, what, case) for sig, what in o.get('mon', [])]
        vals = wc.parse_message(case['values'], table[idx])
        o = eval_case((table, idx, vals))
        vs = [Violation(sig, what, case, observed=obs) for sig, what, obs in o.get('mon', [])]
        if o['enc'].startswith('err'):
            vs.append(Violation('C01-encode-raises', o['enc'], case))
        # pinned-layout clause
        ok, _ = common.lake_build(['AioslskVerif.Driver.C01Pinned'])
        if ok and o['enc'].startswith('ok'):
            pinned = json.loads(PINNED.read_text())
            s = table[idx]
            pidx = next((i for i, ps in enumerate(pinned) if (ps['family'], ps['dir'], ps['name']) ==
                         (s['family'], s['dir'], s['name'])), None)
            if pidx is not None:
                out = common.run_driver('AioslskVerif/Driver/C01Pinned.lean', [f'enc {pidx} {case["values"]}'])
                if out and out[0].startswith('ok') and out[0] != o['enc']:
                    vs.append(Violation('C01-layout', 'bytes differ from the pinned layout', case,
                                        observed=o['enc'][:300], required=out[0][:300]))
        return vs


PROPERTY = C01()
