"""C15 — user tracking mirrors the set of reasons: correspondence K_C15 + monitor (DESIGN.md, C15).

The REAL `UserManager` + `UserTrackingManager` — and, wherever transfer-manager code takes part, a REAL
`TransferManager` built through its own `__init__` on the same event bus and the real user manager — run on a
virtual-time loop (`vlib.simloop`) against a stub `Network` whose two coroutines used by the tracking code
(`send_server_messages`, `wait_for_server_message`) park on gates the schedule releases: every
AddUser/RemoveUser attempt is observed from the real code path, and the schedule decides per attempt:
send ok / send failure / exists / not-exists / error / silence.

Case = {'ops': [...], optional 'auto': true, 'friends0': [u...], 'offline': 'drop'|'raise'}.  Ops:
    ['track'|'untrack', u, flags, m]      m: '.' let the loop settle afterwards
                                             '!' yield to the loop exactly once (the next op lands one loop
                                                 iteration later: e.g. between "worker returned" and "its
                                                 done-callback ran")
                                             '+' do not yield at all (next op is issued back-to-back)
    ['gate', u, send_outcome, resp_outcome, m]   release whatever network call u's worker is parked in
                                             (resp_outcome 'silence' = let 10 s pass instead)
                                             send_outcome 'failclose' (worker parked in a write): the write fails the way a
                                             write on a broken socket does — the connection reports CLOSED from INSIDE the
                                             failing write (`Connection._send` -> `disconnect(WRITE_ERROR)`: the CLOSED
                                             listeners, the tracking manager's among them, run in the worker's own task), then
                                             the write raises. Model: `close`
    ['adv', seconds]                      virtual time passes
    ['fire', u]                           virtual time passes up to the instant u's pending retry is due (everything due
                                          earlier happens first) and the retry timer fires — but the loop iteration in
                                          which the retry task wakes up and puts its request on the queue has not run yet:
                                          the following ops with '+' are issued inside that one-iteration window (ahead of
                                          the retry request on the queue, while `_cancel_retry` can no longer stop the task)
    ['close'] | ['close', reason]         ConnectionStateChangedEvent(ServerConnection, CLOSED[, CloseReason[reason]]), then
                                          (what the client's own CLOSED listener does) SessionDestroyedEvent when a session
                                          exists
    ['close', reason|None, [[track|untrack, u, flags], …]]
                                          the same, and the application's own listener of ConnectionStateChangedEvent
                                          (registered after the managers, as an application's is) makes these calls when it is
                                          told CLOSED: back-to-back in the very loop iteration in which the tracking manager's
                                          CLOSED listener returned — "everything is dropped" is looked at there, and the calls
                                          belong to the history after the close (model: `close`, then the calls with `+`).
                                          When the close finds a tracking write in flight (a worker parked in its send) the
                                          calls are made after the loop has settled instead (see `close`)
  the owners of the reasons (a case that uses any of them runs with the real TransferManager):
    ['login']                             SessionInitializedEvent (the user manager tracks its own name and the
                                          friends list, the transfer manager requests a cycle)
    ['friend', u, 0|1]                    name removed from / added to `settings.users.friends`; what the user management
                                          job does when it notices (FriendListChangedEvent) happens with it
    ['tadd', u, kind, m]                  a transfer of user u: 'q' queued download (`download()`), 'p' paused download,
                                          'u' queued upload; transfers are numbered 0, 1, … in creation order
    ['tfin', k, how, m]                   transfer k reaches a final state: `abort()` / `state.fail()`
    ['tque', k, m]                        finished transfer k is queued again (`queue()`)
    ['trm', k, m]                         `remove()`, start to end
    ['trmb', k, holds, m]                 `remove()` started as a task of its own ("clear all" = several of them at once):
                                          it runs until it waits in a listener the schedule holds — 'a' the transfer's state
                                          listener told about the abort, 'r' the listener of TransferRemovedEvent — or ends;
                                          the following ops (other removals, additions, cycles, …) run while it waits there
    ['trmc', k, m]                        the removal of k goes on to its next hold, or to its end
    ['cycle', m]                          one `TransferManager.manage_user_tracking()` (scripted cases only)
    ['tm', unfinished, finished, m]       (older replay files) = the transfers are replaced by these, then one cycle
  free-running cases ('auto': the management tasks of both managers are started and decide themselves when a cycle
  runs; the stub network drops / refuses what is sent while no server connection exists; monitor only, no model):
    ['quiesce']                           answer everything "exists", let retries come due, until nothing moves
    ['restart']                           close, `stop()` of both managers, `start()` again (client.stop()/start())
    ['trmg', [k, …], u|None]              `asyncio.gather(remove(k), …[, download(u, …)])` — with 'peer': 'hang' (no peer is
                                          reachable: every message for a peer stays "connecting" until cancelled) every
                                          queued download has its queue request in flight, which `remove()` has to cancel
Every op first moves the virtual clock by one tick (1/1024 s): two timers of one user never fall due at the
same instant, so the order in which asyncio fires them is not left to heap tie-breaking.
After the scripted ops every parked call is released (send ok / exists) until the system is quiescent.

Reference of the monitor (independent of the Lean model AND of which calls the owners really make): the fold of
 * the application's own calls (made by the harness), and
 * what the owner of a reason can see at the instant it looks: at a cycle TRANSFER is requested for a user with an
   unfinished transfer and withdrawn for a user whose transfers are all finished, `remove()` of a user's last transfer
   withdraws it, a login requests FRIEND for every name in the friends list, a friends-list change in a session
   requests / withdraws it.
An owner that makes fewer (or more) calls with the same effect — e.g. does not repeat a request it knows to be
standing — is indistinguishable; one that forgets a standing reason after a session loss is not.
"""
from __future__ import annotations

import asyncio
import json
import os
import random
import sys
import traceback

from vlib import common, simloop
from vlib.common import KResult, Violation, Disagreement, Property
from translate import track_constants

TICK = 1.0 / 1024
NAMES = ['u0', 'u1']
ME = 'me'
# the property's documented delays (DESIGN.md C15 reading) — deliberately NOT read from the code
DELAY = {'sendfail': 10, 'timeout': 10, 'error': 10, 'notexists': 600}
STATE_CH = {'untracked': 'U', 'tracked': 'T', 'retry_pending': 'P'}
F_REQ, F_TR, F_FR = 1, 2, 4
WORLD_OPS = ('login', 'friend', 'tadd', 'tfin', 'tque', 'trm', 'trmb', 'trmc', 'trmg', 'cycle', 'tm', 'quiesce', 'restart')
_VERIF_ROOT = os.path.dirname(os.path.dirname(os.path.abspath(__file__)))


# ------------------------------------------------------------------------------------------------
# harness errors are infrastructure (exit 2), never a verdict about the code
# ------------------------------------------------------------------------------------------------

class HarnessGap(BaseException):
    """The real code asked a stand-in of this harness for something it does not provide. BaseException: the
    library's `except Exception` arms cannot swallow it; recorded at raise time in case a task keeps it."""


_GAPS: list[str] = []


class _StandIn:
    def __getattr__(self, name):
        if name.startswith('__') and name.endswith('__'):
            raise AttributeError(name)            # protocol probes (copy, inspect, weakref …)
        msg = f'the code under test used `{name}` of the stand-in {type(self).__name__}, which it does not provide'
        _GAPS.append(msg)
        raise HarnessGap(msg)


def _raised_in_harness(exc: BaseException) -> bool:
    """the innermost frame of the traceback is harness code (props/, vlib/): e.g. a public method of the code under
    test no longer accepts the arguments the harness passes"""
    tb = traceback.extract_tb(exc.__traceback__)
    if not tb:
        return False
    fn = os.path.abspath(tb[-1].filename)
    # simloop raises when the code under test does not quiesce / spins: that is about the code, not the harness
    return fn.startswith(_VERIF_ROOT + os.sep) and os.path.basename(fn) != 'simloop.py'


# ------------------------------------------------------------------------------------------------
# running the real code
# ------------------------------------------------------------------------------------------------

def _is_world(case: dict) -> bool:
    return bool(case.get('auto')) or any(op[0] in WORLD_OPS for op in case['ops'])


class _Run:
    def __init__(self, loop, case: dict):
        from aioslsk.events import EventBus, UserTrackingStateChangedEvent
        from aioslsk.settings import Settings
        from aioslsk.user.manager import UserManager
        self.loop = loop
        self.auto = bool(case.get('auto'))
        self.offline_mode = case.get('offline', 'drop')
        self.peer_hang = case.get('peer') == 'hang'
        self.defer = case.get('defer', True) is not False   # False: only the witness of the known finding (see `close`)
        self.undeferred = False                        # calls were made inside a CLOSED raised by / during a tracking write
        self.world = _is_world(case)
        self.settings = Settings(credentials={'username': ME, 'password': 'pw'})
        for u in case.get('friends0', []):
            self.settings.users.friends.add(NAMES[u])
        self.bus = EventBus()
        self.net = _StubNet(self)
        self.um = UserManager(self.settings, self.bus, self.net)
        self.mgr = None
        if self.world:
            # the transfer manager as the client builds it: real __init__, real user manager, same bus (registered after
            # the user manager, as in SoulSeekClient.__init__); shares / network are stand-ins, the cache is the null cache
            from aioslsk.transfer.manager import TransferManager
            self.shares = _StubShares()
            self.mgr = TransferManager(self.settings, self.bus, self.um, self.shares, self.net)
        self.gates: dict[str, list] = {}
        self._listener = self._on_state_event          # EventBus holds listeners weakly
        self.bus.register(UserTrackingStateChangedEvent, self._listener)
        self.rm: dict[int, dict] = {}                  # removals in progress: transfer number -> task, holds, gate, …
        if self.world:
            from aioslsk.events import TransferRemovedEvent
            self._rm_listener = self._on_transfer_removed
            self.bus.register(TransferRemovedEvent, self._rm_listener)
        # the application's own listener of the connection state, registered after the managers' (same priority: called
        # after them, in the same step in which the last of them returned)
        from aioslsk.events import ConnectionStateChangedEvent
        self._close_calls = None                       # calls this listener makes when it is told CLOSED (`close` with calls)
        self._epoch_closed = False
        self._conn_listener = self._on_conn_state
        self.bus.register(ConnectionStateChangedEvent, self._conn_listener)
        self.unsettled = False                         # something may be runnable that has not run (last op had + or !)
        self.fire_pending = False                      # a retry timer has fired, its task has not run yet (`fire`)
        self.retry_due: dict[str, float] = {}          # virtual time at which the documented retry of the last failure is due
        self.model_cut = None                          # from this line on the model is not compared (see `_rm_step`)
        self.epochs: list[dict] = []                   # finished epochs (monitor log)
        self.ep = self._new_epoch()
        self.lines: list[str] = []                     # concrete executed ops (model protocol)
        self.obs: list[str] = []
        self.checkpoints: list[dict] = []
        self.problems: list[tuple[str, str]] = []      # (signature, what) found while running
        # the world around the tracking manager
        self.session = None
        self.online = False
        self.xfers: list = []                          # transfer number -> Transfer | None (removed)
        self.tr_clean = False                          # a cycle ran after the last change of the transfers / close
        self.app_bits = 0                              # flag bits the application itself has used in a call
        self.lost_sessions = 0
        self.watch: set = set()                        # (auto) names the server was asked to watch in this connection
        self.dead_wait: set = set()                    # (auto) names whose AddUser never reached a server
        self._truth_prev = {n: (False, False, False) for n in NAMES}
        for u in case.get('friends0', []):             # the model starts from an empty friends list
            self.lines.append(f'friend {u} 1')
            self.obs.append(self.observe())

    def _new_epoch(self):
        return {'calls': {}, 'attempts': {}, 'outcomes': {}, 'events': {}, 'log': {}, 'lenient': False, 'lenient_users': [],
                'ups': {n: 0 for n in NAMES}, 'downs': {n: 0 for n in NAMES}}

    def now(self) -> int:
        return round(self.loop.time() / TICK)

    # -- log ---------------------------------------------------------------------------------
    def _on_state_event(self, event):
        self.ep['events'].setdefault(event.user.name, []).append(STATE_CH.get(event.state.value, '?'))

    def attempt(self, user: str, kind: str):
        self.ep['attempts'].setdefault(user, []).append((self.now(), kind))
        self.ep['log'].setdefault(user, []).append((self.now(), kind))

    def outcome(self, user: str, kind: str):
        self.ep['outcomes'].setdefault(user, []).append((self.now(), kind))
        self.ep['log'].setdefault(user, []).append((self.now(), kind))
        if kind in DELAY:
            self.retry_due[user] = self.loop.time() + DELAY[kind]
        else:
            self.retry_due.pop(user, None)

    def ref_call(self, name: str, add: bool, flag: int):
        """a request the reference expects (an application call made now, or what an owner can see now)"""
        if name in NAMES:
            self.ep['calls'].setdefault(name, []).append((self.now(), add, flag))

    def owner_step(self):
        """an owner of a reason looks. Without a session there is no server to mirror anything on: whether an owner
        records its reason then, or only when the next session begins, is its own business — from here to the end of
        this connection period the exact fold of requests is no reference any more (the observable reasons, the wire
        and the state still are: `_monitor_truth`)"""
        if self.session is None:
            self.ep['lenient'] = True

    async def park(self, user: str, kind: str):
        fut = self.loop.create_future()
        g = (kind, fut)
        self.gates.setdefault(user, []).append(g)
        try:
            return await fut
        finally:
            self.gates[user].remove(g)

    # -- what the owners of the reasons can see -------------------------------------------------------
    def has_unfinished(self, name: str) -> bool:
        return self.mgr is not None and any(t.username == name and not t.is_finalized() for t in self.mgr.transfers)

    def has_finished(self, name: str) -> bool:
        return self.mgr is not None and any(t.username == name and t.is_finalized() for t in self.mgr.transfers)

    def is_friend(self, name: str) -> bool:
        return name in self.settings.users.friends

    def standing(self, name: str) -> int:
        r = 0
        for _t, add, f in self.ep['calls'].get(name, []):
            r = (r | f) if add else (r & ~f)
        return r

    def truth(self) -> dict:
        return {n: {'req': bool(self.standing(n) & F_REQ), 'unf': self.has_unfinished(n), 'fr': self.is_friend(n)}
                for n in NAMES}

    def sample_truth(self):
        """count, per observable reason, how often it appeared and disappeared in this connection period: the library
        holds a reason only after its owner has looked, so the set it holds can pass through "empty" while the observable
        set does not (and the other way round) — but every AddUser needs some reason to appear, every RemoveUser some
        reason to disappear (bounds the requests of a free-running case)"""
        for n, t in self.truth().items():
            cur = (t['req'], t['unf'], t['fr'] and self.session is not None)
            for was, now in zip(self._truth_prev[n], cur):
                if now and not was:
                    self.ep['ups'][n] += 1
                elif was and not now:
                    self.ep['downs'][n] += 1
            self._truth_prev[n] = cur

    async def on_transfer_state_changed(self, transfer, old, new):      # TransferStateListener of every transfer
        self.sample_truth()
        st = next((x for x in self.rm.values() if x['t'] is transfer), None)
        if st is not None and 'a' in st['holds'] and transfer.is_finalized() and asyncio.current_task() is st['task']:
            await self._rm_park(st, 'a')

    async def _on_transfer_removed(self, event):                        # listener of TransferRemovedEvent
        st = next((x for x in self.rm.values() if x['t'] is event.transfer), None)
        if st is not None and 'r' in st['holds'] and asyncio.current_task() is st['task']:
            await self._rm_park(st, 'r')

    async def _rm_park(self, st: dict, where: str):
        st['holds'] = st['holds'].replace(where, '')
        st['gate'] = self.loop.create_future()
        st['at'] = where
        try:
            await st['gate']
        finally:
            st['gate'] = None
            st['at'] = None

    def removal_looks(self, name: str):
        """a `remove()` has taken a transfer of this user off the list, or ends: an instant at which the owner may look.
        When no transfer of the user is left nobody but `remove` itself can withdraw the reason now or at the next cycle;
        when only finished ones are left it may as well do what the next cycle would. WHEN the reason is withdrawn (when the
        transfer leaves the list, at the end of `remove`, by the next cycle, or by a cycle that remembers) is the owner's
        business: from here on the exact fold of requests is no reference for this user (the observable reasons after a
        cycle still are, once no removal is in progress)"""
        mine = [x for x in self.mgr.transfers if x.username == name]
        if all(x.is_finalized() for x in mine):
            self.owner_step()
            if name not in self.ep['lenient_users']:
                self.ep['lenient_users'].append(name)
            if not mine:
                self.ref_call(name, False, F_TR)

    def rm_pending(self) -> list:
        """users a removal in progress is about to ask about: their transfer is off the list, the removal has not ended"""
        return sorted({st['t'].username for st in self.rm.values() if st['t'] not in self.mgr.transfers})

    async def _rm_step(self, k: int, st: dict, m: str) -> tuple[str, str]:
        """the removal of k was started / released: let it run to its next hold or its end; returns the steps it took
        ('1' existence check + abort, '2' off the list, '3' the end) and the modifier that really applied"""
        plus = m == '+' and not self.unsettled
        await asyncio.sleep(0)
        n = 1
        while not (st['task'].done() or st['gate'] is not None) and n < 64:
            await asyncio.sleep(0)
            n += 1
        if plus and n == 1:
            m = '+'
            self.unsettled = True
        else:
            await simloop.settle()
            m = '.'
            self.unsettled = False
            self.fire_pending = False
        t = st['t']
        seen = '1' + ('2' if (t not in self.mgr.transfers or st['task'].done()) else '') + ('3' if st['task'].done() else '')
        new = seen[len(st['seen']):]
        if not (st['task'].done() or st['gate'] is not None) or not new:
            # the removal waits for something the schedule does not control (a timer, a lock): from here on the case is
            # judged by the monitor only (this op included when there is no step to tell the model about)
            if self.model_cut is None:
                self.model_cut = len(self.lines) - (0 if new else 1)
        if '2' in new:
            self.tr_clean = False
        if '2' in new or '3' in new:
            self.removal_looks(t.username)
        st['seen'] = seen
        if st['task'].done():
            del self.rm[k]
            if not st['task'].cancelled() and st['task'].exception() is not None:
                e = st['task'].exception()
                self.problems.append(('C15-impl-error', f'remove() raised {type(e).__name__}: {e}'))
        return new, m

    # -- observation -----------------------------------------------------------------------------
    def observe_user(self, name: str) -> str:
        f = self.um.get_tracking_flags(name).value
        s = STATE_CH.get(self.um.get_tracking_state(name).value, '?')
        g = ''.join(k for k, _ in self.gates.get(name, [])) or '-'
        a = ''.join(k for _, k in self.ep['attempts'].get(name, [])) or '-'
        e = ''.join(self.ep['events'].get(name, [])) or '-'
        return f'f={f} s={s} g={g} a={a} e={e}'

    def observe(self) -> str:
        return ' | '.join(self.observe_user(n) for n in NAMES)

    def checkpoint(self, settled: bool, after_close: bool = False, quiesced: bool = False):
        self.checkpoints.append({
            'op': len(self.lines) - 1, 'epoch': len(self.epochs), 'now': self.now(), 'settled': settled,
            'after_close': after_close, 'quiesced': quiesced,
            'users': {n: {'flags': self.um.get_tracking_flags(n).value,
                          'state': STATE_CH.get(self.um.get_tracking_state(n).value, '?'),
                          'gates': ''.join(k for k, _ in self.gates.get(n, []))} for n in NAMES},
            'ncalls': {n: len(self.ep['calls'].get(n, [])) for n in NAMES},
            'nattempts': {n: len(self.ep['attempts'].get(n, [])) for n in NAMES},
            'noutcomes': {n: len(self.ep['outcomes'].get(n, [])) for n in NAMES},
            'stray': sorted(k for k in set(self.gates) | set(self.ep['attempts']) if k not in NAMES
                            and (self.gates.get(k) or self.ep['attempts'].get(k))),
            'truth': self.truth(), 'session': self.session is not None, 'online': self.online,
            'tr_clean': self.tr_clean, 'app_bits': self.app_bits, 'watch': sorted(self.watch),
            'lost_sessions': self.lost_sessions, 'lenient': self.ep['lenient'],
            'lenient_users': list(self.ep['lenient_users']),
            'rm_pending': self.rm_pending() if self.mgr is not None else [],
        })

    # -- ops -------------------------------------------------------------------------------------
    async def after(self, m: str):
        if m == '!' and self.fire_pending:
            m = '.'             # one iteration for the retry task, one more for the worker it wakes: `!` = `.` here
        if m == '.':
            await simloop.settle()
            self.fire_pending = False
        elif m == '!':
            await asyncio.sleep(0)
        self.unsettled = m != '.'

    def transfer(self, k):
        return self.xfers[k] if isinstance(k, int) and 0 <= k < len(self.xfers) else None

    async def do(self, op: list):
        from aioslsk.user.model import TrackingFlag
        self.loop._vt += TICK
        kind = op[0]
        pre = ''
        if kind in ('track', 'untrack'):
            _, u, f, m = op
            name = NAMES[u]
            self.lines.append(f'{kind} {u} {f} {m}')
            self.ref_call(name, kind == 'track', f)
            self.app_bits |= f
            if kind == 'track':
                await self.um.track_user(name, TrackingFlag(f))
            else:
                await self.um.untrack_user(name, TrackingFlag(f))
            await self.after(m)
        elif kind == 'gate':
            _, u, so, ro, m = op[:5]
            if u < 0:       # "whoever is parked": lowest / highest index first, alternating with the op count
                order = NAMES if len(self.lines) % 2 == 0 else NAMES[::-1]
                u = next((NAMES.index(n) for n in order if self.gates.get(n)), 0)
            name = NAMES[u]
            gs = self.gates.get(name, [])
            if gs and gs[0][0] == 'w':                    # (auto) the AddUser never reached a server: nobody answers
                self.lines.append('adv 10')
                await simloop.advance(10)
                m = '.'
                self.unsettled = False
                self.fire_pending = False
            elif gs and gs[0][0] == 'W' and ro == 'silence':
                self.lines.append('adv 10')
                await simloop.advance(10)
                m = '.'
                self.unsettled = False
                self.fire_pending = False
            elif gs and gs[0][0] == 'W':
                self.lines.append(f'resp {u} {ro} {m}')
                self.outcome(name, ro)
                gs[0][1].set_result(ro)
                await self.after(m)
            elif gs and so == 'failclose':
                await self.close('WRITE_ERROR', op[5] if len(op) > 5 else None, via=gs[0])
                return
            else:
                if so == 'failclose':
                    so = 'fail'
                self.lines.append(f'send {u} {so} {m}')
                if gs:
                    if gs[0][0] == 'A' and so == 'fail':
                        self.outcome(name, 'sendfail')
                    # what the server watches in this connection. A RemoveUser whose write fails is not repeated (the code
                    # only logs it: a failed write ends the connection, and with it everything the server watched)
                    if gs[0][0] == 'R':
                        self.watch.discard(name)
                    elif so == 'ok':
                        self.watch.add(name)
                    gs[0][1].set_result(so == 'ok')
                else:
                    pre = 'refused '
                await self.after(m)
        elif kind == 'adv':
            self.lines.append(f'adv {op[1]}')
            await simloop.advance(op[1])
            m = '.'
            self.unsettled = False
            self.fire_pending = False
        elif kind == 'fire':
            _, u = op
            name = NAMES[u]
            await simloop.settle()                            # whatever is runnable runs first
            self.unsettled = False
            self.fire_pending = False
            due = self.retry_due.get(name)
            h = None
            if (not self.auto and due is not None and not self.gates.get(name)
                    and self.um.get_tracking_state(name).value == 'retry_pending' and self.loop.time() <= due):
                # the retry task's timer. The task starts its sleep in the loop iteration after the one in which the attempt
                # failed: when the schedule moved the clock in between (modifier `!`), one tick later than the failure.
                # `ops` = ticks the schedule has spent in ops since the attempt failed: a plain `adv` lands that many ticks
                # after the due instant, and so does `fire` (sitting exactly on the instant would leave the timers armed a
                # few ops later a few ticks ahead, to fall due by the tick of an op instead of by an `adv`)
                eps = TICK / 4
                last = self.ep['outcomes'][name][-1]
                ops_since = (self.now() - last[0]) % 1024
                near = [x for x in self.loop._scheduled if not x._cancelled
                        and due - 2 * TICK - eps <= x._when <= due + (ops_since + 8) * TICK + eps]
                if len(near) == 1 and due - eps <= near[0]._when <= due + TICK + eps:
                    h = near[0]
            if h is None:
                # no retry is pending (or another timer is due within a few ticks of it: which of the two fires first
                # would be left to the tick rounding): nothing to aim at, time just does not pass
                self.lines.append('adv 0')
                m = '.'
            else:
                off = round((h._when - due) / TICK) + ops_since + 2
                self.lines.append(f'fire {u} {off}')
                if self.loop.time() < due - TICK:
                    await simloop.advance(due - TICK - self.loop.time())      # everything due earlier happens first
                self.loop._vt = max(self.loop._vt, due + off * TICK)
                # iteration 1: the timer handle runs (the retry task's sleep is over, its wake-up is scheduled);
                # iteration 2: we are ahead of that wake-up in the ready queue — the window
                await asyncio.sleep(0)
                await asyncio.sleep(0)
                m = '+'
                self.unsettled = True
                self.fire_pending = True
        elif kind == 'close':
            await self.close(op[1] if len(op) > 1 else None, op[2] if len(op) > 2 else None)
            return
        elif kind == 'login':
            from aioslsk.events import SessionInitializedEvent
            from aioslsk.session import Session
            self.lines.append('login')
            self.online = True
            self.tr_clean = False                        # the login requests a cycle: TRANSFER is judged after it ran
            self.session = Session(user=self.um.get_user_object(ME), ip_address='1.2.3.4', greeting='',
                                   client_version=157, minor_version=100)
            for n in NAMES:
                if self.is_friend(n):
                    self.ref_call(n, True, F_FR)
            await self.bus.emit(SessionInitializedEvent(self.session, raw_message=None))
            m = '.'
            await self.after(m)
        elif kind == 'friend':
            from aioslsk.events import FriendListChangedEvent
            _, u, b = op
            name = NAMES[u]
            self.lines.append(f'friend {u} {1 if b else 0}')
            changed = bool(b) != self.is_friend(name)
            (self.settings.users.friends.add if b else self.settings.users.friends.discard)(name)
            if changed:
                self.owner_step()
            if changed and self.session is not None:
                self.ref_call(name, bool(b), F_FR)
            if self.auto:
                await simloop.advance(1.0)                # the user management job (interval 1 s) notices the change
            elif changed:
                # what `UserManager._management_job` emits when it notices the change (user/manager.py:258-290)
                await self.bus.emit(FriendListChangedEvent(added={name} if b else set(), removed=set() if b else {name}))
            m = '.'
            await self.after(m)
        elif kind == 'tadd':
            from aioslsk.transfer.model import Transfer, TransferDirection
            _, u, how, m = op
            name = NAMES[u]
            self.lines.append(f'tadd {u} {m}')
            k = len(self.xfers)
            if how == 'u':
                t = await self.mgr.add(Transfer(name, f'c\\{k}.mp3', TransferDirection.UPLOAD))
                await t.state.queue()
            else:
                t = await self.mgr.download(name, f'@@a\\{k}.mp3', paused=(how == 'p'))
            t.state_listeners.append(self)
            self.xfers.append(t)
            self.tr_clean = False
            await self.after(m)
        elif kind in ('trmb', 'trmc'):
            k, m = op[1], op[-1]
            st = self.rm.get(k)
            t = self.transfer(k) if kind == 'trmb' else None
            if (kind == 'trmb' and t is None) or (kind == 'trmc' and (st is None or st['gate'] is None)):
                # no such transfer / it is being removed already / no removal of k waits anywhere
                self.lines.append(f'trmp {k} {"1" if kind == "trmb" else "3"} .')
                await simloop.settle()
                self.unsettled = False
                self.fire_pending = False
                pre = 'refused '
                m = '.'
            else:
                if kind == 'trmb':
                    st = {'t': t, 'holds': ''.join(h for h in 'ar' if h in op[2]), 'gate': None, 'at': None, 'seen': '',
                          'task': None}
                    self.rm[k] = st
                    self.xfers[k] = None
                    self.tr_clean = False
                    st['task'] = asyncio.ensure_future(self.mgr.remove(t))
                else:
                    gate, st['gate'] = st['gate'], None
                    gate.set_result(None)
                at = len(self.lines)
                self.lines.append(None)
                new, m = await self._rm_step(k, st, m)
                self.lines[at] = f'trmp {k} {new or "-"} {m}'
        elif kind in ('tfin', 'tque', 'trm'):
            k, m = op[1], op[-1]
            self.lines.append(f'{kind} {k} {m}')
            t = self.transfer(k)
            if t is None or (kind == 'tfin' and t.is_finalized()) or (kind == 'tque' and not t.is_finalized()):
                pre = 'refused '
            elif kind == 'tfin':
                if op[2] == 'fail':
                    await t.state.fail(reason='scripted')
                else:
                    await self.mgr.abort(t)
                self.tr_clean = False
            elif kind == 'tque':
                await self.mgr.queue(t)
                self.tr_clean = False
            else:
                await self.mgr.remove(t)
                self.xfers[k] = None
                self.tr_clean = False
                self.removal_looks(t.username)
            await self.after(m)
        elif kind == 'cycle':
            m = op[1]
            if self.auto:
                raise ValueError('`cycle` in a free-running case')
            self.lines.append(f'cycle {m}')
            self.owner_step()
            for n in NAMES:                                      # what the owner can see at this instant
                if self.has_unfinished(n):
                    self.ref_call(n, True, F_TR)
                elif self.has_finished(n):
                    self.ref_call(n, False, F_TR)
            await self.mgr.manage_user_tracking()
            self.tr_clean = self.session is not None     # a cycle without a session says nothing about the next session
            await self.after(m)
        elif kind == 'tm':
            # older replay files: "one cycle over exactly these transfers"
            for k, t in enumerate(self.xfers):
                if t is not None:
                    await self.do(['trm', k, '+'])
            for u in op[1]:
                await self.do(['tadd', u, 'p', '+'])
            for u in op[2]:
                await self.do(['tadd', u, 'p', '+'])
                await self.do(['tfin', len(self.xfers) - 1, 'abort', '+'])
            await self.do(['cycle', '+'])
            if op[3] == '.':
                await self.do(['adv', 0])
            return
        elif kind == 'trmg':
            # (free-running) several calls on the manager at once, as an application's "clear all" makes them
            if not self.auto:
                raise ValueError('`trmg` in a scripted case')
            from aioslsk.transfer.model import Transfer as _T  # noqa: F401
            ts = [self.transfer(k) for k in op[1]]
            calls = [self.mgr.remove(t) for t in ts if t is not None]
            for k in op[1]:
                if self.transfer(k) is not None:
                    self.xfers[k] = None

            async def add(name):
                t = await self.mgr.download(name, f'@@a\\{len(self.xfers)}.mp3')
                t.state_listeners.append(self)
                self.xfers.append(t)

            if op[2] is not None:
                calls.append(add(NAMES[op[2]]))
            res = await asyncio.gather(*calls, return_exceptions=True)
            for e in res:
                if isinstance(e, BaseException) and not isinstance(e, Exception):
                    raise e
                if isinstance(e, Exception):
                    self.problems.append(('C15-impl-error', f'remove() / download() raised {type(e).__name__}: {e}'))
            self.tr_clean = False
            await simloop.settle()
            m = '.'
        elif kind == 'quiesce':
            await self.quiesce()
            return
        elif kind == 'restart':
            await self.close()
            tasks = await self.mgr.stop()
            tasks += await self.um.stop()
            await asyncio.gather(*tasks, return_exceptions=True)
            await self.um.start()
            await self.mgr.start()
            await simloop.settle()
            return
        else:
            raise ValueError(f'unknown op {op!r}')
        self.sample_truth()
        self.obs.append(pre + self.observe())
        self.checkpoint(m == '.')

    async def _on_conn_state(self, event):
        """the application's CLOSED listener: the tracking manager has been told, its listener has returned"""
        from aioslsk.network.connection import ConnectionState
        from aioslsk.user.model import TrackingFlag
        calls, self._close_calls = self._close_calls, None
        if calls is None or event.state != ConnectionState.CLOSED:
            return
        self._end_epoch()
        # judged here: no flags, no state. A worker that was waiting for an answer may still be parked there for the one
        # step its cancellation needs to arrive (an implementation that drops its entries without waiting): not a frame
        for n in NAMES:
            self.checkpoints[-1]['users'][n]['gates'] = ''
        for kind, u, f in calls:
            self.loop._vt += TICK
            name = NAMES[u]
            self.lines.append(f'{kind} {u} {f} +')
            self.ref_call(name, kind == 'track', f)
            self.app_bits |= f
            if kind == 'track':
                await self.um.track_user(name, TrackingFlag(f))
            else:
                await self.um.untrack_user(name, TrackingFlag(f))
            self.sample_truth()
            self.obs.append(self.observe())
            self.checkpoint(False)

    def _end_epoch(self):
        # the epoch ends here: what is observed afterwards belongs to a fresh history
        self._epoch_closed = True
        self.tr_clean = False
        self.checkpoint(True, after_close=True)
        self.epochs.append(self.ep)
        self.ep = self._new_epoch()
        self._truth_prev = {n: (False, False, False) for n in NAMES}
        self.sample_truth()
        self.obs.append(self.observe())

    async def close(self, reason=None, inside=None, via=None):
        from aioslsk.events import ConnectionStateChangedEvent, SessionDestroyedEvent
        from aioslsk.network.connection import CloseReason, ConnectionState, ServerConnection
        self.lines.append('close')
        conn = ServerConnection('1.1.1.1', 2242, self.net)
        self.online = False
        self.watch.clear()
        self.retry_due.clear()
        event = ConnectionStateChangedEvent(conn, ConnectionState.CLOSED) if reason is None else \
            ConnectionStateChangedEvent(conn, ConnectionState.CLOSED, CloseReason[reason])
        inside = [c for c in (inside or []) if c[0] in ('track', 'untrack')]
        # A write of a tracking task that is in flight when CLOSED is reported: the real connection fails such a write
        # when it shuts the transport, before it reports CLOSED; this stub keeps it parked, and the tracking manager
        # (which takes a CLOSED that arrives during one of its writes for one caused by that write) does not wait for
        # its workers then. The calls of the application's listener are made once the loop has settled in that case.
        self._epoch_closed = False
        self._close_calls = None

        async def closed():
            # (whatever the previous op left runnable has run by now: a worker may have reached its write meanwhile)
            write_parked = via is not None or any(k in 'AR' for gs in self.gates.values() for k, _ in gs)
            if inside and not self.auto and (not write_parked or not self.defer):
                self._close_calls = inside
                self.undeferred = self.undeferred or write_parked
            await self.bus.emit(event)
            if self.session is not None:                 # client.py:376-382, the last CLOSED listener
                session, self.session = self.session, None
                self.lost_sessions += 1
                await self.bus.emit(SessionDestroyedEvent(session))
            done.append(True)

        done: list = []
        if via is None:
            t = asyncio.ensure_future(closed())
        else:
            # reported from inside the failing write of this worker (`_StubNet.send_server_messages`)
            self._closing = closed
            via[1].set_result('close')
            t = None
        await simloop.settle()
        self.unsettled = False
        self.fire_pending = False
        if t is None and not done:
            self.problems.append(('C15-close-hangs',
                                  'a tracking write failed and closed the server connection: the handling of the CLOSED '
                                  'event, which runs inside that write, never completes (the tracking task waits for itself)'))
            self.session = None
        elif t is not None and not t.done():
            self.problems.append(('C15-close-hangs',
                                  'handling of the server CLOSED event never completes (a tracking task '
                                  'survived its cancellation)'))
            t.cancel()
            await simloop.settle()
            self.session = None
        self.tr_clean = False
        if self._epoch_closed:
            # the application's listener made its calls inside the notification; the loop has settled since
            await self.do(['adv', 0])
        else:
            self._close_calls = None
            self._end_epoch()
            for i, (kind, u, f) in enumerate(inside):
                await self.do([kind, u, f, '.' if i == len(inside) - 1 else '+'])

    async def quiesce(self):
        """(free-running cases) everything parked is answered "exists", pending retries come due, both management
        jobs get their turns — until nothing moves; then the observable reasons are compared (checkpoint)."""
        settled = False
        waited_short = False
        for _ in range(24):
            await simloop.advance(2.0)
            parked = [n for n in NAMES if self.gates.get(n) and self.gates[n][0][0] in 'ARW']
            for n in parked:
                await self.do(['gate', NAMES.index(n), 'ok', 'exists', '.'])
            if parked:
                continue
            if not self.online:
                settled = True           # nobody answers: retries go on for as long as the connection is down
                break
            waiting = [n for n in NAMES if self.gates.get(n) or self.um.get_tracking_state(n).value == 'retry_pending']
            if not waiting:
                settled = True
                break
            # a response time-out or a retry is pending: the short documented delay first, then the long one
            await simloop.advance(min(DELAY.values()) + 1 if not waited_short else max(DELAY.values()) + 1)
            waited_short = not waited_short
        if not settled:
            self.problems.append(('C15-does-not-settle', 'tracking keeps issuing network calls although every '
                                  'attempt is answered "exists"'))
        self.sample_truth()
        self.checkpoint(True, quiesced=settled)

    async def drain(self):
        await self.do(['adv', 0])          # let whatever the last op left runnable run first
        for _ in range(8):                 # every removal that still waits in a listener goes on to its end
            waiting = [k for k, st in self.rm.items() if st['gate'] is not None]
            if not waiting:
                break
            for k in waiting:
                await self.do(['trmc', k, '.'])
        if self.rm:
            self.problems.append(('C15-impl-error', 'remove() does not return although nothing holds it'))
        for _ in range(40):
            await simloop.settle()
            parked = [(n, gs[0][0]) for n in NAMES for gs in [self.gates.get(n, [])] if gs]
            if not parked:
                return
            for n, k in parked:
                await self.do(['gate', NAMES.index(n), 'ok', 'exists', '.'])
        self.problems.append(('C15-does-not-settle', 'tracking keeps issuing network calls although every '
                              'attempt is answered "exists"'))


class _StubShares(_StandIn):
    """Stands in for `SharesManager`: every requested file exists (what an upload attempt asks before it talks to the
    peer); downloads go nowhere."""

    async def get_shared_item(self, remote_path, username=None):
        from vlib import xferrig
        return xferrig._Item(xferrig.shared_file())

    async def find_shared_item(self, remote_path, username=None):
        return await self.get_shared_item(remote_path, username)

    def find_shared_item_cache(self, remote_path, username=None):
        from vlib import xferrig
        return xferrig._Item(xferrig.shared_file())

    async def get_filesize(self, item):
        from vlib import xferrig
        return xferrig.FILE_SIZE


class _StubNet(_StandIn):
    """Stands in for `Network`: the two coroutines the tracking code awaits, and the peer side as far as the transfer
    manager gets without a peer: a download is queued remotely at once, every other peer message finds no peer."""

    def __init__(self, run: _Run):
        self.run = run

    async def send_server_messages(self, *messages, raise_on_error: bool = True):
        from aioslsk.protocol.messages import AddUser, RemoveUser
        from aioslsk.exceptions import ConnectionWriteError
        run = self.run
        for msg in messages:
            if isinstance(msg, AddUser.Request):
                kind = 'A'
            elif isinstance(msg, RemoveUser.Request):
                kind = 'R'
            else:
                continue
            if msg.username == ME:
                continue                      # the own name: answered at once, not part of the schedule
            if run.auto and not run.online:
                # no server connection: `Connection.send_message` drops the message (closing / closed) or raises (no writer)
                run.attempt(msg.username, kind.lower())
                if kind == 'A':
                    run.dead_wait.add(msg.username)
                if run.offline_mode == 'raise':
                    if kind == 'A':
                        run.outcome(msg.username, 'sendfail')
                    raise ConnectionWriteError('no server connection')
                continue
            run.dead_wait.discard(msg.username)
            run.attempt(msg.username, kind)
            ok = await run.park(msg.username, kind)
            if ok == 'close':
                await run._closing()
                raise ConnectionWriteError('scripted write error, the connection was closed')
            if not ok:
                raise ConnectionWriteError('scripted send failure')

    async def wait_for_server_message(self, message_class, fields=None, timeout: float = 10):
        from aioslsk.protocol.messages import AddUser
        from aioslsk.exceptions import ConnectionReadError
        user = (fields or {}).get('username', '?')
        if user == ME:
            return AddUser.Response(user, exists=True, status=2, country_code='XX')
        t0 = self.run.now()
        try:
            async with asyncio.timeout(timeout):
                ans = await self.run.park(user, 'w' if user in self.run.dead_wait else 'W')
        except TimeoutError:
            self.run.outcome(user, 'timeout')
            if self.run.now() - t0 != DELAY['timeout'] * 1024:
                self.run.problems.append((
                    'C15-response-timeout-wrong',
                    f'user {user}: the wait for the AddUser answer gave up after {(self.run.now() - t0) / 1024} s, '
                    f'documented: {DELAY["timeout"]} s'))
            raise
        if ans == 'exists':
            return AddUser.Response(user, exists=True, status=2, country_code='XX')
        if ans == 'notexists':
            return AddUser.Response(user, exists=False)
        raise ConnectionReadError('scripted error while waiting for the response')

    async def send_peer_messages(self, username, *messages, raise_on_error: bool = True):
        from aioslsk.protocol.messages import PeerTransferQueue
        if all(isinstance(m, PeerTransferQueue.Request) for m in messages) and not self.run.peer_hang:
            return None                       # delivered: the download waits in the uploader's queue
        await self.run.loop.create_future()   # anything else: the peer never answers (the attempt hangs until cancelled)

    def queue_server_messages(self, *messages):
        return []


async def _run_case_async(loop, case: dict) -> dict:
    r = _Run(loop, case)
    if r.auto:
        await r.um.start()
        await r.mgr.start()
    for op in case['ops']:
        await r.do(op)
    if r.auto:
        await r.quiesce()
        tasks = await r.mgr.stop()
        tasks += await r.um.stop()
        await asyncio.gather(*tasks, return_exceptions=True)
    else:
        await r.drain()
    r.epochs.append(r.ep)
    if r.model_cut is not None:
        del r.lines[r.model_cut:]
        del r.obs[r.model_cut:]
    return {'lines': [] if r.auto else r.lines, 'obs': r.obs, 'epochs': r.epochs, 'checkpoints': r.checkpoints,
            'problems': r.problems, 'loop_exceptions': loop.exceptions[:3], 'auto': r.auto, 'world': r.world,
            'undeferred': r.undeferred}


def _run_impl(case: dict) -> dict:
    res, _loop = simloop.run(_run_case_async, case, start=0.0, wall_timeout=30.0)
    return res


def _empty(**kw) -> dict:
    d = {'lines': [], 'obs': [], 'epochs': [], 'checkpoints': [], 'problems': [], 'loop_exceptions': [],
         'auto': False, 'world': False}
    d.update(kw)
    return d


def _eval_case(case: dict) -> dict:
    import logging
    logging.getLogger('aioslsk').setLevel(logging.CRITICAL)    # the library logs swallowed exceptions; keep stderr clean
    del _GAPS[:]
    try:
        res = _run_impl(case)
    except HarnessGap as e:
        return _empty(harness_error=str(e))
    except Exception as e:
        if _GAPS:
            return _empty(harness_error=_GAPS[0])
        if _raised_in_harness(e) and not isinstance(e, TimeoutError):
            return _empty(harness_error=f'{type(e).__name__}: {e} (raised in harness code: '
                                        f'{traceback.extract_tb(e.__traceback__)[-1].filename}:'
                                        f'{traceback.extract_tb(e.__traceback__)[-1].lineno})')
        # the code under test raised / hung while being driven through its public entry points: the correspondence no
        # longer checks (vlib.common demotes `…impl-error`: it is never reported as a failing input)
        return _empty(problems=[('C15-impl-error', f'{type(e).__name__}: {e}')])
    if _GAPS:
        return _empty(harness_error=_GAPS[0])
    return res


def _infra_exit(results: list):
    """a stand-in of this harness was not up to the code under test: nothing can be said about the property"""
    bad = [r['harness_error'] for r in results if r.get('harness_error')]
    if bad:
        print(f'INFRA-ERROR: C15 harness cannot drive the code under test ({len(bad)} case(s)): {bad[0]}', file=sys.stderr)
        raise SystemExit(2)


# ------------------------------------------------------------------------------------------------
# monitor: the property statement on the implementation trace (independent of the Lean model)
# ------------------------------------------------------------------------------------------------

def _fold(calls: list) -> tuple[int, str]:
    """R_u and the edge sequence of the calls (issue order)."""
    r, edges = 0, ''
    for _t, add, f in calls:
        new = (r | f) if add else (r & ~f)
        if r == 0 and new != 0:
            edges += 'A'
        elif r != 0 and new == 0:
            edges += 'R'
        r = new
    return r, edges


def _collapse(attempts: list) -> str:
    out = ''
    for _t, k in attempts:
        k = k.upper()
        if k == 'A' and out.endswith('A'):
            continue
        out += k
    return out


def _bits(t: dict, session: bool) -> int:
    return (F_REQ if t['req'] else 0) | (F_TR if t['unf'] else 0) | (F_FR if t['fr'] and session else 0)


def _why(n: str, cp: dict) -> str:
    t = cp['truth'][n]
    return (f'explicit request standing: {t["req"]}, unfinished transfer exists: {t["unf"]}, in the friends list: '
            f'{t["fr"]}, session: {cp["session"]}, sessions lost before: {cp["lost_sessions"]}')


def _monitor_truth(case: dict, res: dict, flag):
    """the reasons as they can be observed from outside (friends list in the settings, unfinished transfers, explicit
    requests still standing) against what the library reports and what it asked the server for. Only in a session is
    there anything to mirror: without one, only the application's own REQUESTED is compared."""
    epochs = res['epochs']
    for cp in res['checkpoints']:
        if cp['after_close'] or cp['epoch'] >= len(epochs) or not res['world']:
            continue
        if not (cp['settled'] and (cp['quiesced'] or not res['auto'])):
            continue
        if cp['app_bits'] & (F_TR | F_FR):
            continue            # the application named an owner's reason itself: the observable reasons do not say
        ep = epochs[cp['epoch']]
        for n in NAMES:
            u = cp['users'][n]
            if u['gates']:
                continue
            if n in cp.get('rm_pending', ()):
                continue        # a `remove()` has taken the user's transfer off the list and has not ended yet
            where = f'user {n} after op #{cp["op"]}'
            t = cp['truth'][n]
            exp = _bits(t, cp['session'])
            # which bits can be judged here
            mask = F_REQ
            if cp['session']:
                mask |= F_FR
                if res['auto'] or cp['tr_clean']:
                    mask |= F_TR        # free-running: the cycle requested by the change / the login has run (quiesced)
            if (u['flags'] ^ exp) & mask:
                flag('C15-reasons-not-mirrored',
                     f'{where}: quiescent{" in a session" if cp["session"] else ", no session"}, '
                     f'get_tracking_flags={u["flags"]} but the observable reasons are {exp} '
                     f'(compared bits {mask}; {_why(n, cp)})', observed=u['flags'], required=exp)
                continue
            if res['auto']:
                if cp['session'] and cp['online']:
                    if (n in cp['watch']) != (exp != 0):
                        flag('C15-wire-not-mirrored',
                             f'{where}: quiescent in a session, reasons {exp}, but the server '
                             f'{"was" if n in cp["watch"] else "was not"} asked to watch the user in this connection '
                             f'({_why(n, cp)})', observed=cp['watch'], required=exp != 0)
                        continue
                    if (u['state'] == 'T') != (exp != 0):
                        flag('C15-state-wrong',
                             f'{where}: quiescent in a session, every attempt answered "exists", state {u["state"]}, '
                             f'reasons {exp}', observed=u['state'], required='T' if exp else 'not T')
            elif cp['lenient'] or n in cp['lenient_users']:
                # scripted, after an owner looked without a session (or `remove` took a user's last transfer): the fold
                # of requests is no reference any more —
                # the last request made is still an AddUser iff a reason is held, and the state follows the last answer
                c = _collapse(ep['attempts'].get(n, [])[:cp['nattempts'][n]])
                if c.endswith('A') != (u['flags'] != 0):
                    flag('C15-wire-not-mirrored',
                         f'{where}: quiescent, get_tracking_flags={u["flags"]} but the requests made in this connection '
                         f'are {c!r}', observed=c, required='ends with AddUser' if u['flags'] else 'does not')
                    continue
                outcomes = ep['outcomes'].get(n, [])[:cp['noutcomes'][n]]
                last = outcomes[-1][1] if outcomes else None
                if (u['state'] == 'T') != (u['flags'] != 0 and last == 'exists'):
                    flag('C15-state-wrong', f'{where}: quiescent, state {u["state"]}, reasons {u["flags"]}, last answer {last}',
                         observed=u['state'])
    if res['auto']:
        # "and never otherwise": requests alternate, and there are no more of them than the observable reasons had edges
        for ep in epochs:
            for n in NAMES:
                c = _collapse(ep['attempts'].get(n, []))
                if c != ('AR' * len(c))[:len(c)]:
                    flag('C15-frames-not-edges', f'user {n}: requests {c!r} do not alternate AddUser / RemoveUser',
                         observed=c)
                elif c.count('A') > ep['ups'][n] or c.count('R') > ep['downs'][n]:
                    flag('C15-frames-not-edges',
                         f'user {n}: requests {c!r}, but in this connection an observable reason appeared only '
                         f'{ep["ups"][n]} time(s) and disappeared {ep["downs"][n]} time(s)', observed=c,
                         required={'max_add': ep['ups'][n], 'max_remove': ep['downs'][n]})


KNOWN_LOST_IN_CLOSED = 'C15-call-lost-in-closed-raised-by-tracking-write'
LOST_IN_CLOSED = ('C15-not-dropped-on-close', 'C15-flags-not-fold-of-calls', 'C15-frames-not-edges', 'C15-state-wrong')


def _monitor(case: dict, res: dict) -> list[Violation]:
    vs: list[Violation] = []

    def flag(sig, what, observed=None, required=None):
        if res.get('undeferred') and sig in LOST_IN_CLOSED:
            # (`defer: false`, the witness of the known finding only) calls were made inside a CLOSED notification that a
            # tracking write raised: entries that outlive that notification, and the calls lost on them, are that finding
            what = f'{KNOWN_LOST_IN_CLOSED}: {what}'
            sig = KNOWN_LOST_IN_CLOSED
        vs.append(Violation(sig, what, case, observed=observed, required=required))

    for sig, what in res['problems']:
        flag(sig, what)
    for ex in res.get('loop_exceptions', []):
        flag('C15-impl-error', f'exception escaped into the event loop: {ex}')
    epochs = res['epochs']
    _monitor_truth(case, res, flag)
    for cp in res['checkpoints']:
        if cp['epoch'] >= len(epochs):
            continue
        ep = epochs[cp['epoch']]
        if cp['stray']:
            flag('C15-frames-not-edges', f'network call for a user nobody asked about: {cp["stray"]}')
        for n in NAMES:
            u = cp['users'][n]
            calls = ep['calls'].get(n, [])[:cp['ncalls'][n]]
            attempts = ep['attempts'].get(n, [])[:cp['nattempts'][n]]
            outcomes = ep['outcomes'].get(n, [])[:cp['noutcomes'][n]]
            R, E = _fold(calls)
            C = _collapse(attempts)
            where = f'user {n} after op #{cp["op"]}'
            if cp['after_close']:
                # everything is dropped when the server connection closes
                if u['flags'] != 0 or u['state'] != 'U' or u['gates']:
                    flag('C15-not-dropped-on-close',
                         f'{where}: after the server connection closed the user still has flags/state/'
                         f'a tracking task talking to the network', observed=u,
                         required={'flags': 0, 'state': 'U', 'gates': ''})
                continue
            if res['auto'] or cp.get('lenient') or n in cp.get('lenient_users', ()):
                continue            # free-running owners / an owner looked without a session: `_monitor_truth` only
            # AddUser/RemoveUser exactly on the edges of R_u (retries repeat the AddUser of their edge)
            if not E.startswith(C):
                flag('C15-frames-not-edges',
                     f'{where}: requests sent {"".join(k for _, k in attempts)!r} are not the empty<->non-empty '
                     f'edges {E!r} of the calls made (plus AddUser retries)',
                     observed=''.join(k for _, k in attempts), required=E)
                continue
            if not (cp['settled'] and not u['gates']):
                continue
            # user is quiescent: nothing parked, loop settled
            if u['flags'] != R:
                flag('C15-flags-not-fold-of-calls',
                     f'{where}: get_tracking_flags={u["flags"]} but the calls made so far'
                     + (f' and what the owners of the reasons could see when they looked leave reasons {R} [{_why(n, cp)}]'
                        if res['world'] else f' leave reasons {R} (a call was lost)'),
                     observed=u['flags'], required=R)
                continue
            if C != E:
                flag('C15-frames-not-edges',
                     f'{where}: quiescent, requests sent {"".join(k for _, k in attempts)!r}, edges of the calls '
                     f'{E!r}', observed=''.join(k for _, k in attempts), required=E)
                continue
            last = outcomes[-1] if outcomes else None
            want_tracked = R != 0 and last is not None and last[1] == 'exists'
            if (u['state'] == 'T') != want_tracked:
                flag('C15-state-wrong',
                     f'{where}: quiescent, state {u["state"]}, reasons {R}, last answer {last and last[1]}',
                     observed=u['state'], required='T' if want_tracked else 'not T')
            if R != 0 and last is not None and last[1] in DELAY:
                due = last[0] + DELAY[last[1]] * 1024
                if cp['now'] >= due:
                    flag('C15-retry-missing',
                         f'{where}: attempt failed ({last[1]}) at tick {last[0]}, a reason remains, '
                         f'{DELAY[last[1]]} s have passed and no retry was sent',
                         observed={'now': cp['now']}, required={'retry_at': due})
    # retries ("never otherwise" / "retried after the documented delay only while a reason remains"): an AddUser that
    # repeats an AddUser is the retry of the attempt before it — the last thing that happened for this user is that
    # attempt FAILING, and the documented delay for that kind of failure has passed since. Not: after an attempt that
    # was answered "exists", not while an attempt is unanswered, not early.
    for ep in epochs:
        for n, log in ep.get('log', {}).items():
            prev = None          # the last request: 'A' | 'R'
            last = None          # the last entry: request or outcome
            for t, k in log:
                if k.upper() not in ('A', 'R'):
                    last = (t, k)
                    continue
                k = k.upper()
                if k == 'A' and prev == 'A':
                    if last is None or last[1] not in DELAY:
                        flag('C15-spurious-retry',
                             f'user {n}: AddUser re-sent at tick {t} although the attempt before it did not fail: the last '
                             f'thing that happened for this user is {last and last[1]!r} at tick {last and last[0]} (a retry '
                             f'that was called off, or no retry at all)', observed={'at': t, 'last': last})
                        break
                    due = last[0] + DELAY[last[1]] * 1024
                    if t < due:
                        flag('C15-spurious-retry',
                             f'user {n}: AddUser re-sent at tick {t}, but the attempt before it failed ({last[1]}) at tick '
                             f'{last[0]}: the documented retry is due at tick {due}', observed={'at': t}, required={'due': due})
                        break
                prev = k
                last = (t, k)
    return vs


# ------------------------------------------------------------------------------------------------
# model side
# ------------------------------------------------------------------------------------------------

def _model_lines(res: dict) -> list[str]:
    return ['reset'] + list(res['lines'])


# ------------------------------------------------------------------------------------------------
# generator
# ------------------------------------------------------------------------------------------------

SINGLE = [1, 2, 4]
COMBO = [3, 5, 6, 7]
ADV = [1, 5, 9, 10, 11, 20, 30, 590, 600, 601, 1200]


def _flag(rng):
    return rng.choice(SINGLE) if rng.random() < 0.7 else rng.choice(COMBO)


def _mod(rng, weights=(5, 2, 3)):
    return rng.choices(['.', '+', '!'], weights=weights)[0]


def _gate(rng, u, m=None):
    x = rng.random()
    so = 'ok' if x < 0.78 else 'fail' if x < 0.96 else 'failclose'
    ro = rng.choices(['exists', 'notexists', 'error', 'silence'], weights=[5, 2, 1, 2])[0]
    return ['gate', u, so, ro, m if m is not None else rng.choices(['.', '!'], weights=[3, 2])[0]]


def _good(u):
    return ['gate', u, 'ok', 'exists', '.']


REASONS = ['UNKNOWN', 'REQUESTED', 'READ_ERROR', 'WRITE_ERROR', 'TIMEOUT', 'EOF']


def _close(rng):
    return ['close'] if rng.random() < 0.5 else ['close', rng.choice(REASONS)]


def _close_calls(rng, nusers=2, believed=(0, 0), u=None):
    """what the application's own CLOSED listener asks for: mostly about users that were tracked when the connection went"""
    held = [v for v in range(nusers) if believed[v]]
    if u is None:
        u = rng.choice(held) if held and rng.random() < 0.8 else rng.randrange(nusers)
    y = rng.random()
    if y < 0.55:
        w = [['track', u, _flag(rng)]]
    elif y < 0.75:
        w = [['untrack', u, believed[u] or 7], ['track', u, _flag(rng)]]
    elif y < 0.85:
        w = [['untrack', u, believed[u] or _flag(rng)]]
    else:
        w = [['track', u, _flag(rng)], ['track', (u + 1) % nusers, _flag(rng)]]
    return w


def _gen_random(rng: random.Random) -> list:
    nusers = rng.choice([1, 1, 2])
    ncalls = rng.randint(1, 8)
    believed = [0, 0]
    ops: list = []
    calls = 0
    while calls < ncalls and len(ops) < 40:
        x = rng.random()
        u = rng.randrange(nusers)
        if x < 0.42:
            if believed[u] and rng.random() < 0.5:
                # untrack something (mostly what is set; sometimes everything, sometimes something else)
                y = rng.random()
                f = believed[u] if y < 0.45 else rng.choice([b for b in SINGLE if believed[u] & b] or SINGLE) \
                    if y < 0.8 else _flag(rng)
                ops.append(['untrack', u, f, _mod(rng)])
                believed[u] &= ~f
            elif rng.random() < 0.12:
                ops.append(['untrack', u, _flag(rng), _mod(rng)])
            else:
                f = _flag(rng)
                ops.append(['track', u, f, _mod(rng)])
                believed[u] |= f
            calls += 1
        elif x < 0.80:
            ops.append(_gate(rng, u if rng.random() < 0.3 else -1))
        elif x < 0.93:
            ops.append(['adv', rng.choice(ADV)])
        elif x < 0.95:
            ops.append(['fire', u])
        else:
            if rng.random() < 0.4:
                w = _close_calls(rng, nusers, believed)
                ops.append(['close', None, w])
                believed = [0, 0]
                for k, v, f in w:
                    believed[v] = (believed[v] | f) if k == 'track' else (believed[v] & ~f)
                calls += len(w)
            else:
                ops.append(['close'])
                believed = [0, 0]
    for _ in range(rng.randint(0, 4)):
        ops.append(_gate(rng, -1) if rng.random() < 0.6 else ['adv', rng.choice(ADV)])
    return ops


def _tmpl_exit_window(rng):
    """a call lands between "worker returned" and "its done-callback ran" """
    u = rng.randrange(2)
    f, g = _flag(rng), _flag(rng)
    ops = [['track', u, f, _mod(rng)], ['gate', u, 'ok', 'exists', '.'],
           ['gate', u, 'ok', rng.choice(['exists', 'notexists', 'error']), '.'],
           ['untrack', u, f, '.'], ['gate', u, rng.choice(['ok', 'fail']), 'exists', '!'],
           [rng.choice(['track', 'track', 'untrack']), u, g, _mod(rng)]]
    if rng.random() < 0.5:
        ops.append(['track', u, _flag(rng), '.'])
    return ops


def _tmpl_noop_exit(rng):
    """worker exits straight from queue.get (request leaves the reasons empty), call one iteration later"""
    u = rng.randrange(2)
    f = _flag(rng)
    return [['track', u, f, '+'], ['untrack', u, f, '+'], ['untrack', u, f, '.'],
            ['gate', u, 'ok', 'exists', '.'], ['gate', u, 'ok', 'exists', '.'],
            ['gate', u, 'ok', 'exists', '!'], ['track', u, _flag(rng), '.']]


def _tmpl_close_in_cancel(rng):
    """server closes right after the request that empties the reasons while a retry is pending"""
    u = rng.randrange(2)
    f = _flag(rng)
    fail = rng.choice([['gate', u, 'fail', 'exists', '.'], ['gate', u, 'ok', 'notexists', '.'],
                       ['gate', u, 'ok', 'silence', '.']])
    ops = [['track', u, f, '.']] + ([fail] if fail[2] == 'fail' else [['gate', u, 'ok', 'exists', '.'], fail])
    ops += [['untrack', u, f, rng.choice(['!', '+', '!'])]]
    if rng.random() < 0.5:
        ops.append(['track', u, _flag(rng), rng.choice(['!', '+'])])
    ops.append(['close'])
    if rng.random() < 0.6:
        ops += [['adv', rng.choice([10, 11, 600, 601])], ['track', u, _flag(rng), '.']]
    return ops


def _tmpl_retry(rng):
    """failed attempts, retries at the documented delay, reasons withdrawn before / after the retry"""
    u = rng.randrange(2)
    f = _flag(rng)
    how = rng.choice(['sendfail', 'notexists', 'silence', 'error'])
    ops = [['track', u, f, '.']]
    if how == 'sendfail':
        ops.append(['gate', u, 'fail', 'exists', '.'])
    else:
        ops += [['gate', u, 'ok', 'exists', '.'], ['gate', u, 'ok', how, '.']]
    d = 600 if how == 'notexists' else 10
    ops.append(['adv', rng.choice([d - 1, d - 1, d, d + 1])])
    y = rng.random()
    if y < 0.3:
        ops.append(['untrack', u, f, _mod(rng)])
    elif y < 0.5:
        ops.append(['track', u, _flag(rng), _mod(rng)])
    ops.append(['adv', rng.choice([1, 2, d])])
    ops.append(_gate(rng, u))
    ops.append(_gate(rng, u))
    if rng.random() < 0.5:
        ops.append(['adv', rng.choice([d, d + 1, 2 * d + 1])])
    return ops


def _fail(rng, u):
    """ops that make u's pending AddUser attempt fail (send failure / not-exists / error / silence)"""
    how = rng.choice(['sendfail', 'notexists', 'silence', 'error'])
    if how == 'sendfail':
        return [['gate', u, 'fail', 'exists', '.']]
    return [['gate', u, 'ok', 'exists', '.'], ['gate', u, 'ok', how, '.']]


def _tmpl_retry_window(rng):
    """calls land in the loop iteration between "the retry timer fired" and "the retry task put its request": they are
    ahead of the retry request on the queue, and cancelling the retry task comes too late"""
    u = rng.randrange(2)
    f = _flag(rng)
    ops = [['track', u, f, '.']] + _fail(rng, u)
    if rng.random() < 0.3:                      # the retry itself fails once more: a second timer
        ops += [['adv', rng.choice([10, 600, 601])], *_fail(rng, u)]
    ops.append(['fire', u])
    y = rng.random()
    g = f if rng.random() < 0.5 else _flag(rng)
    if y < 0.45:
        w = [['untrack', u, 7 if rng.random() < 0.5 else f, '+'], ['track', u, g, '+']]
        if rng.random() < 0.3:
            w += [['untrack', u, 7, '+'], ['track', u, _flag(rng), '+']]
    elif y < 0.6:
        w = [['untrack', u, 7 if rng.random() < 0.5 else f, '+']]
    elif y < 0.75:
        w = [['track', u, _flag(rng), '+']]
    elif y < 0.85:
        w = [['untrack', u, 7, '+'], ['track', 1 - u, _flag(rng), '+']]
    elif y < 0.92:
        w = [_close(rng)]
    else:
        w = []
    if w and w[-1][0] != 'close' and rng.random() < 0.5:
        w[-1][-1] = rng.choice(['.', '!'])       # the window ends with this call
    ops += w
    for _ in range(rng.randint(2, 6)):           # the workers catch up; attempts are answered (some fail again)
        ops.append(_good(u) if rng.random() < 0.7 else _gate(rng, u))
    if rng.random() < 0.6:
        ops += [['adv', rng.choice([9, 10, 11, 600, 601])], _gate(rng, u), _gate(rng, u)]
    if rng.random() < 0.3:
        ops += [['fire', u], ['untrack', u, 7, '+'], ['track', u, _flag(rng), '.'], _good(u), _good(u), _good(u)]
    return ops


def _tmpl_close_window(rng):
    """the application's CLOSED listener asks for a user in the step in which the tracking manager's listener returned —
    after a history with failed writes / failed attempts / retries called off (whatever the code keeps count of across
    requests must be back where it was), with the user's worker idle, waiting for an answer, or waiting for its retry"""
    u = rng.randrange(2)
    v = 1 - u if rng.random() < 0.6 else u
    f = _flag(rng)
    ops = []
    # an earlier request that went wrong
    y = rng.random()
    if y < 0.8:
        ops += [['track', v, _flag(rng), '.']]
        how = rng.random()
        if how < 0.6:
            ops += [['gate', v, 'fail', 'exists', '.']]
        else:
            ops += _fail(rng, v)
        z = rng.random()
        if z < 0.4:                                # the application changes its mind: the retry is called off
            ops += [['untrack', v, 7, '.'], ['gate', v, rng.choice(['ok', 'ok', 'fail']), 'exists', '.']]
        elif z < 0.7:                              # the retry comes and succeeds
            ops += [['adv', rng.choice([10, 600, 601])], _good(v), _good(v)]
            if rng.random() < 0.5:
                ops += [['untrack', v, 7, '.'], ['gate', v, rng.choice(['ok', 'fail']), 'exists', '.']]
        # else: the retry is still pending when the connection goes
    # the user the listener will ask about
    ops += [['track', u, f, '.']]
    z = rng.random()
    if z < 0.6:
        ops += [_good(u), _good(u)]                # tracked, worker idle
    elif z < 0.75:
        ops += [_good(u)]                          # worker waits for the answer
    elif z < 0.9:
        ops += [_good(u), ['gate', u, 'ok', rng.choice(['notexists', 'error', 'silence']), '.']]     # waits for its retry
    # else: its write is in flight
    believed = [0, 0]
    believed[u] = f
    if rng.random() < 0.3:
        # the connection loss is noticed by a write of the tracking code itself: CLOSED is reported inside that write
        w = u if z >= 0.9 else 1 - u
        if w != u:
            ops.append(['track', w, _flag(rng), '.'])
        ops.append(['gate', w, 'failclose', 'exists', '.', _close_calls(rng, 2, believed, u)])
    else:
        ops.append(['close', None if rng.random() < 0.5 else rng.choice(REASONS), _close_calls(rng, 2, believed, u)])
    for _ in range(rng.randint(0, 4)):
        ops.append(_good(u) if rng.random() < 0.7 else _gate(rng, -1))
    if rng.random() < 0.4:                         # and once more: a second connection loss
        ops += [['track', u, _flag(rng), '.'], _good(u), _good(u),
                ['close', None, _close_calls(rng, 2, [7, 7], u)], _good(u), _good(u)]
    return ops


TEMPLATES = [_tmpl_exit_window, _tmpl_noop_exit, _tmpl_close_in_cancel, _tmpl_retry, _tmpl_retry_window,
             _tmpl_retry_window, _tmpl_close_window, _tmpl_close_window]


# -- the world: session, friends list, transfers (scripted: every step of an owner is an op of the schedule) --------

class _Book:
    """what the generator believes about the transfers it has created (validity of tfin / tque / trm)"""

    def __init__(self):
        self.x: list = []            # k -> [user, 'U' unfinished | 'F' finished | None removed]
        self.going: dict = {}        # removals in progress: k -> number of holds they still wait at

    def add(self, rng, u, m=None, kinds='qpu'):
        self.x.append([u, 'U'])
        return ['tadd', u, rng.choice(kinds), m if m is not None else _mod(rng)]

    def pick(self, rng, st, u=None):
        ks = [k for k, (uu, s) in enumerate(self.x) if s == st and (u is None or uu == u)]
        return rng.choice(ks) if ks else None

    def fin(self, rng, k, m=None):
        self.x[k][1] = 'F'
        return ['tfin', k, rng.choice(['abort', 'abort', 'fail']), m if m is not None else _mod(rng)]

    def que(self, rng, k, m=None):
        self.x[k][1] = 'U'
        return ['tque', k, m if m is not None else _mod(rng)]

    def rm(self, rng, k, m=None):
        self.x[k][1] = None
        return ['trm', k, m if m is not None else _mod(rng)]

    def rmb(self, rng, k, holds=None, m=None):
        """`remove()` of k as a task that waits where the schedule holds it"""
        if holds is None:
            holds = rng.choice(['r', 'r', 'ar', 'a', ''])
        # the abort only tells the listeners when it changes the state
        waits = sum(1 for h in holds if h == 'r' or self.x[k][1] == 'U')
        self.x[k][1] = None
        if waits:
            self.going[k] = waits
        return ['trmb', k, holds, m if m is not None else rng.choices(['.', '+'], weights=[3, 1])[0]]

    def rmc(self, rng, k=None, m=None):
        """a removal that waits goes on"""
        if k is None:
            k = rng.choice(sorted(self.going))
        self.going[k] -= 1
        if not self.going[k]:
            del self.going[k]
        return ['trmc', k, m if m is not None else rng.choices(['.', '+'], weights=[3, 1])[0]]

    def change(self, rng, u=None, m=None, kinds='qpu'):
        """some change of the transfers (of user u)"""
        y = rng.random()
        k = None
        if y < 0.30:
            k = self.pick(rng, 'U', u)
            if k is not None:
                return self.fin(rng, k, m)
        elif y < 0.45:
            k = self.pick(rng, 'F', u)
            if k is not None:
                return self.que(rng, k, m)
        elif y < 0.65:
            k = self.pick(rng, rng.choice('UF'), u)
            if k is not None:
                return self.rm(rng, k, m)
        return self.add(rng, rng.randrange(2) if u is None else u, m, kinds)


def _world_setup(rng, book: _Book, auto: bool) -> tuple[list, dict]:
    """a session with some standing reasons of all three kinds"""
    extra: dict = {}
    ops: list = []
    if rng.random() < 0.5:
        extra['friends0'] = rng.choice([[0], [1], [0, 1]])
    for _ in range(rng.randint(1, 3)):
        ops.append(book.add(rng, rng.randrange(2), None, 'qp' if auto and rng.random() < 0.7 else 'qpu'))
    if rng.random() < 0.4:
        ops.append(book.fin(rng, book.pick(rng, 'U')))
    order = rng.random()
    login = [['login']] + ([['friend', rng.randrange(2), 1]] if rng.random() < 0.4 else [])
    if order < 0.5:
        ops = login + ops
    else:
        ops = ops + login
    if rng.random() < 0.4:
        ops.append(['track', rng.randrange(2), 1, _mod(rng)])
    return ops, extra


def _tmpl_session_loss(rng):
    """reasons of all kinds standing, the server connection is lost, a new session begins: every reason whose ground
    still exists is asked for again (AddUser), the others are not; what ends later is withdrawn (RemoveUser)"""
    book = _Book()
    ops, extra = _world_setup(rng, book, False)
    ops += [['cycle', _mod(rng)]]
    ops += [_gate(rng, -1) if rng.random() < 0.3 else _good(-1) for _ in range(rng.randint(2, 5))]
    if rng.random() < 0.3:
        ops += [book.change(rng), ['cycle', _mod(rng)], _good(-1)]
    ops.append(_close(rng))
    for _ in range(rng.randint(0, 3)):          # while there is no session
        y = rng.random()
        ops.append(book.change(rng) if y < 0.4 else ['cycle', _mod(rng)] if y < 0.6 else
                   ['friend', rng.randrange(2), rng.randrange(2)] if y < 0.75 else
                   ['adv', rng.choice([1, 10, 11, 30])] if y < 0.9 else _gate(rng, -1))
    tail = [['login'], ['cycle', _mod(rng)]]
    if rng.random() < 0.25:
        tail.reverse()
    ops += tail
    ops += [_good(-1) for _ in range(rng.randint(2, 4))]
    for _ in range(rng.randint(0, 3)):          # later the grounds end
        y = rng.random()
        k = book.pick(rng, 'U')
        if y < 0.5 and k is not None:
            ops += [book.fin(rng, k) if rng.random() < 0.7 else book.rm(rng, k), ['cycle', _mod(rng)], _good(-1)]
        elif y < 0.8:
            ops += [['friend', rng.randrange(2), 0], _good(-1)]
        else:
            ops += [['untrack', rng.randrange(2), 1, _mod(rng)], _good(-1)]
    return ops, extra


def _tmpl_world_cycles(rng):
    """management cycles interleaved with changes of the transfers, the worker busy or not"""
    book = _Book()
    ops: list = []
    extra: dict = {}
    if rng.random() < 0.3:
        ops.append(['track', rng.randrange(2), rng.choice([1, 4, 5]), _mod(rng)])
    if rng.random() < 0.85:
        ops.insert(rng.randrange(len(ops) + 1), ['login'])
    for _cycle in range(rng.randint(2, 5)):
        for _ in range(rng.randint(0, 2)):
            ops.append(book.change(rng))
        ops.append(['cycle', rng.choice(['+', '.', '.', '!'])])
        ops.append(_gate(rng, -1))
        if rng.random() < 0.1:
            ops.append(_close(rng))
    ops += [['cycle', '.'], _gate(rng, -1), _gate(rng, -1)]
    return ops, extra


def _tmpl_remove_last(rng):
    """the last transfer of a user is removed (finished or not, before or after the cycle has seen it)"""
    book = _Book()
    u = rng.randrange(2)
    ops = [book.add(rng, u)]
    if rng.random() < 0.4:
        ops.append(book.add(rng, rng.randrange(2)))
    if rng.random() < 0.85:
        ops.insert(rng.randrange(len(ops) + 1), ['login'])
    if rng.random() < 0.8:
        ops += [['cycle', _mod(rng)], _good(-1), _good(-1)]
    if rng.random() < 0.4:
        ops.append(book.fin(rng, 0))
        if rng.random() < 0.5:
            ops += [['cycle', _mod(rng)], _good(-1)]
    ops.append(book.rm(rng, 0))
    ops += [_good(-1)]
    if rng.random() < 0.6:
        ops += [['cycle', _mod(rng)], _good(-1)]
    if rng.random() < 0.4:
        ops += [book.add(rng, u), ['cycle', _mod(rng)], _good(-1), _good(-1)]
    return ops, {}


def _tmpl_overlapping_removes(rng):
    """several `remove()` calls in progress at once ("clear all"), additions and cycles while a removal waits in the
    middle: whichever ends last has to see that no transfer of the user is left"""
    book = _Book()
    u = rng.randrange(2)
    ops = [book.add(rng, u, '.', 'qp') for _ in range(rng.choice([1, 2, 2, 3]))]
    if rng.random() < 0.3:
        ops.append(book.add(rng, 1 - u, '.', 'qp'))
    if rng.random() < 0.3:
        ops.append(book.fin(rng, book.pick(rng, 'U'), '.'))
    if rng.random() < 0.9:
        ops.insert(rng.randrange(len(ops) + 1), ['login'])
    if rng.random() < 0.85:
        ops += [['cycle', '.'], _good(-1), _good(-1), _good(-1)]
    ks = [k for k, (uu, st) in enumerate(book.x) if st is not None and (uu == u or rng.random() < 0.5)]
    rng.shuffle(ks)
    pending = list(ks)
    steps = 0
    while (pending or book.going) and steps < 14:
        steps += 1
        y = rng.random()
        if pending and (y < 0.45 or not book.going):
            ops.append(book.rmb(rng, pending.pop()))
        elif book.going and y < 0.8:
            ops.append(book.rmc(rng))
        elif y < 0.88:
            ops.append(book.add(rng, u, None, 'qp'))
        elif y < 0.94:
            ops.append(['cycle', _mod(rng)])
        else:
            ops.append(_gate(rng, -1))
    while book.going:
        ops.append(book.rmc(rng, None, '.'))
    ops += [_good(-1), _good(-1)]
    if rng.random() < 0.85:
        ops += [['cycle', '.'], _good(-1), _good(-1)]
    if rng.random() < 0.3:
        ops += [book.add(rng, u, '.', 'qp'), ['cycle', '.'], _good(-1), _good(-1)]
    return ops, {}


def _gen_world_random(rng):
    book = _Book()
    ops: list = []
    extra: dict = {}
    if rng.random() < 0.3:
        extra['friends0'] = rng.choice([[0], [1], [0, 1]])
    session = False
    if rng.random() < 0.7:
        ops.append(['login'])
        session = True
    for _ in range(rng.randint(4, 16)):
        x = rng.random()
        if x < 0.05 and book.going:
            ops.append(book.rmc(rng))
        elif x < 0.09 and any(st is not None for _u, st in book.x):
            ops.append(book.rmb(rng, rng.choice([k for k, (_u, st) in enumerate(book.x) if st is not None])))
        elif x < 0.22:
            ops.append(book.change(rng))
        elif x < 0.40:
            ops.append(['cycle', _mod(rng)])
        elif x < 0.62:
            ops.append(_gate(rng, -1))
        elif x < 0.70:
            ops.append(['friend', rng.randrange(2), rng.randrange(2)])
        elif x < 0.78:
            f = 1 if rng.random() < 0.8 else _flag(rng)
            ops.append([rng.choice(['track', 'track', 'untrack']), rng.randrange(2), f, _mod(rng)])
        elif x < 0.86:
            ops.append(['adv', rng.choice(ADV)])
        elif x < 0.94 or not session:
            ops.append(['login'])
            session = True
        else:
            ops.append(_close(rng))
            session = False
    return ops, extra


WORLD_TEMPLATES = [_tmpl_session_loss, _tmpl_session_loss, _tmpl_world_cycles, _tmpl_remove_last, _gen_world_random,
                   _tmpl_overlapping_removes, _tmpl_overlapping_removes]


# -- free-running: the management tasks of both managers decide themselves when the owners look ---------------------

def _tmpl_auto_loss(rng):
    book = _Book()
    ops, extra = _world_setup(rng, book, True)
    y = rng.random()
    ops += [['quiesce']] if y < 0.6 else [['adv', rng.choice([1, 2, 5])], _gate(rng, -1), _gate(rng, -1)] if y < 0.85 else []
    for _loss in range(rng.choice([1, 1, 2])):
        ops.append(['restart'] if rng.random() < 0.3 else _close(rng))
        for _ in range(rng.randint(0, 3)):
            z = rng.random()
            ops.append(book.change(rng, None, None, 'qp') if z < 0.4 else ['adv', rng.choice([1, 5, 15, 25, 40])] if z < 0.7
                       else ['friend', rng.randrange(2), rng.randrange(2)] if z < 0.85
                       else ['track', rng.randrange(2), 1, '.'])
        ops.append(['login'])
        ops += [['quiesce']] if rng.random() < 0.7 else [['adv', rng.choice([1, 3])], _gate(rng, -1)]
    for _ in range(rng.randint(0, 3)):
        z = rng.random()
        k = book.pick(rng, 'U')
        if z < 0.5 and k is not None:
            ops.append(book.fin(rng, k) if rng.random() < 0.7 else book.rm(rng, k))
        elif z < 0.7:
            ops.append(['friend', rng.randrange(2), 0])
        elif z < 0.85:
            ops.append(['untrack', rng.randrange(2), 1, '.'])
        else:
            ops.append(book.change(rng, None, None, 'qp'))
        if rng.random() < 0.5:
            ops.append(['quiesce'])
    return ops, extra


def _gen_auto_random(rng):
    book = _Book()
    ops: list = []
    extra: dict = {}
    if rng.random() < 0.3:
        extra['friends0'] = rng.choice([[0], [1], [0, 1]])
    session = False
    for _ in range(rng.randint(4, 14)):
        x = rng.random()
        if x < 0.25:
            ops.append(book.change(rng, None, None, 'qp' if rng.random() < 0.7 else 'qpu'))
        elif x < 0.45:
            ops.append(_gate(rng, -1))
        elif x < 0.53:
            ops.append(['friend', rng.randrange(2), rng.randrange(2)])
        elif x < 0.61:
            ops.append([rng.choice(['track', 'track', 'untrack']), rng.randrange(2), 1, _mod(rng)])
        elif x < 0.72:
            ops.append(['adv', rng.choice([1, 2, 5, 10, 11, 20, 30, 600, 601])])
        elif x < 0.82:
            ops.append(['quiesce'])
        elif x < 0.92 or not session:
            ops.append(['login'])
            session = True
        else:
            ops.append(['restart'] if rng.random() < 0.3 else _close(rng))
            session = False
    return ops, extra


def _tmpl_auto_clear_all(rng):
    """free-running, no peer reachable: every queued download has its queue request to the peer in flight, `remove()`
    has to cancel it and waits for that; several removals (and an addition) are made at once"""
    book = _Book()
    u = rng.randrange(2)
    extra: dict = {'peer': 'hang'}
    if rng.random() < 0.3:
        extra['friends0'] = rng.choice([[0], [1], [0, 1]])
    ops = [['login']] if rng.random() < 0.8 else []
    for _ in range(rng.choice([1, 2, 2, 3])):
        ops.append(book.add(rng, u, '.', 'q' if rng.random() < 0.8 else 'qp'))
    if rng.random() < 0.4:
        ops.append(book.add(rng, 1 - u, '.', 'qp'))
    if not ops or ops[0] != ['login']:
        ops.append(['login'])
    ops.append(['quiesce'])
    if rng.random() < 0.2:
        ops += [_close(rng), ['adv', rng.choice([1, 5])], ['login'], ['quiesce']]
    ks = [k for k, (uu, st) in enumerate(book.x) if st is not None and (uu == u or rng.random() < 0.3)]
    rng.shuffle(ks)
    while ks:
        n = rng.choice([1, 2, 2, 3])
        now, ks = ks[:n], ks[n:]
        for k in now:
            book.x[k][1] = None
        add = None
        if rng.random() < 0.35:
            add = u if rng.random() < 0.8 else 1 - u
            book.x.append([add, 'U'])
        ops.append(['trmg', now, add])
        if rng.random() < 0.5:
            ops.append(['quiesce'] if rng.random() < 0.7 else ['adv', rng.choice([1, 2, 5])])
    ops.append(['quiesce'])
    if rng.random() < 0.3:
        ops += [book.add(rng, u, '.', 'q'), ['quiesce']]
    return ops, extra


AUTO_TEMPLATES = [_tmpl_auto_loss, _tmpl_auto_loss, _gen_auto_random, _tmpl_auto_clear_all]


def _gen_case(rng: random.Random) -> dict:
    x = rng.random()
    if x < 0.48:
        return {'ops': _gen_random(rng), 'kind': 'random'}
    if x < 0.70:
        t = rng.choice(TEMPLATES)
        ops = t(rng)
        if rng.random() < 0.4:       # random prefix: the scenario starts from a non-trivial history
            pre = _gen_random(rng)[:rng.randint(1, 6)]
            ops = pre + ops
        ncall = 0
        cut = len(ops)
        for i, op in enumerate(ops):
            if op[0] in ('track', 'untrack'):
                ncall += 1
                if ncall > 8:
                    cut = i
                    break
        return {'ops': ops[:cut], 'kind': t.__name__[6:]}
    if x < 0.92:
        t = rng.choice(WORLD_TEMPLATES)
        ops, extra = t(rng)
        return dict({'ops': ops, 'kind': 'world-' + t.__name__.split('_', 2)[2]}, **extra)
    t = rng.choice(AUTO_TEMPLATES)
    ops, extra = t(rng)
    return dict({'ops': ops, 'kind': 'auto-' + t.__name__.split('_', 2)[2], 'auto': True,
                 'offline': rng.choice(['drop', 'drop', 'raise'])}, **extra)


def _malformed(rng: random.Random) -> dict:
    """ops the schedule cannot perform (nothing parked, no such transfer): the harness and the model both refuse them"""
    ops = [['gate', rng.randrange(2), 'ok', 'exists', '.'], ['track', 0, 1, '.'], ['gate', 1, 'fail', 'error', '!'],
           ['gate', 0, 'ok', 'exists', '.'], ['gate', 0, 'ok', 'exists', '.'], ['gate', 0, 'fail', 'exists', '.'],
           ['untrack', 1, 7, '.'], ['close'], ['close'], ['gate', 0, 'ok', 'exists', '.'],
           ['tfin', 0, 'abort', '.'], ['tadd', 1, 'p', '.'], ['tque', 0, '.'], ['trm', 3, '+'], ['tfin', 0, 'abort', '.'],
           ['tfin', 0, 'fail', '!'], ['trm', 0, '.'], ['trm', 0, '.'], ['fire', 0], ['fire', 1], ['trmc', 0, '.'],
           ['trmb', 5, 'r', '.'], ['trmc', 1, '+']]
    rng.shuffle(ops)
    return {'ops': ops, 'kind': 'malformed'}


# the call made between "worker returned" and "done-callback ran" (lost on the pinned code)
WITNESS_LOST = {'ops': [['track', 0, 1, '.'], ['gate', 0, 'ok', 'exists', '.'], ['gate', 0, 'ok', 'exists', '.'],
                        ['untrack', 0, 1, '.'], ['gate', 0, 'ok', 'exists', '!'], ['track', 0, 4, '.']],
                'kind': 'witness-lost-call'}
# server closes while the worker awaits the cancelled retry task (cancellation swallowed on the pinned code)
WITNESS_SWALLOW = {'ops': [['track', 0, 1, '.'], ['gate', 0, 'ok', 'exists', '.'], ['gate', 0, 'ok', 'notexists', '.'],
                           ['untrack', 0, 1, '+'], ['track', 0, 4, '!'], ['close']],
                   'kind': 'witness-swallowed-cancel'}
# the last transfer of a user is removed: nobody withdrew the TRANSFER reason before fix 7282693
WITNESS_REMOVE = {'ops': [['login'], ['tadd', 0, 'q', '.'], ['cycle', '.'], ['gate', 0, 'ok', 'exists', '.'],
                          ['gate', 0, 'ok', 'exists', '.'], ['trm', 0, '.'], ['gate', 0, 'ok', 'exists', '.'], ['cycle', '.']],
                  'kind': 'witness-remove-last-transfer'}
# session loss with an unfinished download and a friend: both are asked for again, scripted and free-running
WITNESS_LOSS = {'ops': [['tadd', 0, 'q', '.'], ['login'], ['cycle', '.'], ['gate', 0, 'ok', 'exists', '.'],
                        ['gate', 0, 'ok', 'exists', '.'], ['gate', 1, 'ok', 'exists', '.'], ['gate', 1, 'ok', 'exists', '.'],
                        ['close'], ['login'], ['cycle', '.'], ['gate', 0, 'ok', 'exists', '.'],
                        ['gate', 0, 'ok', 'exists', '.'], ['gate', 1, 'ok', 'exists', '.'], ['gate', 1, 'ok', 'exists', '.'],
                        ['tfin', 0, 'abort', '.'], ['cycle', '.'], ['gate', 0, 'ok', 'exists', '.']],
                'friends0': [1], 'kind': 'witness-session-loss'}
WITNESS_LOSS_AUTO = {'ops': [['login'], ['tadd', 0, 'q', '.'], ['tadd', 0, 'p', '.'], ['quiesce'], ['close'],
                             ['adv', 5], ['login'], ['quiesce'], ['tfin', 0, 'abort', '.'], ['tfin', 1, 'abort', '.'],
                             ['quiesce'], ['restart'], ['login'], ['quiesce']],
                     'friends0': [1], 'auto': True, 'offline': 'drop', 'kind': 'witness-session-loss-auto'}


# the retry timer fires, untrack + track land before its task has put the request (duplicate AddUser to a tracked user
# before fixes/C15-stale-retry-after-retrack.patch)
WITNESS_STALE_RETRY = {'ops': [['track', 0, 1, '.'], ['gate', 0, 'fail', 'exists', '.'], ['fire', 0], ['untrack', 0, 1, '+'],
                               ['track', 0, 1, '+'], ['adv', 0], ['gate', 0, 'ok', 'exists', '.'], ['gate', 0, 'ok', 'exists', '.'],
                               ['gate', 0, 'ok', 'exists', '.'], ['adv', 30]],
                       'kind': 'witness-stale-retry'}
# "clear all": the removals of a user's last two transfers overlap; a transfer added while the only one is being removed
WITNESS_CLEAR_ALL = {'ops': [['login'], ['tadd', 0, 'q', '.'], ['tadd', 0, 'q', '.'], ['cycle', '.'],
                             ['gate', 0, 'ok', 'exists', '.'], ['gate', 0, 'ok', 'exists', '.'], ['trmb', 0, 'r', '.'],
                             ['trmb', 1, 'ar', '.'], ['trmc', 0, '.'], ['trmc', 1, '.'], ['trmc', 1, '.'],
                             ['gate', 0, 'ok', 'exists', '.'], ['cycle', '.'], ['tadd', 0, 'q', '.'], ['cycle', '.'],
                             ['gate', 0, 'ok', 'exists', '.'], ['gate', 0, 'ok', 'exists', '.'], ['trmb', 2, 'r', '.'],
                             ['tadd', 0, 'p', '.'], ['trmc', 2, '+'], ['cycle', '.']],
                     'kind': 'witness-clear-all'}
WITNESS_CLEAR_ALL_AUTO = {'ops': [['login'], ['tadd', 0, 'q', '.'], ['tadd', 0, 'q', '.'], ['quiesce'], ['trmg', [0, 1], None],
                                  ['quiesce'], ['tadd', 0, 'q', '.'], ['quiesce'], ['trmg', [2], 0], ['quiesce']],
                          'auto': True, 'offline': 'drop', 'peer': 'hang', 'kind': 'witness-clear-all-auto'}


# KNOWN FINDING (16670c8): u0 is tracked; the AddUser write for u1 fails and closes the server connection from inside the
# write; the application's CLOSED listener asks for u0 again inside that notification — the tracking manager has not waited
# for its cancelled workers (it would wait for itself), u0's entry is still there, the request lands on the queue of a
# worker that is already cancelled and is lost. `defer: false` makes the harness issue the calls there (generated cases
# issue them after the loop has settled in this situation)
WITNESS_LOST_IN_CLOSED = {'ops': [['track', 0, 4, '.'], ['gate', 0, 'ok', 'exists', '.'], ['gate', 0, 'ok', 'exists', '.'],
                                  ['track', 1, 1, '.'], ['gate', 1, 'failclose', 'exists', '.', [['track', 0, 1]]],
                                  ['gate', 0, 'ok', 'exists', '.'], ['gate', 0, 'ok', 'exists', '.']],
                          'defer': False, 'kind': 'witness-call-lost-in-closed-raised-by-tracking-write'}


def _is_nontrivial(case: dict, res: dict) -> bool:
    """at least one AddUser attempt, and at least one call issued while that user's worker was busy (parked
    in a network call) or had not run since the previous op (modifiers + / !) — or (world cases) an AddUser attempt
    made after a session was lost, or a `remove()` that waited in the middle while something else happened"""
    if not any(k in 'Aa' for ep in res['epochs'] for at in ep['attempts'].values() for _, k in at):
        return False
    if any(ln.startswith('trmp ') and ln.split()[2] not in ('123', '-') for ln in res['lines']):
        return True
    if res.get('auto') and any(op[0] == 'trmg' and len(op[1]) + (op[2] is not None) > 1 for op in case['ops']):
        return True
    if res.get('world') and any(cp['lost_sessions'] and cp['nattempts'][n] for cp in res['checkpoints']
                                if not cp['after_close'] for n in NAMES):
        return True
    prev_mod = '.'
    lines = res['lines']
    cps = {cp['op']: cp for cp in res['checkpoints']}
    for i, ln in enumerate(lines):
        p = ln.split()
        if p[0] in ('track', 'untrack', 'cycle'):
            if prev_mod in '+!':
                return True
            before = cps.get(i - 1)
            if before and any(before['users'][n]['gates'] for n in
                              ([NAMES[int(p[1])]] if p[0] != 'cycle' else NAMES)):
                return True
        prev_mod = p[-1] if p[-1] in ('.', '+', '!') else '.'
    return False


class C15(Property):
    id = 'C15'
    props_module = 'AioslskVerif.Props.C15'
    driver_module = 'AioslskVerif.Driver.C15'
    rule = ('schedules derived from VERIF_SEED. (1) 70 %: <= 8 track/untrack calls with any non-empty flag set for 1..2 '
            'users, each issued settled / one loop iteration after / back-to-back with the previous op, interleaved with '
            'releases of the worker\'s pending network call (send ok|failure|failure that closes the connection from inside '
            'the write, exists|not-exists|error|silence), '
            'virtual-time advances around the 10 s / 600 s delays, server closes and `fire` (virtual time moves to the '
            'instant a retry is due and the timer fires, the following back-to-back calls land in the one loop iteration '
            'before the retry task puts its request); a third of them from scenario templates (exit window, no-op exit, '
            'close during retry cancellation, retries, calls inside the retry window, calls made by the application\'s own '
            'CLOSED listener right after the tracking manager\'s returned — after histories with failed writes) with random '
            'prefixes. '
            '(2) 22 % scripted world: the same plus the owners of the reasons as ops of the schedule — logins, friends-list '
            'changes, transfers of the REAL TransferManager added / aborted / failed / queued again / removed through its '
            'public methods, its manage_user_tracking() cycles, server closes with session loss and new sessions; '
            'remove() also as a task of its own that waits in a listener the schedule holds (state listener told about '
            'the abort / TransferRemovedEvent listener) while other removals, additions and cycles go on '
            '(templates: session loss, cycles between transfer changes, removal of the last transfer, overlapping '
            'removals, random). '
            '(3) 8 % free-running (monitor only): the management tasks of both real managers decide when the owners look, '
            'sends without a server connection are dropped / refused, connection losses and stop()/start() in the middle, '
            'several remove() / download() calls made at once while no peer is reachable (every queued download has a queue '
            'request in flight that remove() must cancel and wait for), '
            'judged at quiescent points against the observable reasons (friends list, unfinished transfers, standing '
            'explicit requests). Non-trivial: an AddUser attempt was made and a call (or cycle) was issued while that '
            'user\'s worker was busy or had not run since the previous op, or an AddUser attempt was made after a session '
            'loss, or a remove() waited in the middle / several calls were made at once; distinct = distinct op list')
    assumptions = [
        'calls carry a non-empty TrackingFlag (the generator never issues TrackingFlag(0); since 040857a the retry request '
        'is known by its identity, such a call is a no-op and the Lean theorems cover it)',
        'the close is one step of harness and model; calls made INSIDE the CLOSED notification are those of a listener '
        'registered after the managers\' (`close` with calls: made in the step in which the tracking manager\'s listener '
        'returned). When CLOSED is reported while a write of a tracking task is in flight — in particular from inside a failing '
        'write (`failclose`) — the tracking manager does not wait for its cancelled workers (it would wait for itself) and '
        'such calls are made only after the loop has settled: a call made inside THAT notification for a user whose worker '
        'was alive is lost on 16670c8: known finding `C15-call-lost-in-closed-raised-by-tracking-write`, whose witness '
        '(`defer: false`) is replayed every run',
        'Network is replaced by a stub with the two coroutines the tracking code awaits (and, for the transfer manager, a '
        'peer side on which downloads are queued remotely at once — or, free-running with `peer: hang`, never — and nothing '
        'else is answered); listeners of the tracking events do not suspend (the suspension points of the worker are '
        'queue.get, the two network calls and the retry sleep); remove() waits where the schedule holds it: in the state '
        'listener told about the abort and in the TransferRemovedEvent listener (scripted), in the cancellation of the '
        'queue request of the transfer (free-running)',
        'a retry task starts its sleep in the loop iteration after the failed attempt: when the schedule moves the clock '
        'in between, the timer is due one tick later than the model says; `fire` reports that lag (0 or 1 tick) to the model '
        'and only aims at a timer that has no other timer within two ticks',
        'every op moves the clock by 1/1024 s, so two timers of one user never fall due at the same instant',
        'a change of the friends list is noticed (user management job, 1 s polling) before the next op: its latency is '
        'not explored; in the world theorems the application itself only names REQUESTED (WOp.appOk) and the own user '
        'name is not one of the tracked users',
        'SessionDestroyedEvent follows the CLOSED event as in SoulSeekClient (the client object itself is C16\'s subject)',
    ]
    modelled = ('user/manager.py UserTrackingManager: track_user/untrack_user, _tracking_task, _request_tracking, '
                '_request_untracking, _set_tracking_state, _request_retry, _get_tracked_user_object, '
                '_on_tracking_task_done, _on_state_changed/stop (atomic), get_tracking_state/flags; the owners of the reasons '
                '(World): UserManager._on_session_initialized / _on_friend_list_changed, '
                'TransferManager.manage_user_tracking and remove() in three steps (abort / off the list / last of that user? '
                'then withdraw) with anything in between, session loss. Exercised only: '
                'UserManager wrappers and management job, EventBus, enums, TransferManager.__init__/add/download/abort/queue/'
                'remove/start/stop, its management task and request_management_cycle wiring (free-running cases, monitor only)')

    def regenerate(self):
        return [track_constants.generate(common.REPO, common.LEAN)]

    def _cases(self, seed, tier, widen):
        rng = random.Random(f'C15-{seed}')
        n = (6000 if tier == 'quick' else 200000) * widen
        cases = [WITNESS_LOST, WITNESS_SWALLOW, WITNESS_REMOVE, WITNESS_LOSS, WITNESS_LOSS_AUTO, WITNESS_STALE_RETRY,
                 WITNESS_CLEAR_ALL, WITNESS_CLEAR_ALL_AUTO]
        cdir = common.CORPUS / 'C15'
        if cdir.is_dir():
            for p in sorted(cdir.glob('*.json')):
                try:
                    c = json.loads(p.read_text())
                    cases.append(c.get('case', c))
                except ValueError:
                    pass
        cases += [_malformed(rng) for _ in range(3)]
        cases += [_gen_case(rng) for _ in range(n)]
        return cases

    def correspondence(self, seed, tier, model_ok, widen=1):
        res = KResult()
        cases = self._cases(seed, tier, widen)
        impl = common.parallel_map(_eval_case, cases)
        _infra_exit(impl)
        model = None
        if model_ok:
            lines, spans = [], []
            for r in impl:
                ls = _model_lines(r)
                spans.append((len(lines) + 1, len(ls) - 1))       # skip the `ok` of reset
                lines += ls
            out = common.run_driver(self.driver_file, lines)
            model = [out[a:a + k] for a, k in spans]
        else:
            res.model_available = False
        for i, c in enumerate(cases):
            r = impl[i]
            res.evaluations += 1
            res.count('kind:' + c.get('kind', '?'))
            res.count('ops', len(r['lines']))
            for ln in r['lines']:
                p = ln.split()
                res.count('op:' + p[0] + (':' + p[2] if p[0] in ('send', 'resp') else ''))
                if p[-1] in ('+', '!'):
                    res.count('mod:' + p[-1])
            res.count('refused', sum(1 for o in r['obs'] if o.startswith('refused')))
            nfire = sum(1 for ln, o in zip(r['lines'], r['obs']) if ln.startswith('fire') and not o.startswith('refused'))
            if nfire:
                res.count('retry-windows', nfire)
                res.count('retry-window:calls-inside', sum(
                    1 for j, ln in enumerate(r['lines']) if ln.split()[0] in ('track', 'untrack') and j > 0
                    and (r['lines'][j - 1].startswith('fire') or (r['lines'][j - 1].split()[0] in ('track', 'untrack')
                                                                   and r['lines'][j - 1].endswith('+')
                                                                   and any(x.startswith('fire') for x in r['lines'][max(0, j - 5):j])))))
            ncw = sum(1 for j, ln in enumerate(r['lines']) if ln == 'close' and j + 1 < len(r['lines'])
                      and r['lines'][j + 1].split()[0] in ('track', 'untrack') and r['lines'][j + 1].endswith('+'))
            if ncw:
                res.count('close-notifications-with-calls-inside', ncw)
            nfc = sum(1 for op in c['ops'] if op[0] == 'gate' and op[2] == 'failclose')
            if nfc:
                res.count('gate:failclose-requested', nfc)
            nrm = sum(1 for ln in r['lines'] if ln.startswith('trmp ') and ln.split()[2] not in ('123', '-'))
            if nrm:
                res.count('removal-steps-apart', nrm)
            if r.get('auto'):
                res.count('auto:calls-at-once', sum(1 for op in c['ops'] if op[0] == 'trmg'))
            if r.get('auto'):
                res.count('auto:quiescent-comparisons', sum(1 for cp in r['checkpoints'] if cp['quiesced']))
                res.count('auto:in-session-after-loss', sum(1 for cp in r['checkpoints']
                                                            if cp['quiesced'] and cp['session'] and cp['lost_sessions']))
            if _is_nontrivial(c, r):
                res.nontrivial_keys.add(common.sha([c['ops'], c.get('friends0'), c.get('auto'), c.get('offline'),
                                                    c.get('peer')]))
            if model is not None and r['lines']:
                res.traces_validated += 1
                if model[i] != r['obs']:
                    k = next((j for j, (a, b) in enumerate(zip(model[i], r['obs'])) if a != b),
                             min(len(model[i]), len(r['obs'])))
                    res.disagreements.append(Disagreement(
                        c, r['obs'][k] if k < len(r['obs']) else None,
                        model[i][k] if k < len(model[i]) else None,
                        f'op #{k} {r["lines"][k] if k < len(r["lines"]) else ""}'))
            res.violations += _monitor(c, r)
            if len(res.samples) < 3 and 4 <= len(r['lines']) <= 9 and c.get('kind') not in ('malformed',):
                res.samples.append({'case': c, 'executed': r['lines'], 'impl': r['obs']})
            elif 3 <= len(res.samples) < 5 and c.get('kind', '').startswith(('world-session', 'auto-auto_loss')) \
                    and len(c['ops']) <= 14 and not any(s['case'].get('kind') == c.get('kind') for s in res.samples):
                res.samples.append({'case': c, 'executed': r['lines'], 'impl': r['obs'][:20]})
        return res

    def replay(self, case):
        r = _eval_case(case)
        _infra_exit([r])
        return _monitor(case, r)

    def known_witnesses(self):
        # (replayed only while known_findings.json lists the signature)
        return [(KNOWN_LOST_IN_CLOSED, WITNESS_LOST_IN_CLOSED)]


PROPERTY = C15()
