"""C15 — user tracking mirrors the set of reasons: correspondence K_C15 + monitor (DESIGN.md, C15).

The REAL `UserManager` + `UserTrackingManager` run on a virtual-time loop (`vlib.simloop`) against a stub
`Network` whose two coroutines used by the tracking code (`send_server_messages`, `wait_for_server_message`)
park on gates the schedule releases: every AddUser/RemoveUser attempt is observed from the real code path,
and the schedule decides per attempt: send ok / send failure / exists / not-exists / error / silence.

Case = list of ops
    ['track'|'untrack', u, flags, m]      m: '.' let the loop settle afterwards
                                             '!' yield to the loop exactly once (the next op lands one loop
                                                 iteration later: e.g. between "worker returned" and "its
                                                 done-callback ran")
                                             '+' do not yield at all (next op is issued back-to-back)
    ['gate', u, send_outcome, resp_outcome, m]   release whatever network call u's worker is parked in
                                             (resp_outcome 'silence' = let 10 s pass instead)
    ['adv', seconds]                      virtual time passes
    ['tm', unfinished, finished, m]       one cycle of the REAL `TransferManager.manage_user_tracking`
                                          (transfer/manager.py:497-515) over transfers of the listed users; its
                                          track/untrack(TRANSFER) calls go through the harness back-to-back
    ['close']                             ConnectionStateChangedEvent(ServerConnection, CLOSED)
Every op first moves the virtual clock by one tick (1/1024 s): two timers of one user never fall due at the
same instant, so the order in which asyncio fires them is not left to heap tie-breaking.
After the scripted ops every parked call is released (send ok / exists) until the system is quiescent.
"""
from __future__ import annotations

import asyncio
import json
import random

from vlib import common, simloop
from vlib.common import KResult, Violation, Disagreement, Property
from translate import track_constants

TICK = 1.0 / 1024
NAMES = ['u0', 'u1']
# the property's documented delays (DESIGN.md C15 reading) — deliberately NOT read from the code
DELAY = {'sendfail': 10, 'timeout': 10, 'error': 10, 'notexists': 600}
STATE_CH = {'untracked': 'U', 'tracked': 'T', 'retry_pending': 'P'}


# ------------------------------------------------------------------------------------------------
# running the real code
# ------------------------------------------------------------------------------------------------

class _Run:
    def __init__(self, loop):
        from aioslsk.events import EventBus, UserTrackingStateChangedEvent
        from aioslsk.settings import Settings
        from aioslsk.user.manager import UserManager
        self.loop = loop
        self.bus = EventBus()
        self.net = _StubNet(self)
        self.um = UserManager(Settings(credentials={'username': 'me', 'password': 'pw'}), self.bus, self.net)
        self.gates: dict[str, list] = {}
        self._listener = self._on_state_event          # EventBus holds listeners weakly
        self.bus.register(UserTrackingStateChangedEvent, self._listener)
        self.epochs: list[dict] = []                   # finished epochs (monitor log)
        self.ep = self._new_epoch()
        self.lines: list[str] = []                     # concrete executed ops (model protocol)
        self.obs: list[str] = []
        self.checkpoints: list[dict] = []
        self.problems: list[tuple[str, str]] = []      # (signature, what) found while running

    def _new_epoch(self):
        return {'calls': {}, 'attempts': {}, 'outcomes': {}, 'events': {}, 'log': {}}

    def now(self) -> int:
        return round(self.loop.time() / TICK)

    # -- log ---------------------------------------------------------------------------------
    def _on_state_event(self, event):
        self.ep['events'].setdefault(event.user.name, []).append(STATE_CH.get(event.state.value, '?'))

    def attempt(self, user: str, kind: str):
        self.ep['attempts'].setdefault(user, []).append((self.now(), kind))
        self.ep['log'].setdefault(user, []).append((self.now(), kind))

    def outcome(self, user: str, kind: str):
        self.ep['outcomes'].setdefault(user, []).append((self.now(), kind))
        self.ep['log'].setdefault(user, []).append((self.now(), kind))

    async def park(self, user: str, kind: str):
        fut = self.loop.create_future()
        g = (kind, fut)
        self.gates.setdefault(user, []).append(g)
        try:
            return await fut
        finally:
            self.gates[user].remove(g)

    # -- observation -----------------------------------------------------------------------------
    def observe_user(self, name: str) -> str:
        f = self.um.get_tracking_flags(name).value
        s = STATE_CH.get(self.um.get_tracking_state(name).value, '?')
        g = ''.join(k for k, _ in self.gates.get(name, [])) or '-'
        a = ''.join(k for _, k in self.ep['attempts'].get(name, [])) or '-'
        e = ''.join(self.ep['events'].get(name, [])) or '-'
        return f'f={f} s={s} g={g} a={a} e={e}'

    def observe(self) -> str:
        return ' | '.join(self.observe_user(n) for n in NAMES)

    def checkpoint(self, settled: bool, after_close: bool = False):
        self.checkpoints.append({
            'op': len(self.lines) - 1, 'epoch': len(self.epochs), 'now': self.now(), 'settled': settled,
            'after_close': after_close,
            'users': {n: {'flags': self.um.get_tracking_flags(n).value,
                          'state': STATE_CH.get(self.um.get_tracking_state(n).value, '?'),
                          'gates': ''.join(k for k, _ in self.gates.get(n, []))} for n in NAMES},
            'ncalls': {n: len(self.ep['calls'].get(n, [])) for n in NAMES},
            'nattempts': {n: len(self.ep['attempts'].get(n, [])) for n in NAMES},
            'noutcomes': {n: len(self.ep['outcomes'].get(n, [])) for n in NAMES},
            'stray': sorted(k for k in set(self.gates) | set(self.ep['attempts']) if k not in NAMES
                            and (self.gates.get(k) or self.ep['attempts'].get(k))),
        })

    # -- ops -------------------------------------------------------------------------------------
    async def after(self, m: str):
        if m == '.':
            await simloop.settle()
        elif m == '!':
            await asyncio.sleep(0)

    async def do(self, op: list):
        from aioslsk.user.model import TrackingFlag
        self.loop._vt += TICK
        kind = op[0]
        pre = ''
        if kind in ('track', 'untrack'):
            _, u, f, m = op
            name = NAMES[u]
            self.lines.append(f'{kind} {u} {f} {m}')
            self.ep['calls'].setdefault(name, []).append((self.now(), kind == 'track', f))
            if kind == 'track':
                await self.um.track_user(name, TrackingFlag(f))
            else:
                await self.um.untrack_user(name, TrackingFlag(f))
            await self.after(m)
        elif kind == 'gate':
            _, u, so, ro, m = op
            if u < 0:       # "whoever is parked": lowest / highest index first, alternating with the op count
                order = NAMES if len(self.lines) % 2 == 0 else NAMES[::-1]
                u = next((NAMES.index(n) for n in order if self.gates.get(n)), 0)
            name = NAMES[u]
            gs = self.gates.get(name, [])
            if gs and gs[0][0] == 'W' and ro == 'silence':
                self.lines.append('adv 10')
                await simloop.advance(10)
                m = '.'
            elif gs and gs[0][0] == 'W':
                self.lines.append(f'resp {u} {ro} {m}')
                self.outcome(name, ro)
                gs[0][1].set_result(ro)
                await self.after(m)
            else:
                self.lines.append(f'send {u} {so} {m}')
                if gs:
                    if gs[0][0] == 'A' and so == 'fail':
                        self.outcome(name, 'sendfail')
                    gs[0][1].set_result(so == 'ok')
                else:
                    pre = 'refused '
                await self.after(m)
        elif kind == 'adv':
            self.lines.append(f'adv {op[1]}')
            await simloop.advance(op[1])
            m = '.'
        elif kind == 'tm':
            await self.transfer_cycle(op[1], op[2])
            if op[3] == '.':
                await self.do(['adv', 0])
            return
        elif kind == 'close':
            from aioslsk.events import ConnectionStateChangedEvent
            from aioslsk.network.connection import ConnectionState, ServerConnection
            self.lines.append('close')
            conn = ServerConnection('1.1.1.1', 2242, self.net)
            t = asyncio.ensure_future(self.bus.emit(ConnectionStateChangedEvent(conn, ConnectionState.CLOSED)))
            await simloop.settle()
            if not t.done():
                self.problems.append(('C15-close-hangs',
                                      'handling of the server CLOSED event never completes (a tracking task '
                                      'survived its cancellation)'))
                t.cancel()
                await simloop.settle()
            # the epoch ends here: what is observed afterwards belongs to a fresh history
            self.checkpoint(True, after_close=True)
            self.epochs.append(self.ep)
            self.ep = self._new_epoch()
            self.obs.append(pre + self.observe())
            return
        else:
            raise ValueError(f'unknown op {op!r}')
        self.obs.append(pre + self.observe())
        self.checkpoint(m == '.')

    async def transfer_cycle(self, unfinished: list, finished: list):
        """Run the real TransferManager.manage_user_tracking on a stand-in object holding real Transfer
        objects; the calls it makes reach the real UserManager through `do` (one tick each, no yield)."""
        from aioslsk.transfer.manager import TransferManager
        from aioslsk.transfer.model import Transfer, TransferDirection
        from aioslsk.transfer.state import CompleteState
        from aioslsk.user.model import TrackingFlag
        run = self
        made: list = []

        class _UM:
            async def track_user(self, username, flag=TrackingFlag.REQUESTED):
                made.append(('track', username, flag.value))
                if username in NAMES:
                    await run.do(['track', NAMES.index(username), flag.value, '+'])

            async def untrack_user(self, username, flag=TrackingFlag.REQUESTED):
                made.append(('untrack', username, flag.value))
                if username in NAMES:
                    await run.do(['untrack', NAMES.index(username), flag.value, '+'])

        class _TM:
            get_unfinished_transfers = TransferManager.get_unfinished_transfers
            get_finished_transfers = TransferManager.get_finished_transfers
            manage_user_tracking = TransferManager.manage_user_tracking

        tm = _TM()
        tm._user_manager = _UM()
        tm._transfers = []
        for i, u in enumerate(unfinished):
            tm._transfers.append(Transfer(NAMES[u], f'a\\{i}.mp3', TransferDirection.DOWNLOAD))
        for i, u in enumerate(finished):
            t = Transfer(NAMES[u], f'b\\{i}.mp3', TransferDirection.UPLOAD)
            t.state = CompleteState(t)
            tm._transfers.append(t)
        await tm.manage_user_tracking()
        tflag = TrackingFlag.TRANSFER.value
        want = sorted([('track', NAMES[u], tflag) for u in set(unfinished)]
                      + [('untrack', NAMES[u], tflag) for u in set(finished) - set(unfinished)])
        if sorted(made) != want:
            self.problems.append(('C15-transfer-reason-wrong',
                                  f'transfer manager cycle with unfinished={unfinished} finished={finished} made the '
                                  f'calls {sorted(made)}, expected {want}'))

    async def drain(self):
        await self.do(['adv', 0])          # let whatever the last op left runnable run first
        for _ in range(40):
            await simloop.settle()
            parked = [(n, gs[0][0]) for n in NAMES for gs in [self.gates.get(n, [])] if gs]
            if not parked:
                return
            for n, k in parked:
                await self.do(['gate', NAMES.index(n), 'ok', 'exists', '.'])
        self.problems.append(('C15-does-not-settle', 'tracking keeps issuing network calls although every '
                              'attempt is answered "exists"'))


class _StubNet:
    """Stands in for `Network`: only what the user managers call."""

    def __init__(self, run: _Run):
        self.run = run

    async def send_server_messages(self, *messages, raise_on_error: bool = True):
        from aioslsk.protocol.messages import AddUser, RemoveUser
        from aioslsk.exceptions import ConnectionWriteError
        for msg in messages:
            if isinstance(msg, AddUser.Request):
                kind = 'A'
            elif isinstance(msg, RemoveUser.Request):
                kind = 'R'
            else:
                continue
            self.run.attempt(msg.username, kind)
            ok = await self.run.park(msg.username, kind)
            if not ok:
                raise ConnectionWriteError('scripted send failure')

    async def wait_for_server_message(self, message_class, fields=None, timeout: float = 10):
        from aioslsk.protocol.messages import AddUser
        from aioslsk.exceptions import ConnectionReadError
        user = (fields or {}).get('username', '?')
        t0 = self.run.now()
        try:
            async with asyncio.timeout(timeout):
                ans = await self.run.park(user, 'W')
        except TimeoutError:
            self.run.outcome(user, 'timeout')
            if self.run.now() - t0 != DELAY['timeout'] * 1024:
                self.run.problems.append((
                    'C15-response-timeout-wrong',
                    f'user {user}: the wait for the AddUser answer gave up after {(self.run.now() - t0) / 1024} s, '
                    f'documented: {DELAY["timeout"]} s'))
            raise
        if ans == 'exists':
            return AddUser.Response(user, exists=True, status=2, country_code='XX')
        if ans == 'notexists':
            return AddUser.Response(user, exists=False)
        raise ConnectionReadError('scripted error while waiting for the response')


async def _run_case_async(loop, case: dict) -> dict:
    r = _Run(loop)
    for op in case['ops']:
        await r.do(op)
    await r.drain()
    r.epochs.append(r.ep)
    return {'lines': r.lines, 'obs': r.obs, 'epochs': r.epochs, 'checkpoints': r.checkpoints,
            'problems': r.problems, 'loop_exceptions': loop.exceptions[:3]}


def _run_impl(case: dict) -> dict:
    res, _loop = simloop.run(_run_case_async, case, start=0.0, wall_timeout=30.0)
    return res


def _eval_case(case: dict) -> dict:
    import logging
    logging.getLogger('aioslsk').setLevel(logging.CRITICAL)    # the library logs swallowed exceptions; keep stderr clean
    try:
        return _run_impl(case)
    except Exception as e:       # the real code raised / hung: an observation, not a harness crash
        return {'lines': [], 'obs': [], 'epochs': [], 'checkpoints': [],
                'problems': [('C15-impl-error', f'{type(e).__name__}: {e}')], 'loop_exceptions': []}


# ------------------------------------------------------------------------------------------------
# monitor: the property statement on the implementation trace (independent of the Lean model)
# ------------------------------------------------------------------------------------------------

def _fold(calls: list) -> tuple[int, str]:
    """R_u and the edge sequence of the calls (issue order)."""
    r, edges = 0, ''
    for _t, add, f in calls:
        new = (r | f) if add else (r & ~f)
        if r == 0 and new != 0:
            edges += 'A'
        elif r != 0 and new == 0:
            edges += 'R'
        r = new
    return r, edges


def _collapse(attempts: list) -> str:
    out = ''
    for _t, k in attempts:
        if k == 'A' and out.endswith('A'):
            continue
        out += k
    return out


def _monitor(case: dict, res: dict) -> list[Violation]:
    vs: list[Violation] = []

    def flag(sig, what, observed=None, required=None):
        vs.append(Violation(sig, what, case, observed=observed, required=required))

    for sig, what in res['problems']:
        flag(sig, what)
    for ex in res.get('loop_exceptions', []):
        flag('C15-impl-error', f'exception escaped into the event loop: {ex}')
    epochs = res['epochs']
    for cp in res['checkpoints']:
        if cp['epoch'] >= len(epochs):
            continue
        ep = epochs[cp['epoch']]
        if cp['stray']:
            flag('C15-frames-not-edges', f'network call for a user nobody asked about: {cp["stray"]}')
        for n in NAMES:
            u = cp['users'][n]
            calls = ep['calls'].get(n, [])[:cp['ncalls'][n]]
            attempts = ep['attempts'].get(n, [])[:cp['nattempts'][n]]
            outcomes = ep['outcomes'].get(n, [])[:cp['noutcomes'][n]]
            R, E = _fold(calls)
            C = _collapse(attempts)
            where = f'user {n} after op #{cp["op"]}'
            if cp['after_close']:
                # everything is dropped when the server connection closes
                if u['flags'] != 0 or u['state'] != 'U' or u['gates']:
                    flag('C15-not-dropped-on-close',
                         f'{where}: after the server connection closed the user still has flags/state/'
                         f'a tracking task talking to the network', observed=u,
                         required={'flags': 0, 'state': 'U', 'gates': ''})
                continue
            # AddUser/RemoveUser exactly on the edges of R_u (retries repeat the AddUser of their edge)
            if not E.startswith(C):
                flag('C15-frames-not-edges',
                     f'{where}: requests sent {"".join(k for _, k in attempts)!r} are not the empty<->non-empty '
                     f'edges {E!r} of the calls made (plus AddUser retries)',
                     observed=''.join(k for _, k in attempts), required=E)
                continue
            if not (cp['settled'] and not u['gates']):
                continue
            # user is quiescent: nothing parked, loop settled
            if u['flags'] != R:
                flag('C15-flags-not-fold-of-calls',
                     f'{where}: get_tracking_flags={u["flags"]} but the calls made so far leave reasons {R} '
                     f'(a call was lost)', observed=u['flags'], required=R)
                continue
            if C != E:
                flag('C15-frames-not-edges',
                     f'{where}: quiescent, requests sent {"".join(k for _, k in attempts)!r}, edges of the calls '
                     f'{E!r}', observed=''.join(k for _, k in attempts), required=E)
                continue
            last = outcomes[-1] if outcomes else None
            want_tracked = R != 0 and last is not None and last[1] == 'exists'
            if (u['state'] == 'T') != want_tracked:
                flag('C15-state-wrong',
                     f'{where}: quiescent, state {u["state"]}, reasons {R}, last answer {last and last[1]}',
                     observed=u['state'], required='T' if want_tracked else 'not T')
            if R != 0 and last is not None and last[1] in DELAY:
                due = last[0] + DELAY[last[1]] * 1024
                if cp['now'] >= due:
                    flag('C15-retry-missing',
                         f'{where}: attempt failed ({last[1]}) at tick {last[0]}, a reason remains, '
                         f'{DELAY[last[1]]} s have passed and no retry was sent',
                         observed={'now': cp['now']}, required={'retry_at': due})
    # retries: every AddUser that does not open a block is justified by an earlier failed attempt whose
    # documented delay has passed — and whose retry was not called off: a RemoveUser sent before the retry
    # was due means the reasons had become empty, "only while a reason remains"
    for ep in epochs:
        for n, log in ep.get('log', {}).items():
            fails: list[int] = []        # due ticks of failures that may still justify a retry
            prev = None
            for t, k in log:
                if k in DELAY:
                    fails.append(t + DELAY[k] * 1024)
                    continue
                if k == 'R':
                    fails = [d for d in fails if d <= t]
                elif k == 'A' and prev == 'A':
                    ok = sorted(d for d in fails if d <= t)
                    if not ok:
                        flag('C15-spurious-retry',
                             f'user {n}: AddUser re-sent at tick {t} without a failed attempt whose documented '
                             f'retry delay has passed while a reason remained (retries still due at ticks: {fails})',
                             observed={'at': t}, required={'due': fails})
                        break
                    fails.remove(ok[0])
                if k in ('A', 'R'):
                    prev = k
    return vs


# ------------------------------------------------------------------------------------------------
# model side
# ------------------------------------------------------------------------------------------------

def _model_lines(res: dict) -> list[str]:
    return ['reset'] + list(res['lines'])


# ------------------------------------------------------------------------------------------------
# generator
# ------------------------------------------------------------------------------------------------

SINGLE = [1, 2, 4]
COMBO = [3, 5, 6, 7]
ADV = [1, 5, 9, 10, 11, 20, 30, 590, 600, 601, 1200]


def _flag(rng):
    return rng.choice(SINGLE) if rng.random() < 0.7 else rng.choice(COMBO)


def _mod(rng, weights=(5, 2, 3)):
    return rng.choices(['.', '+', '!'], weights=weights)[0]


def _gate(rng, u, m=None):
    so = 'ok' if rng.random() < 0.78 else 'fail'
    ro = rng.choices(['exists', 'notexists', 'error', 'silence'], weights=[5, 2, 1, 2])[0]
    return ['gate', u, so, ro, m if m is not None else rng.choices(['.', '!'], weights=[3, 2])[0]]


def _gen_random(rng: random.Random) -> list:
    nusers = rng.choice([1, 1, 2])
    ncalls = rng.randint(1, 8)
    believed = [0, 0]
    ops: list = []
    calls = 0
    while calls < ncalls and len(ops) < 40:
        x = rng.random()
        u = rng.randrange(nusers)
        if x < 0.42:
            if believed[u] and rng.random() < 0.5:
                # untrack something (mostly what is set; sometimes everything, sometimes something else)
                y = rng.random()
                f = believed[u] if y < 0.45 else rng.choice([b for b in SINGLE if believed[u] & b] or SINGLE) \
                    if y < 0.8 else _flag(rng)
                ops.append(['untrack', u, f, _mod(rng)])
                believed[u] &= ~f
            elif rng.random() < 0.12:
                ops.append(['untrack', u, _flag(rng), _mod(rng)])
            else:
                f = _flag(rng)
                ops.append(['track', u, f, _mod(rng)])
                believed[u] |= f
            calls += 1
        elif x < 0.80:
            ops.append(_gate(rng, u if rng.random() < 0.3 else -1))
        elif x < 0.95:
            ops.append(['adv', rng.choice(ADV)])
        else:
            ops.append(['close'])
            believed = [0, 0]
    for _ in range(rng.randint(0, 4)):
        ops.append(_gate(rng, -1) if rng.random() < 0.6 else ['adv', rng.choice(ADV)])
    return ops


def _tmpl_exit_window(rng):
    """a call lands between "worker returned" and "its done-callback ran" """
    u = rng.randrange(2)
    f, g = _flag(rng), _flag(rng)
    ops = [['track', u, f, _mod(rng)], ['gate', u, 'ok', 'exists', '.'],
           ['gate', u, 'ok', rng.choice(['exists', 'notexists', 'error']), '.'],
           ['untrack', u, f, '.'], ['gate', u, rng.choice(['ok', 'fail']), 'exists', '!'],
           [rng.choice(['track', 'track', 'untrack']), u, g, _mod(rng)]]
    if rng.random() < 0.5:
        ops.append(['track', u, _flag(rng), '.'])
    return ops


def _tmpl_noop_exit(rng):
    """worker exits straight from queue.get (request leaves the reasons empty), call one iteration later"""
    u = rng.randrange(2)
    f = _flag(rng)
    return [['track', u, f, '+'], ['untrack', u, f, '+'], ['untrack', u, f, '.'],
            ['gate', u, 'ok', 'exists', '.'], ['gate', u, 'ok', 'exists', '.'],
            ['gate', u, 'ok', 'exists', '!'], ['track', u, _flag(rng), '.']]


def _tmpl_close_in_cancel(rng):
    """server closes right after the request that empties the reasons while a retry is pending"""
    u = rng.randrange(2)
    f = _flag(rng)
    fail = rng.choice([['gate', u, 'fail', 'exists', '.'], ['gate', u, 'ok', 'notexists', '.'],
                       ['gate', u, 'ok', 'silence', '.']])
    ops = [['track', u, f, '.']] + ([fail] if fail[2] == 'fail' else [['gate', u, 'ok', 'exists', '.'], fail])
    ops += [['untrack', u, f, rng.choice(['!', '+', '!'])]]
    if rng.random() < 0.5:
        ops.append(['track', u, _flag(rng), rng.choice(['!', '+'])])
    ops.append(['close'])
    if rng.random() < 0.6:
        ops += [['adv', rng.choice([10, 11, 600, 601])], ['track', u, _flag(rng), '.']]
    return ops


def _tmpl_retry(rng):
    """failed attempts, retries at the documented delay, reasons withdrawn before / after the retry"""
    u = rng.randrange(2)
    f = _flag(rng)
    how = rng.choice(['sendfail', 'notexists', 'silence', 'error'])
    ops = [['track', u, f, '.']]
    if how == 'sendfail':
        ops.append(['gate', u, 'fail', 'exists', '.'])
    else:
        ops += [['gate', u, 'ok', 'exists', '.'], ['gate', u, 'ok', how, '.']]
    d = 600 if how == 'notexists' else 10
    ops.append(['adv', rng.choice([d - 1, d - 1, d, d + 1])])
    y = rng.random()
    if y < 0.3:
        ops.append(['untrack', u, f, _mod(rng)])
    elif y < 0.5:
        ops.append(['track', u, _flag(rng), _mod(rng)])
    ops.append(['adv', rng.choice([1, 2, d])])
    ops.append(_gate(rng, u))
    ops.append(_gate(rng, u))
    if rng.random() < 0.5:
        ops.append(['adv', rng.choice([d, d + 1, 2 * d + 1])])
    return ops


def _tmpl_transfer_cycles(rng):
    """the transfer manager's per-cycle calls: track(TRANSFER) for every unfinished user, back to back"""
    ops = []
    if rng.random() < 0.3:
        ops.append(['track', rng.randrange(2), rng.choice([1, 4, 5]), _mod(rng)])
    unfinished = rng.choice([[0], [1], [0, 1], [0, 0, 1]])
    finished: list = []
    for _cycle in range(rng.randint(2, 4)):
        ops.append(['tm', list(unfinished), list(finished), rng.choice(['+', '.', '.'])])
        ops.append(_gate(rng, -1))
        if unfinished and rng.random() < 0.5:      # a transfer completes
            u = unfinished.pop(rng.randrange(len(unfinished)))
            finished.append(u)
        elif rng.random() < 0.2:                   # a new transfer for a user whose transfers were finished
            unfinished.append(rng.randrange(2))
    ops += [['tm', list(unfinished), list(finished), '.'], _gate(rng, -1), _gate(rng, -1)]
    return ops


TEMPLATES = [_tmpl_exit_window, _tmpl_noop_exit, _tmpl_close_in_cancel, _tmpl_retry, _tmpl_transfer_cycles]


def _gen_case(rng: random.Random) -> dict:
    x = rng.random()
    if x < 0.62:
        return {'ops': _gen_random(rng), 'kind': 'random'}
    t = rng.choice(TEMPLATES)
    ops = t(rng)
    if rng.random() < 0.4:       # random prefix: the scenario starts from a non-trivial history
        pre = _gen_random(rng)[:rng.randint(1, 6)]
        ops = pre + ops
    ncall = 0
    cut = len(ops)
    for i, op in enumerate(ops):
        if op[0] in ('track', 'untrack', 'tm'):
            ncall += 1 if op[0] != 'tm' else len(set(op[1]) | set(op[2]))
            if ncall > 8:
                cut = i
                break
    return {'ops': ops[:cut], 'kind': t.__name__[6:]}


def _malformed(rng: random.Random) -> dict:
    """ops the schedule cannot perform (nothing parked): the harness and the model both refuse them"""
    ops = [['gate', rng.randrange(2), 'ok', 'exists', '.'], ['track', 0, 1, '.'], ['gate', 1, 'fail', 'error', '!'],
           ['gate', 0, 'ok', 'exists', '.'], ['gate', 0, 'ok', 'exists', '.'], ['gate', 0, 'fail', 'exists', '.'],
           ['untrack', 1, 7, '.'], ['close'], ['close'], ['gate', 0, 'ok', 'exists', '.']]
    rng.shuffle(ops)
    return {'ops': ops, 'kind': 'malformed'}


# the call made between "worker returned" and "done-callback ran" (lost on the pinned code)
WITNESS_LOST = {'ops': [['track', 0, 1, '.'], ['gate', 0, 'ok', 'exists', '.'], ['gate', 0, 'ok', 'exists', '.'],
                        ['untrack', 0, 1, '.'], ['gate', 0, 'ok', 'exists', '!'], ['track', 0, 4, '.']],
                'kind': 'witness-lost-call'}
# server closes while the worker awaits the cancelled retry task (cancellation swallowed on the pinned code)
WITNESS_SWALLOW = {'ops': [['track', 0, 1, '.'], ['gate', 0, 'ok', 'exists', '.'], ['gate', 0, 'ok', 'notexists', '.'],
                           ['untrack', 0, 1, '+'], ['track', 0, 4, '!'], ['close']],
                   'kind': 'witness-swallowed-cancel'}


def _is_nontrivial(case: dict, res: dict) -> bool:
    """at least one AddUser attempt, and at least one call issued while that user's worker was busy (parked
    in a network call) or had not run since the previous op (modifiers + / !)"""
    if not any(k == 'A' for ep in res['epochs'] for at in ep['attempts'].values() for _, k in at):
        return False
    prev_mod = '.'
    lines = res['lines']
    cps = {cp['op']: cp for cp in res['checkpoints']}
    for i, ln in enumerate(lines):
        p = ln.split()
        if p[0] in ('track', 'untrack'):
            if prev_mod in '+!':
                return True
            before = cps.get(i - 1)
            if before and before['users'][NAMES[int(p[1])]]['gates']:
                return True
        prev_mod = p[-1] if p[-1] in ('.', '+', '!') else '.'
    return False


class C15(Property):
    id = 'C15'
    props_module = 'AioslskVerif.Props.C15'
    driver_module = 'AioslskVerif.Driver.C15'
    rule = ('schedules derived from VERIF_SEED: <= 8 track/untrack calls with any non-empty flag set for 1..2 users, '
            'each issued settled / one loop iteration after / back-to-back with the previous op, interleaved with '
            'releases of the worker\'s pending network call (send ok|failure, exists|not-exists|error|silence), '
            'virtual-time advances around the 10 s / 600 s delays and server closes; 38 % from scenario templates '
            '(exit window, no-op exit, close during retry cancellation, retries, cycles of the real '
            'TransferManager.manage_user_tracking) with random '
            'prefixes; a case is non-trivial when an AddUser attempt was made and a call was issued while that '
            'user\'s worker was busy or had not run since the previous op; distinct = distinct op list')
    assumptions = [
        'calls carry a non-empty TrackingFlag (TrackingFlag(0) is the value the retry task itself uses; the Lean '
        'model transcribes it faithfully, the generator never issues it)',
        'no call is issued while the CLOSED event is being dispatched (harness and model treat the close as one step)',
        'Network is replaced by a stub with the two coroutines the tracking code awaits; event listeners do not '
        'suspend; the suspension points of the worker are queue.get, the two network calls and the retry sleep '
        '(after fix 2 the retry task is cancelled without being awaited)',
        'every op moves the clock by 1/1024 s, so two timers of one user never fall due at the same instant',
    ]
    modelled = ('user/manager.py UserTrackingManager: track_user/untrack_user, _tracking_task, _request_tracking, '
                '_request_untracking, _set_tracking_state, _request_retry, _get_tracked_user_object, '
                '_on_tracking_task_done, _on_state_changed/stop (atomic), get_tracking_state/flags — with the two '
                'proposed fixes; exercised only: UserManager wrappers, EventBus, TrackingFlag/TrackingState enums; '
                'TransferManager.manage_user_tracking (real method run on a stand-in holding real Transfer objects; '
                'its calls are checked against "track(TRANSFER) per unfinished user, untrack(TRANSFER) per '
                'finished-only user")')

    def regenerate(self):
        return [track_constants.generate(common.REPO, common.LEAN)]

    def _cases(self, seed, tier, widen):
        rng = random.Random(f'C15-{seed}')
        n = (6000 if tier == 'quick' else 360000) * widen
        cases = [WITNESS_LOST, WITNESS_SWALLOW]
        cdir = common.CORPUS / 'C15'
        if cdir.is_dir():
            for p in sorted(cdir.glob('*.json')):
                try:
                    c = json.loads(p.read_text())
                    cases.append(c.get('case', c))
                except ValueError:
                    pass
        cases += [_malformed(rng) for _ in range(3)]
        cases += [_gen_case(rng) for _ in range(n)]
        return cases

    def correspondence(self, seed, tier, model_ok, widen=1):
        res = KResult()
        cases = self._cases(seed, tier, widen)
        impl = common.parallel_map(_eval_case, cases)
        model = None
        if model_ok:
            lines, spans = [], []
            for r in impl:
                ls = _model_lines(r)
                spans.append((len(lines) + 1, len(ls) - 1))       # skip the `ok` of reset
                lines += ls
            out = common.run_driver(self.driver_file, lines)
            model = [out[a:a + k] for a, k in spans]
        else:
            res.model_available = False
        for i, c in enumerate(cases):
            r = impl[i]
            res.evaluations += 1
            res.count('kind:' + c.get('kind', '?'))
            res.count('ops', len(r['lines']))
            for ln in r['lines']:
                p = ln.split()
                res.count('op:' + p[0] + (':' + p[2] if p[0] in ('send', 'resp') else ''))
                if p[-1] in ('+', '!'):
                    res.count('mod:' + p[-1])
            res.count('refused', sum(1 for o in r['obs'] if o.startswith('refused')))
            if _is_nontrivial(c, r):
                res.nontrivial_keys.add(common.sha(c['ops']))
            if model is not None and r['lines']:
                res.traces_validated += 1
                if model[i] != r['obs']:
                    k = next((j for j, (a, b) in enumerate(zip(model[i], r['obs'])) if a != b),
                             min(len(model[i]), len(r['obs'])))
                    res.disagreements.append(Disagreement(
                        c, r['obs'][k] if k < len(r['obs']) else None,
                        model[i][k] if k < len(model[i]) else None,
                        f'op #{k} {r["lines"][k] if k < len(r["lines"]) else ""}'))
            res.violations += _monitor(c, r)
            if len(res.samples) < 3 and 4 <= len(r['lines']) <= 9 and c.get('kind') not in ('malformed',):
                res.samples.append({'case': c, 'executed': r['lines'], 'impl': r['obs']})
        return res

    def replay(self, case):
        return _monitor(case, _eval_case(case))

    def known_witnesses(self):
        return []


PROPERTY = C15()
