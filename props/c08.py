"""C08 — files are only offered and uploaded to users entitled to them: correspondence K_C08 + monitor.

Implementation side: the REAL `SharesManager` (real temporary tree, as in props/c07.py whose alphabet, tree and
query generators are reused), the REAL `TransferManager`, `SearchManager` and `PeerManager` on one real `EventBus`
and one real `Settings`; stubs only for the network (records what is sent), the peer connections (record what is
queued / sent) and the user manager. Messages are delivered as `MessageReceivedEvent`s, configuration changes are
made the way the user manager's polling job reports them (`FriendListChangedEvent`, `BlockListChangedEvent`) or
through the shares API. The management task is not started: a `cycle` op runs the real `_management_job()` once
when a cycle has been requested, so that requests can be placed before and after it at will.

Live family (`case['live']`): the REAL `UserManager` (its polling job started, only the server's answers are stubbed) and
the transfer manager's REAL management task are running under virtual time. Configuration changes reach the managers
through the settings: `settings.users.friends` / `.blocked` assigned or mutated in place (announced by the user
manager's own poll), `settings.shares.directories` edited (entries dropped / added / changed, lists assigned or mutated
in place) followed by `load_from_settings()`; the harness never runs a cycle itself — `wait` ops let virtual time pass
and whatever the code's event path requested runs. Two probes (the management queue's `get`, the poll job's entry)
record WHEN the real job / poll ran, so that the model can be fed `poll` / `cycle` at exactly those points.

Model side: the same history through `Driver/C08.lean` (`Model/Entitle.lean` on the C07 models).
Monitor: the property statement evaluated from the harness's own book-keeping (files it put on disk, the settings it
applied), independent of the model.
"""
from __future__ import annotations

import asyncio
import json
import os
import random
import shutil
import tempfile
from typing import Any, Optional

from vlib import common
from vlib.common import KResult, Violation, Disagreement, Property
from props import c07
from translate import entitle_constants, transfer_table

USERS = ['alice', 'Bob', 'carol', 'dave']
MODES = ['everyone', 'friends', 'users']
F_SEARCHES, F_SHARES, F_UPLOADS = 4, 8, 32
FLAG_CHOICES = [32, 32, 32, 4, 4, 8, 36, 40, 12, 44, 63, 1, 16, 3]
TASK_METHODS = ['initialize', 'start_transferring', 'complete', 'fail', 'pause']
# calls a `begin` op can make and suspend while they hold the upload's state lock
FLIGHT_CALLS = ['pause', 'pause', 'pause', 'abort', 'abort', 'requeue', 'initialize', 'start_transferring', 'complete', 'fail']


# calls the state an upload is left in by the last method of its recipe accepts (generator hint only)
_ACCEPTED = {'': ['pause', 'pause', 'abort', 'abort', 'initialize', 'fail'],
             'initialize': ['pause', 'pause', 'abort', 'abort', 'start_transferring', 'fail', 'requeue'],
             'start_transferring': ['pause', 'pause', 'pause', 'abort', 'abort', 'complete', 'fail'],
             'pause': ['abort', 'abort', 'requeue', 'requeue', 'fail'], 'ABORT': ['requeue'], 'REVOKED': ['requeue'],
             'complete': ['requeue'], 'fail': ['requeue']}


def _shows_finished(what: str, phase: str) -> bool:
    """the suspended call leaves the upload SHOWING a state the management cycle takes for settled (ABORTED on the user's
    request, COMPLETE, FAILED) while its lock is still held: a re-queue waiting behind that lock runs after the cycle
    looked — known finding (proposed) C08-requeue-behind-state-lock-not-reevaluated, kept out of the generated cases"""
    return phase == 'notify' and what in ('abort', 'complete', 'fail')
CONFIG_OPS = ('friends', 'blocked', 'share', 'unshare', 'mode')
LIVE_CONFIG_OPS = ('sfriends', 'sblocked', 'reload')      # through the settings; `scan` changes nothing the truth tracks
SETTLE = 2.0        # a `wait` of at least this long is a settled point: >= 1 poll of the user manager (every 1 s) and
                    # every management cycle requested by then (the job sleeps <= 0.25 s between runs) are over
PATH_VARIANTS = ['exact', 'exact', 'exact', 'exact', 'upper', 'lower', 'dblsep', 'fwd', 'trail', 'lead', 'noat',
                 'unknown', 'dironly']


# ------------------------------------------------------------------------------------------------
# requested remote paths: a pure function of (spec, alias map) used by both sides and the monitor
# ------------------------------------------------------------------------------------------------

def _swapcase_one(s: str) -> str:
    for i, ch in enumerate(s):
        for alt in (ch.upper(), ch.lower()):
            if alt != ch and len(alt) == 1:
                return s[:i] + alt + s[i + 1:]
    return s + 'x'


def _resolve_path(spec: dict, alias: dict) -> str:
    """spec = {'d': shared-directory rel path whose alias is used, 'f': path below it ('/'-separated), 'var'}"""
    a = alias.get(spec['d'], 'zzzzz')
    parts = [p for p in spec['f'].split('/') if p]
    exact = '\\'.join(['@@' + a] + parts)
    v = spec.get('var', 'exact')
    if v == 'exact':
        return exact
    if v == 'upper':
        r = '\\'.join(['@@' + a] + [p.upper() for p in parts])
        return r if r != exact else _swapcase_one(exact)
    if v == 'lower':
        r = '\\'.join(['@@' + a] + [p.lower() for p in parts])
        return r if r != exact else _swapcase_one(exact)
    if v == 'dblsep':
        return '@@' + a + '\\\\' + '\\'.join(parts)
    if v == 'fwd':
        return '/'.join(['@@' + a] + parts)
    if v == 'trail':
        return exact + '\\'
    if v == 'lead':
        return '\\' + exact
    if v == 'noat':
        return '\\'.join([a] + parts)
    if v == 'unknown':
        return exact + '.zzz'
    if v == 'dironly':
        return '\\'.join(['@@' + a] + parts[:-1])
    raise ValueError(v)


# ------------------------------------------------------------------------------------------------
# generator
# ------------------------------------------------------------------------------------------------

def _gen_users(rng) -> list[int]:
    return sorted(rng.sample(range(3), rng.choice([0, 1, 1, 2, 3])))


def _gen_mode(rng):
    m = rng.choice(MODES)
    return m, (_gen_users(rng) if m == 'users' else (rng.choice([[], [0], [1, 2]]) if rng.random() < 0.2 else []))


def _gen_blocked(rng, cur: dict) -> dict:
    new = dict(cur)
    for _ in range(rng.choice([1, 1, 2])):
        u = rng.randrange(3)
        if str(u) in new and rng.random() < 0.5:
            del new[str(u)]
        else:
            new[str(u)] = rng.choice(FLAG_CHOICES)
    return new


def _gen_phrases(rng, files: list[str]) -> list[str]:
    out = []
    for _ in range(rng.choice([1, 1, 2, 3])):
        r = rng.random()
        f = rng.choice(files)
        qp = f.replace('/', '\\')
        if r < 0.45:
            ws = c07._split_words(f) or ['a']
            ph = rng.choice(ws)
        elif r < 0.8:
            i = rng.randrange(len(qp))
            j = min(len(qp), i + rng.choice([2, 3, 4, 6, 9]))
            ph = qp[i:j]
        elif r < 0.95:
            ph = rng.choice(['zzz', 'qqq', 'nothing here', 'ing', 'o', '.mp3', 'MP3', ' - '])
        else:
            ph = ''
        c = rng.random()
        if c < 0.35:
            ph = ph.upper() if len(ph.upper()) == len(ph) else ph
        elif c < 0.5:
            ph = ph.lower()
        elif c < 0.7:
            ph = ''.join(ch.upper() if rng.random() < 0.5 and len(ch.upper()) == 1 else ch.lower() for ch in ph)
        out.append(ph)
    return out


def _gen_case(rng: random.Random) -> dict:
    while True:
        dirs, files = c07._gen_tree(rng)
        files = files[:rng.choice([3, 5, 8, 12])]
        if files:
            break
    # candidate shared directories: folders that (transitively) hold a file, plus sometimes the root
    holders = sorted({os.path.dirname(f) or '.' for f in files} |
                     {'/'.join(f.split('/')[:k]) for f in files for k in range(1, f.count('/') + 1)})
    cand = [d for d in holders if d != '.'] or ['.']
    if rng.random() < 0.15:
        cand.append('.')
    nshare = min(len(cand), rng.choice([1, 2, 2, 3, 3]))
    if rng.random() < 0.5 and len(cand) >= 2:
        # prefer a nested pair
        nested = [(a, b) for a in cand for b in cand if a != b and (a == '.' or b.startswith(a + '/'))]
        first = list(rng.choice(nested)) if nested else []
        rest = [d for d in cand if d not in first]
        rng.shuffle(rest)
        chosen = (first + rest)[:max(nshare, min(2, len(cand)))]
        rng.shuffle(chosen)
    else:
        chosen = rng.sample(cand, nshare)
    chosen = chosen[:3]
    ops: list = []
    shared: dict[str, Any] = {}
    friends: list[int] = _gen_users(rng)
    blocked: dict = {}
    if friends:
        ops.append(['friends', friends])
    if rng.random() < 0.4:
        blocked = _gen_blocked(rng, {})
        ops.append(['blocked', blocked])
    for d in chosen:
        m, us = _gen_mode(rng)
        ops.append(['share', d, m, us])
        shared[d] = (m, us)
    if rng.random() < 0.6:
        ops.append(['phrases', _gen_phrases(rng, files)])
    if rng.random() < 0.5:
        ops.append(['cycle'])
    uploads = 0
    nchanges = 0
    max_changes = rng.choice([1, 2, 3, 4, 6, 6])
    all_dirs = sorted(set(cand) | set(chosen))

    def pick_spec(dir_level=False):
        f = rng.choice(files)
        owners = [d for d in all_dirs if c07._under(d, os.path.dirname(f) or '.') or d == '.']
        r = rng.random()
        sh_owners = [d for d in owners if d in shared]
        if sh_owners and r < 0.75:
            d = c07._innermost(list(shared), f) if rng.random() < 0.8 else rng.choice(sh_owners)
        elif owners:
            d = rng.choice(owners)
        else:
            d = rng.choice(all_dirs)
        rel = f if d == '.' else (f[len(d) + 1:] if f.startswith(d + '/') else os.path.basename(f))
        if dir_level:
            rel = os.path.dirname(rel)
            if rng.random() < 0.15 and rel:
                rel = os.path.dirname(rel)
            var = rng.choice(['exact', 'exact', 'exact', 'exact', 'upper', 'dblsep', 'trail', 'fwd', 'unknown', 'noat'])
        else:
            var = rng.choice(PATH_VARIANTS)
        return {'d': d, 'f': rel, 'var': var}

    def gen_change():
        nonlocal friends, blocked
        k = rng.random()
        if k < 0.25:
            new = _gen_users(rng)
            if new == friends:
                new = [u for u in range(3) if u not in friends][:2]
            friends = new
            return ['friends', friends]
        if k < 0.5:
            blocked = _gen_blocked(rng, blocked)
            return ['blocked', blocked]
        if k < 0.7 and shared:
            d = rng.choice(sorted(shared))
            m, us = _gen_mode(rng)
            shared[d] = (m, us)
            return ['mode', d, m, us]
        if k < 0.85 and shared:
            d = rng.choice(sorted(shared))
            del shared[d]
            return ['unshare', d]
        d = rng.choice(all_dirs)
        m, us = _gen_mode(rng)
        if d not in shared:
            shared[d] = (m, us)
        return ['share', d, m, us]

    specs_used: list[tuple[int, dict]] = []
    n = rng.choice([6, 10, 14, 18, 24])
    flights: list[int] = []              # uploads with a suspended state method (their state lock is held)
    no_requeue: set = set()              # ... that shows a finished state meanwhile (see _shows_finished)
    p_flight = rng.choice([0.0, 0.0, 0.06, 0.12])

    def end_flights(keep=0):
        while len(flights) > keep:
            ops.append(['end', flights.pop(rng.randrange(len(flights)))])
            no_requeue.discard(ops[-1][1])

    for _ in range(n):
        r = rng.random()
        if uploads and rng.random() < p_flight:
            if flights and rng.random() < 0.45:
                end_flights(len(flights) - 1)
            else:
                k = min(rng.randrange(min(uploads, 6)), rng.randrange(min(uploads, 6)))    # (requests may have been refused)
                what, phase = rng.choice(FLIGHT_CALLS), rng.choice(['cancel', 'notify'])
                if k in no_requeue and what == 'requeue':
                    what = 'pause'
                ops.append(['begin', k, what, phase])
                if k not in flights:
                    flights.append(k)       # (may over-count: a refused call holds nothing; `end` then says so)
                    if _shows_finished(what, phase):
                        no_requeue.add(k)
        if r < 0.22 and nchanges < max_changes:
            nchanges += 1
            ops.append(gen_change())
            x = rng.random()
            if x < 0.3 and nchanges < max_changes and not flights:
                # a second change arrives while the cycle the first one asked for is suspended at an await
                nchanges += 1
                ops.append(['cycle*', rng.choice(['track', 'track', 'state']), [gen_change()]])
            elif x < 0.7:
                ops.append(['cycle'])
        elif r < 0.3:
            ops.append(['phrases', _gen_phrases(rng, files) if rng.random() < 0.85 else []])
        elif r < 0.42:
            under = [f for f in files if c07._innermost(list(shared), f) is not None] or files
            if rng.random() < 0.6:
                f = rng.choice(under)
                d = c07._innermost(list(shared), f)
                rel = f if d in (None, '.') else f[len(d) + 1:]
                ws = c07._split_words(rel) or ['a']
                q = ' '.join(c07._recase(rng, rng.choice(ws)) for _ in range(rng.choice([1, 1, 2])))
                if rng.random() < 0.25:
                    q = '*' + q[1:] if len(q) > 1 else q
            else:
                q = c07._gen_query(rng, under)
            ops.append(['search', rng.randrange(4 if rng.random() < 0.1 else 3), q,
                        rng.choice(['server', 'file', 'dist'])])
        elif r < 0.48:
            ops.append(['shares', rng.randrange(3)])
        elif r < 0.55:
            ops.append(['dir', rng.randrange(3), pick_spec(dir_level=True)])
        elif r < 0.78:
            u = rng.randrange(3)
            if specs_used and rng.random() < 0.4:
                u, spec = rng.choice(specs_used)          # ask again for an upload that may exist already
            else:
                spec = pick_spec()
            if spec['var'] == 'exact':
                specs_used.append((u, spec))
            ops.append([rng.choice(['queue', 'queue', 'treq']), u, spec])
            uploads += 1
        elif r < 0.88:
            ops.append(['cycle'])
        elif uploads:
            k = rng.randrange(min(uploads, 6))
            x = rng.random()
            if x < 0.55:
                ops.append(['meth', k, rng.choice(TASK_METHODS)])
            elif x < 0.8 or k in no_requeue:
                ops.append(['abort', k])
            else:
                ops.append(['requeue', k])
        else:
            ops.append(['cycle'])
    if flights:
        end_flights()
        ops.append(['cycle'])
    ops.append(['cycle'])
    return {'cap': rng.choice([1, 2, 3, 100, 100, 100]), 'files': files, 'ops': ops}


def _gen_inflight_case(rng: random.Random) -> dict:
    """Aimed at the state lock: an everyone / friends / users directory, 1..3 uploads driven into chosen states (also
    aborted by the user, aborted by a cycle for Blocked / File not shared); then a call — pause, the user's abort or
    re-queue, a method of the upload's task — is made on one of them and SUSPENDED while it holds the upload's state lock
    (waiting for the task it cancelled, or inside the transition while the listeners are told). While it is suspended: a
    configuration change that revokes (or gives back) the permission, the management cycle this asks for (its transitions
    wait for the lock, the job with them), sometimes more calls on the same upload (they wait too), calls on the other
    uploads, further changes, another cycle (busy). Then the holder goes on, cycles until idle, sometimes the change is
    undone and a last cycle runs."""
    w = rng.choice(['song', 'Song', 'LIVE', 'café'])
    files = ['pub/' + c07._gen_name(rng, 2) + ' ' + w + '.mp3', 'fr/' + w + ' ' + c07._gen_name(rng, 2) + '.flac',
             'us/' + c07._gen_name(rng, 1) + '_' + w + ' x.ogg']
    ops: list = [['friends', [0, 1]], ['share', 'pub', 'everyone', []], ['share', 'fr', 'friends', []],
                 ['share', 'us', 'users', [0, 2]]]
    entitled = {'pub': [0, 1, 2], 'fr': [0, 1], 'us': [0, 2]}
    plan: list = []
    for _ in range(rng.choice([1, 1, 2, 3])):
        d = rng.choice(['pub', 'pub', 'fr', 'us'])
        u = rng.choice(entitled[d])
        if (u, d) not in plan:
            plan.append((u, d))

    def spec(d):
        f = [x for x in files if x.startswith(d + '/')][0]
        return {'d': d, 'f': f[len(d) + 1:], 'var': 'exact'}

    revoke = {          # (change that takes the permission of user u for directory d away, its undoing)
        'blocked': lambda u, d: (['blocked', {str(u): rng.choice([32, 32, 36, 63])}], ['blocked', {}]),
        'friends': lambda u, d: (['friends', [x for x in (0, 1) if x != u]], ['friends', [0, 1]]),
        'users': lambda u, d: (['mode', 'us', 'users', [x for x in (0, 2) if x != u]], ['mode', 'us', 'users', [0, 2]]),
        'mode': lambda u, d: (['mode', d, 'users', []], ['mode', d, {'pub': 'everyone', 'fr': 'friends', 'us': 'users'}[d],
                                                          [0, 2] if d == 'us' else []]),
        'unshare': lambda u, d: (['unshare', d], ['share', d, {'pub': 'everyone', 'fr': 'friends', 'us': 'users'}[d],
                                                  [0, 2] if d == 'us' else []]),
    }

    def revoking(u, d):
        kinds = ['blocked', 'blocked', 'mode', 'unshare'] + (['friends'] * 2 if d == 'fr' else []) + \
            (['users'] * 2 if d == 'us' else [])
        return revoke[rng.choice(kinds)](u, d)

    recipes = [[], ['initialize'], ['initialize'], ['initialize', 'start_transferring'], ['initialize', 'start_transferring'],
               ['initialize', 'start_transferring'], ['pause'], ['initialize', 'start_transferring', 'pause'], ['ABORT'],
               ['REVOKED'], ['REVOKED'], ['initialize', 'start_transferring', 'complete'], ['initialize', 'fail']]
    restore: list = []
    accepted = _ACCEPTED
    last: list = []
    for k, (u, d) in enumerate(plan):
        ops.append([rng.choice(['queue', 'treq']), u, spec(d)])
        recipe = rng.choice(recipes)
        last.append(recipe[-1] if recipe else '')
        for m in recipe:
            if m == 'ABORT':
                ops.append(['abort', k])
            elif m == 'REVOKED':
                # aborted by a cycle: the permission is taken away now (given back during / after the suspension)
                a, b = revoking(u, d)
                ops += [a, ['cycle']]
                restore.append(b)
            else:
                ops.append(['meth', k, m])
    ops.append(['cycle'])
    k = rng.randrange(len(plan))
    u, d = plan[k]
    ops.append(['begin', k, rng.choice(accepted[last[k]]) if rng.random() < 0.9 else rng.choice(FLIGHT_CALLS),
                rng.choice(['cancel', 'cancel', 'notify'])])
    open_ = [k]
    no_requeue = {k} if _shows_finished(ops[-1][2], ops[-1][3]) else set()
    a, b = revoking(u, d)
    during: list = []
    if restore and rng.random() < 0.7:
        during.append(restore.pop())
    if rng.random() < 0.8 or not during:
        during.append(a)
        restore.append(b)
    seq: list = []
    for ch in during:
        seq.append(ch)
        if rng.random() < 0.85:
            seq.append(['cycle'])
    for _ in range(rng.choice([0, 0, 1, 2, 3])):
        x = rng.random()
        kk = k if rng.random() < 0.6 else rng.randrange(len(plan))
        if x < 0.3:
            item = ['meth', kk, rng.choice(TASK_METHODS)]
        elif x < 0.45:
            item = ['abort', kk]
        elif x < 0.6 and kk not in no_requeue:
            item = ['requeue', kk]
        elif x < 0.72:
            item = ['cycle']
        elif x < 0.82:
            uu, dd = rng.choice(plan)
            item = [rng.choice(['queue', 'treq']), uu, spec(dd)]
        elif x < 0.92 and len(plan) > 1:
            kk = rng.choice([i for i in range(len(plan)) if i not in open_] or [k])
            item = ['begin', kk, rng.choice([c for c in FLIGHT_CALLS if c != 'requeue' or kk not in no_requeue]),
                    rng.choice(['cancel', 'notify'])]
            if kk not in open_:
                open_.append(kk)
                if _shows_finished(item[2], item[3]):
                    no_requeue.add(kk)
        else:
            item = rng.choice(list(revoke.values()))(*rng.choice(plan))[rng.choice([0, 1])]
        seq.insert(rng.randrange(len(seq) + 1), item)
    ops += seq
    rng.shuffle(open_)
    for kk in open_:
        ops.append(['end', kk])
        if rng.random() < 0.3:
            ops.append(['cycle'])
    ops.append(['cycle'])
    if rng.random() < 0.6:
        for bch in restore:
            ops.append(bch)
        ops.append(['cycle'])
        if rng.random() < 0.3:
            ops += [['search', rng.choice([0, 1, 2]), c07._recase(rng, w), 'file']]
    ops.append(['cycle'])
    return {'cap': 100, 'files': files, 'ops': ops}


def _gen_states_case(rng: random.Random) -> dict:
    """Aimed at `manage_shares_changed`: one everyone / friends / users directory each, one upload per reachable state
    and abort reason, then a configuration change and a cycle, then the change undone and a cycle."""
    common_word = rng.choice(['song', 'Song', 'LIVE', 'café', '音楽'])
    files = ['pub/' + c07._gen_name(rng, 2) + ' ' + common_word + '.mp3',
             'fr/' + common_word + ' ' + c07._gen_name(rng, 2) + '.flac',
             'us/' + c07._gen_name(rng, 1) + '_' + common_word + ' x.ogg']
    ops: list = [['friends', [0, 1]], ['share', 'pub', 'everyone', []], ['share', 'fr', 'friends', []],
                 ['share', 'us', 'users', [0, 2]]]
    recipes = [[], ['initialize'], ['initialize', 'start_transferring'], ['pause'],
               ['initialize', 'start_transferring', 'complete'], ['initialize', 'fail'], ['ABORT'],
               ['initialize', 'pause'], ['initialize', 'start_transferring', 'pause'],
               ['initialize', 'start_transferring', 'ABORT']]
    k = 0
    plan = []
    for _ in range(rng.choice([3, 4, 6])):
        u = rng.choice([0, 0, 1, 2])
        d = rng.choice(['pub', 'fr', 'us'])
        f = [x for x in files if x.startswith(d + '/')][0]
        spec = {'d': d, 'f': f[len(d) + 1:], 'var': 'exact'}
        if any(p == (u, d) for p in plan):
            continue
        plan.append((u, d))
        entitled = d == 'pub' or (d == 'fr' and u in (0, 1)) or (d == 'us' and u in (0, 2))
        ops.append([rng.choice(['queue', 'treq']), u, spec])
        if entitled:
            for m in rng.choice(recipes):
                ops.append(['abort', k] if m == 'ABORT' else ['meth', k, m])
            if rng.random() < 0.35:
                ops.append([rng.choice(['queue', 'treq']), u, spec])       # asked again, whatever its state now
            k += 1
    ops.append(['cycle'])

    def search():
        q = c07._recase(rng, common_word)
        if rng.random() < 0.3:
            q += ' ' + rng.choice(['x', 'mp3', '-flac', '*g', 'zzz'])
        return ['search', rng.choice([0, 1, 2, 2, 3]), q, rng.choice(['server', 'file', 'dist'])]

    if rng.random() < 0.7:
        ops.append(search())
    if rng.random() < 0.5:
        f = rng.choice(files)
        w = rng.choice(c07._split_words(f[f.index('/') + 1:]) or ['x'])
        ops += [['phrases', [rng.choice([w.upper() if len(w.upper()) == len(w) else w, w.lower(), w])]], search()]
    changes = [
        (['friends', [1]], ['friends', [0, 1]]),
        (['friends', []], ['friends', [0, 1, 2]]),
        (['blocked', {'0': 32}], ['blocked', {}]),
        (['blocked', {'0': 36, '2': 32}], ['blocked', {'0': 4}]),
        (['blocked', {'0': 12}], ['blocked', {}]),
        (['mode', 'pub', 'friends', []], ['mode', 'pub', 'everyone', []]),
        (['mode', 'us', 'users', [1]], ['mode', 'us', 'users', [0, 1, 2]]),
        (['mode', 'fr', 'users', []], ['mode', 'fr', 'everyone', []]),
        (['unshare', 'pub'], ['share', 'pub', 'everyone', []]),
        (['unshare', 'fr'], ['share', 'fr', 'friends', []]),
    ]
    for _ in range(rng.choice([1, 2, 3])):
        a, b = rng.choice(changes)
        x = rng.random()
        if x < 0.2:
            a2, _b2 = rng.choice(changes)
            ops += [a, a2, ['cycle']]
        elif x < 0.55:
            # `a` asks for a cycle; while that cycle is suspended at an await, `a2` (and sometimes more) arrive
            inner = [rng.choice(changes)[rng.choice([0, 0, 1])] for _ in range(rng.choice([1, 1, 2]))]
            ops += [a, ['cycle*', rng.choice(['track', 'state']), inner]]
        else:
            ops += [a, ['cycle']]
        if k and rng.random() < 0.4:
            kk = rng.randrange(k)
            ops.append(rng.choice([['abort', kk], ['requeue', kk], ['meth', kk, rng.choice(TASK_METHODS)],
                                   ['queue', plan[0][0], {'d': plan[0][1], 'f': [x for x in files if x.startswith(plan[0][1] + '/')][0][len(plan[0][1]) + 1:], 'var': 'exact'}]]))
        if rng.random() < 0.3:
            ops.append(search())
        ops += [b, ['cycle*', 'track', []] if rng.random() < 0.15 else ['cycle']]
    return {'cap': rng.choice([100, 100, 2, 1]), 'files': files, 'ops': ops}


# ------------------------------------------------------------------------------------------------
# live family: configuration through the settings, the code's own event path runs the cycles
# ------------------------------------------------------------------------------------------------

class _LiveGen:
    """Book-keeping shared by the two live generators: what the settings say now, which directories are shared, how much
    virtual time has passed since a polled list was last touched (a polled list is not changed twice within one polling
    interval — the known finding C08-settings-flip-within-poll-interval is kept out of the generated cases)."""

    def __init__(self, rng, files, dirs):
        self.rng = rng
        self.files = files
        self.dirs = dirs                     # directories a case may share
        self.ops: list = []
        self.friends: list = []
        self.blocked: dict = {}
        self.shared: dict = {}               # dir -> (mode, users), in the order of the settings
        self.since = {'f': 99.0, 'b': 99.0}  # virtual seconds since settings.users.friends / .blocked were last changed
        self.uploads: list = []              # (user, spec) in creation order (may over-count: refused requests)
        self.api_only = False
        self.flights: list = []              # uploads with a suspended state method (may over-count: refused calls)
        self.no_requeue: set = set()         # ... that shows a finished state meanwhile (see _shows_finished)
        self.p_flight = 0.0

    def wait(self, dt):
        if dt >= SETTLE:
            self.end_all()                   # a settled point: nothing is in flight
        self.ops.append(['wait', dt])
        for k in self.since:
            self.since[k] += dt

    def begin(self, k=None, what=None, phase=None):
        rng = self.rng
        if k is None:
            k = rng.randrange(min(len(self.uploads), 6)) if self.uploads else 0
        what, phase = what or rng.choice(FLIGHT_CALLS), phase or rng.choice(['cancel', 'notify'])
        if k in self.no_requeue and what == 'requeue':
            what = 'pause'
        self.ops.append(['begin', k, what, phase])
        if k not in self.flights:
            self.flights.append(k)
            if _shows_finished(what, phase):
                self.no_requeue.add(k)

    def end_all(self, keep=0):
        while len(self.flights) > keep:
            self.ops.append(['end', self.flights.pop(self.rng.randrange(len(self.flights)))])
            self.no_requeue.discard(self.ops[-1][1])

    def settle(self):
        self.wait(self.rng.choice([2.0, 2.5, 3.0]))

    def spec(self, f=None, var=None):
        rng = self.rng
        f = f or rng.choice(self.files)
        d = c07._innermost(list(self.shared), f)
        if d is None or rng.random() < 0.1:
            owners = [x for x in self.dirs if x == '.' or f.startswith(x + '/')]
            d = rng.choice(owners or self.dirs)
        rel = f if d == '.' else (f[len(d) + 1:] if f.startswith(d + '/') else os.path.basename(f))
        return {'d': d, 'f': rel, 'var': var or rng.choice(['exact'] * 8 + ['upper', 'dblsep', 'unknown'])}

    def request(self, u=None, spec=None):
        rng = self.rng
        if self.uploads and rng.random() < 0.3 and spec is None:
            u, spec = rng.choice(self.uploads)
        else:
            u = rng.randrange(3) if u is None else u
            spec = spec or self.spec()
        if spec['var'] == 'exact':
            self.uploads.append((u, spec))
        self.ops.append([rng.choice(['queue', 'queue', 'treq']), u, spec])

    def drive(self):
        rng = self.rng
        if not self.uploads:
            return self.request()
        if rng.random() < self.p_flight:
            if self.flights and rng.random() < 0.4:
                return self.end_all(len(self.flights) - 1)
            return self.begin()
        k = rng.randrange(min(len(self.uploads), 6))
        x = rng.random()
        if x < 0.6:
            self.ops.append(['meth', k, rng.choice(TASK_METHODS)])
        elif x < 0.8 or k in self.no_requeue:
            self.ops.append(['abort', k])
        else:
            self.ops.append(['requeue', k])

    def reload(self, new: dict, style=None):
        self.shared = dict(new)
        self.ops.append(['reload', [[d, m, list(us)] for d, (m, us) in new.items()],
                         style or self.rng.choice(['inplace', 'inplace', 'inplace', 'mixed', 'assign'])])

    def change(self):
        """one configuration change; through the settings unless the case manages its directories by the API"""
        rng = self.rng
        for _ in range(20):
            k = rng.random()
            if k < 0.2:
                if self.since['f'] < 1.0:
                    continue
                new = _gen_users(rng)
                if new == self.friends:
                    new = [u for u in range(3) if u not in self.friends][:2]
                self.friends = new
                self.since['f'] = 0.0
                self.ops.append(['sfriends', rng.choice(['inplace', 'inplace', 'assign']), list(new)])
                return
            if k < 0.4:
                if self.since['b'] < 1.0:
                    continue
                new = _gen_blocked(rng, self.blocked)
                if new == self.blocked:
                    continue
                self.blocked = new
                self.since['b'] = 0.0
                self.ops.append(['sblocked', rng.choice(['inplace', 'inplace', 'assign']), dict(new)])
                return
            if k < 0.45:
                self.ops.append(['scan'])
                return
            if self.api_only:
                x = rng.random()
                if x < 0.45 and self.shared:
                    d = rng.choice(sorted(self.shared))
                    m, us = _gen_mode(rng)
                    if self.shared[d][0] == 'users' and rng.random() < 0.6:
                        # the users list of a named-users directory loses / gains one user
                        m, us = 'users', self._edit_users(self.shared[d][1])
                    self.shared[d] = (m, us)
                    self.ops.append(['mode', d, m, us] + (['alias'] if rng.random() < 0.6 else []))
                elif x < 0.7 and self.shared:
                    d = rng.choice(sorted(self.shared))
                    del self.shared[d]
                    self.ops.append(['unshare', d])
                else:
                    d = rng.choice(self.dirs)
                    m, us = _gen_mode(rng)
                    if d not in self.shared:
                        self.shared[d] = (m, us)
                    self.ops.append(['share', d, m, us])
                return
            new = dict(self.shared)
            x = rng.random()
            if x < 0.3 and new:                               # a directory is dropped from the settings
                del new[rng.choice(sorted(new))]
            elif x < 0.38 and new:                            # all of them are
                new = {}
            elif x < 0.6 and new:                             # a user is taken off / put on a users list
                cands = [d for d in new if new[d][0] == 'users'] or sorted(new)
                d = rng.choice(cands)
                new[d] = ('users', self._edit_users(new[d][1] if new[d][0] == 'users' else [0, 1, 2]))
            elif x < 0.78 and new:                            # the mode changes
                d = rng.choice(sorted(new))
                new[d] = _gen_mode(rng)
            elif x < 0.95:                                    # a directory is added (sometimes re-ordered in front)
                free = [d for d in self.dirs if d not in new]
                if not free:
                    continue
                d = rng.choice(free)
                if rng.random() < 0.3:
                    new = {d: _gen_mode(rng), **new}
                else:
                    new[d] = _gen_mode(rng)
            # else: reloaded as it is
            self.reload(new)
            return

    def _edit_users(self, us):
        rng = self.rng
        us = list(us)
        if us and rng.random() < 0.65:
            us.remove(rng.choice(us))
        else:
            free = [u for u in range(3) if u not in us]
            if free:
                us.append(rng.choice(free))
                us.sort()
        return us

    def search(self):
        rng = self.rng
        f = rng.choice(self.files)
        ws = c07._split_words(os.path.basename(f)) or ['a']
        self.ops.append(['search', rng.randrange(3), c07._recase(rng, rng.choice(ws)), rng.choice(['server', 'file', 'dist'])])

    def rounds(self, n):
        """n rounds of: change(s) interleaved with requests / state methods / short waits, a settled point, sometimes the
        change undone and another settled point"""
        rng = self.rng
        for _ in range(n):
            for _ in range(rng.choice([1, 1, 1, 2, 3])):
                self.change()
                for _ in range(rng.choice([0, 0, 1, 2])):
                    x = rng.random()
                    if x < 0.3:
                        self.wait(rng.choice([0.0, 0.05, 0.3, 0.7, 1.2]))
                    elif x < 0.6:
                        self.request()
                    elif x < 0.85:
                        self.drive()
                    elif x < 0.93:
                        self.search()
                    else:
                        self.ops.append(['shares', rng.randrange(3)])
            self.settle()
            if rng.random() < 0.3:
                self.drive()

    def case(self):
        if self.flights:
            self.settle()
        return {'live': True, 'cap': self.rng.choice([100, 100, 100, 2]), 'files': self.files, 'ops': self.ops}


def _gen_live_case(rng: random.Random) -> dict:
    """random tree, 1..3 directories (often nested) shared through the settings or (1 case in 4) through the API"""
    while True:
        dirs_, files = c07._gen_tree(rng)
        files = files[:rng.choice([2, 3, 5, 8])]
        if files:
            break
    holders = sorted({'/'.join(f.split('/')[:k]) for f in files for k in range(1, f.count('/') + 1)})
    cand = holders or ['.']
    if rng.random() < 0.15:
        cand.append('.')
    rng.shuffle(cand)
    cand = cand[:4]
    g = _LiveGen(rng, files, cand)
    g.api_only = rng.random() < 0.25
    g.p_flight = rng.choice([0.0, 0.0, 0.15, 0.3])
    if rng.random() < 0.7:
        g.friends = _gen_users(rng)
        if g.friends:
            g.ops.append(['sfriends', 'assign', list(g.friends)])
    if rng.random() < 0.3:
        g.blocked = _gen_blocked(rng, {})
        g.ops.append(['sblocked', 'assign', dict(g.blocked)])
    chosen = cand[:rng.choice([1, 2, 2, 3])]
    if g.api_only:
        for d in chosen:
            m, us = _gen_mode(rng)
            g.shared[d] = (m, us)
            g.ops.append(['share', d, m, us])
    else:
        g.reload({d: _gen_mode(rng) for d in chosen}, style='assign')
    g.settle()
    for _ in range(rng.choice([1, 2, 3, 4])):
        g.request()
        if rng.random() < 0.5:
            g.drive()
    if rng.random() < 0.5:
        g.settle()
    g.rounds(rng.choice([1, 2, 2, 3]))
    return g.case()


def _gen_live_states_case(rng: random.Random) -> dict:
    """the layout of `_gen_states_case` (an everyone / friends / users directory, one upload per reachable state), the
    changes made through the settings and announced by the code itself"""
    w = rng.choice(['song', 'Song', 'LIVE', 'café'])
    files = ['pub/' + c07._gen_name(rng, 2) + ' ' + w + '.mp3', 'fr/' + w + ' ' + c07._gen_name(rng, 2) + '.flac',
             'us/' + c07._gen_name(rng, 1) + '_' + w + ' x.ogg', 'us/in/' + w + ' y.ogg']
    g = _LiveGen(rng, files, ['pub', 'fr', 'us', 'us/in'])
    g.api_only = rng.random() < 0.15
    g.p_flight = rng.choice([0.0, 0.0, 0.15, 0.3])
    g.friends = [0, 1]
    g.ops.append(['sfriends', rng.choice(['assign', 'inplace']), [0, 1]])
    base = {'pub': ('everyone', []), 'fr': ('friends', []), 'us': ('users', [0, 2])}
    if rng.random() < 0.4:
        base['us/in'] = ('users', [0, 1, 2])
    if g.api_only:
        for d, (m, us) in base.items():
            g.shared[d] = (m, us)
            g.ops.append(['share', d, m, us])
    else:
        g.reload(base, style='assign')
    g.settle()
    recipes = [[], [], ['initialize'], ['initialize', 'start_transferring'], ['pause'],
               ['initialize', 'start_transferring', 'complete'], ['initialize', 'fail'], ['ABORT'],
               ['initialize', 'start_transferring', 'pause'], ['initialize', 'start_transferring', 'ABORT']]
    k = 0
    seen = set()
    for _ in range(rng.choice([3, 4, 6])):
        u = rng.choice([0, 0, 1, 2])
        f = rng.choice(files)
        if (u, f) in seen:
            continue
        seen.add((u, f))
        d = c07._innermost(list(g.shared), f)
        m, us = g.shared[d]
        entitled = m == 'everyone' or (m == 'friends' and u in g.friends) or (m == 'users' and u in us)
        spec = {'d': d, 'f': f[len(d) + 1:], 'var': 'exact'}
        g.ops.append([rng.choice(['queue', 'treq']), u, spec])
        if entitled:
            g.uploads.append((u, spec))
            for mth in rng.choice(recipes):
                g.ops.append(['abort', k] if mth == 'ABORT' else ['meth', k, mth])
            k += 1
    g.settle()
    g.rounds(rng.choice([2, 3, 4]))
    return g.case()


def _gen_live_inflight(rng: random.Random) -> dict:
    """`_gen_live_directed` with a state method of the upload SUSPENDED (its state lock held) from before the change until
    after the poll / the management job the change leads to have had time to run"""
    return _gen_live_directed(rng, inflight=True)


def _gen_live_directed(rng: random.Random, inflight: bool = False) -> dict:
    """short histories: two or three directories, one or two uploads in a chosen state, ONE permission-revoking change
    through a chosen path (settings entry dropped / users list edited / mode changed / friends / block list / API),
    a settled point, the change undone, a settled point"""
    w = rng.choice(['one', 'Two', 'café'])
    files = ['a/x ' + w + '.mp3', 'b/y ' + w + '.mp3', 'b/in/z ' + w + '.ogg']
    u = rng.randrange(3)
    others = [x for x in range(3) if x != u]
    g = _LiveGen(rng, files, ['a', 'b', 'b/in'])
    kind = rng.choice(['drop', 'drop', 'drop-all', 'users', 'users', 'users', 'mode', 'friends', 'friends', 'blocked',
                       'api-users', 'api-users', 'api-unshare', 'api-mode'])
    g.api_only = kind.startswith('api-')
    target = rng.choice(['b', 'b', 'b/in'])
    f = 'b/y ' + w + '.mp3' if target == 'b' else 'b/in/z ' + w + '.ogg'
    tmode = {'users': ('users', sorted([u] + rng.sample(others, rng.choice([0, 1, 2])))),
             'api-users': ('users', sorted([u] + rng.sample(others, rng.choice([0, 1, 2])))),
             'friends': ('friends', [])}.get(kind, rng.choice([('everyone', []), ('users', [u]), ('friends', [])]))
    g.friends = sorted([u] + rng.sample(others, rng.choice([0, 1])))
    g.ops.append(['sfriends', rng.choice(['assign', 'inplace']), list(g.friends)])
    base = {'a': rng.choice([('everyone', []), ('friends', []), ('users', [u])]), target: tmode}
    if target == 'b/in' and rng.random() < 0.5:
        base['b'] = _gen_mode(rng)
    if rng.random() < 0.5:
        base = dict(reversed(list(base.items())))
    if g.api_only:
        for d, (m, us) in base.items():
            g.shared[d] = (m, us)
            g.ops.append(['share', d, m, list(us)])
    else:
        g.reload(base, style=rng.choice(['assign', 'inplace']))
    g.settle()
    spec = {'d': target, 'f': f[len(target) + 1:], 'var': 'exact'}
    g.ops.append([rng.choice(['queue', 'treq']), u, spec])
    g.uploads.append((u, spec))
    recipe = rng.choice([[], [], ['initialize'], ['initialize', 'start_transferring'], ['pause'],
                         ['initialize', 'start_transferring', 'pause']] +
                        ([['initialize', 'start_transferring'], ['initialize']] if inflight else []))
    for mth in recipe:
        g.ops.append(['meth', 0, mth])
    if rng.random() < 0.4:
        g.ops.append([rng.choice(['queue', 'treq']), u, {'d': 'a', 'f': 'x ' + w + '.mp3', 'var': 'exact'}])
    if rng.random() < 0.5:
        g.settle()
    if inflight:
        g.begin(0, rng.choice(_ACCEPTED[recipe[-1] if recipe else '']) if rng.random() < 0.9 else rng.choice(FLIGHT_CALLS),
                rng.choice(['cancel', 'cancel', 'notify']))
        if rng.random() < 0.2:
            g.wait(rng.choice([0.0, 0.3, 1.2]))
    before = dict(g.shared)
    style = rng.choice(['inplace', 'inplace', 'mixed', 'assign'])
    undo: list = []
    if kind == 'drop':
        g.reload({d: v for d, v in g.shared.items() if d != target}, style)
        undo = [lambda: g.reload(before, rng.choice(['inplace', 'assign']))]
    elif kind == 'drop-all':
        g.reload({}, style)
        undo = [lambda: g.reload(before, rng.choice(['inplace', 'assign']))]
    elif kind == 'users':
        new = dict(g.shared)
        new[target] = ('users', [x for x in tmode[1] if x != u])
        g.reload(new, style)
        undo = [lambda: g.reload(before, rng.choice(['inplace', 'mixed', 'assign']))]
    elif kind == 'mode':
        new = dict(g.shared)
        new[target] = rng.choice([('users', others[:1]), ('users', [])])
        g.reload(new, style)
        undo = [lambda: g.reload(before, rng.choice(['inplace', 'mixed', 'assign']))]
    elif kind == 'friends':
        old = list(g.friends)
        g.friends = [x for x in g.friends if x != u]
        g.ops.append(['sfriends', rng.choice(['inplace', 'inplace', 'assign']), list(g.friends)])
        undo = [lambda: g.ops.append(['sfriends', rng.choice(['inplace', 'assign']), old])]
    elif kind == 'blocked':
        g.blocked = {str(u): rng.choice([32, 32, 36, 63])}
        g.ops.append(['sblocked', rng.choice(['inplace', 'inplace', 'assign']), dict(g.blocked)])
        undo = [lambda: g.ops.append(['sblocked', rng.choice(['inplace', 'assign']), {}])]
    elif kind == 'api-users':
        if rng.random() < 0.5:       # the list object is known to the manager from an earlier update call
            g.ops.append(['mode', target, 'users', list(tmode[1])])
        g.ops.append(['mode', target, 'users', [x for x in tmode[1] if x != u], 'alias'])
        undo = [lambda: g.ops.append(['mode', target, 'users', list(tmode[1])] + rng.choice([[], ['alias']]))]
    elif kind == 'api-unshare':
        g.ops.append(['unshare', target])
        undo = [lambda: g.ops.append(['share', target, tmode[0], list(tmode[1])])]
    elif kind == 'api-mode':
        g.ops.append(['mode', target, 'users', others[:1]] + rng.choice([[], ['alias']]))
        undo = [lambda: g.ops.append(['mode', target, tmode[0], list(tmode[1])] + rng.choice([[], ['alias']]))]
    if inflight:
        # time for the user manager's poll and the management job to run while the lock is held (or not quite)
        w1 = rng.choice([0.0, 0.3, 1.2, 1.2, 1.5, 1.9])
        g.wait(w1)
        for _ in range(rng.choice([0, 0, 0, 1, 2])):
            g.ops.append(rng.choice(([] if 0 in g.no_requeue else [['requeue', 0]]) +
                                    [['abort', 0], ['meth', 0, rng.choice(TASK_METHODS)]]))
        if rng.random() < 0.3 and undo and w1 >= 1.0:       # (a polled list is not changed twice within one interval)
            for fn in undo:                 # the change is undone while the lock is still held
                fn()
            undo = []
            g.wait(rng.choice([0.3, 1.2, 1.5]))
        g.end_all()
    x = rng.random()
    if x < 0.2:
        g.wait(rng.choice([0.0, 0.3, 0.7]))
        g.request(u, spec)
    g.settle()
    if rng.random() < 0.75:
        for fn in undo:
            fn()
        g.settle()
    return g.case()


# ------------------------------------------------------------------------------------------------
# implementation side
# ------------------------------------------------------------------------------------------------

class _Conn:
    """Stands for the peer connection of one user: records what the managers queue / send on it."""

    def __init__(self, username):
        self.username = username
        self.hostname = '10.0.0.9'
        self.port = 2234
        self.out: list = []

    def queue_message(self, message):
        self.out.append(message)

    async def send_message(self, message):
        self.out.append(message)


class _Net:
    def __init__(self):
        self.peer: list = []          # (username, message)
        self.server: list = []

    async def send_peer_messages(self, username, *messages, **kw):
        for m in messages:
            self.peer.append((username, m))
        return [None for _ in messages]

    async def send_server_messages(self, *messages, **kw):
        self.server += list(messages)
        return [None for _ in messages]

    def queue_server_messages(self, *messages):
        self.server += list(messages)
        return []


class _LiveNet(_Net):
    """the live family runs the real UserManager: its tracking tasks get the server's AddUser answer at once"""

    async def wait_for_server_message(self, message_class, fields=None, timeout=10):
        from aioslsk.protocol import messages as M
        await asyncio.sleep(0)
        return M.AddUser.Response(username=(fields or {}).get('username', ''), exists=True, status=2)


class _ProbeQueue(asyncio.Queue):
    """TransferManager._management_queue with one observation point: `get()` returning is the instant at which
    `_management_job` wakes up and snapshots + clears the flags."""

    def __init__(self, log, maxsize=0, state=None):
        super().__init__(maxsize=maxsize)
        self._log = log
        self._state = state if state is not None else {}

    async def get(self):
        item = await super().get()
        self._log.append('job')
        self._state['woke'] = True        # until the job returns (probe around the job): the job is under way
        return item


class _Users:
    def __init__(self):
        from aioslsk.user.model import User
        self._User = User
        self.users: dict = {}

    def get_user_object(self, username):
        if username not in self.users:
            self.users[username] = self._User(name=username)
        return self.users[username]

    gate: Optional[asyncio.Future] = None      # armed by a `cycle*` op: manage_user_tracking suspends here

    async def track_user(self, username, flag):
        if self.gate is not None and not self.gate.done():
            await self.gate

    async def untrack_user(self, username, flag):
        if self.gate is not None and not self.gate.done():
            await self.gate


class _StateGate:
    """A TransferStateListener. `gate` (armed by a `cycle*` op): a state transition made by the cycle (the abort / queue
    tasks gathered by manage_shares_changed) suspends inside `Transfer.transition`. `armed` (by a `begin` op): the NEXT
    transition of that one transfer suspends there — once."""
    gate: Optional[asyncio.Future] = None

    def __init__(self):
        self.armed: dict = {}

    async def on_transfer_state_changed(self, transfer, old, new):
        fut = self.armed.pop(id(transfer), None)
        if fut is not None:
            if not fut.done():
                await fut
            return
        if self.gate is not None and not self.gate.done():
            await self.gate


async def _winding_down(gate):
    """Stands for the task of an upload (`_initialize_upload` / `_upload_file`) at the moment a state method cancels it:
    the real one handles the cancellation with `await connection.disconnect(...)` — closing the file connection takes as
    long as it takes (here: until the harness releases `gate`) — and only then ends."""
    try:
        await asyncio.get_running_loop().create_future()
    except asyncio.CancelledError:
        await gate
        raise


async def _drain():
    for _ in range(6):
        await asyncio.sleep(0)


def _run_impl(case: dict) -> dict:
    """Returns {'obs': one observation per op, 'alias': {rel: alias}}."""
    from vlib.simloop import SimLoop
    import logging
    import aioslsk.shares.manager as shm
    from aioslsk.shares.manager import SharesManager
    from aioslsk.shares.model import DirectoryShareMode
    from aioslsk.transfer.manager import TransferManager, _RequestFlag
    from aioslsk.search.manager import SearchManager
    from aioslsk.peer import PeerManager
    from aioslsk.settings import Settings
    from aioslsk.session import Session
    from aioslsk.user.model import BlockingFlag, User
    from aioslsk.events import (EventBus, MessageReceivedEvent, SessionInitializedEvent, FriendListChangedEvent,
                                BlockListChangedEvent)
    from aioslsk.exceptions import SharedDirectoryError, InvalidStateTransition
    from aioslsk.protocol import messages as M

    from contextlib import ExitStack
    from vlib.simloop import settle, patched_clock
    from aioslsk.settings import SharedDirectorySettingEntry

    logging.getLogger('aioslsk').setLevel(logging.CRITICAL)
    shm.extract_attributes = lambda filepath: []
    root = os.path.realpath(tempfile.mkdtemp(prefix='c08-'))
    loop = SimLoop()
    asyncio.set_event_loop(loop)
    obs: list = []
    live = bool(case.get('live'))
    log: list = []                 # live: 'poll' / 'job' in the order in which the real jobs ran
    job_state = {'woke': False}     # live: _management_job woke up (took the flags) and has not returned yet
    stack = ExitStack()

    def ap(rel):
        return root if rel == '.' else os.path.join(root, rel)

    def run(coro):
        return loop.run_until_complete(coro)

    try:
        for f in case['files']:
            p = ap(f)
            os.makedirs(os.path.dirname(p), exist_ok=True)
            with open(p, 'w') as fh:
                fh.write('x')
        settings = Settings(credentials={'username': 'me', 'password': 'p'})
        settings.searches.receive.max_results = case['cap']
        settings.transfers.limits.upload_slots = 0          # nothing is started: states are driven by the ops
        bus = EventBus()
        if live:
            from aioslsk.user.manager import UserManager
            stack.enter_context(patched_clock(loop))
            net = _LiveNet()
            users = UserManager(settings, bus, net)
        else:
            net = _Net()
            users = _Users()
        shares = SharesManager(settings, bus, net)
        xfer = TransferManager(settings, bus, users, shares, net)
        if live:
            xfer._management_queue = _ProbeQueue(log, maxsize=1, state=job_state)
            real_poll = users._management_task.task_coro

            async def probed_poll(context):
                log.append('poll')
                return await real_poll(context)
            users._management_task.task_coro = probed_poll
            real_job = xfer._management_task.task_coro

            async def probed_job(*a):
                try:
                    return await real_job(*a)
                finally:
                    job_state['woke'] = False
            xfer._management_task.task_coro = probed_job
        search = SearchManager(settings, bus, shares, xfer, net)
        peer = PeerManager(settings, bus, users, shares, xfer, net)
        keep = [shares, xfer, search, peer]                  # the bus holds listeners weakly
        session = Session(user=User(name='me'), ip_address='1.2.3.4', greeting='', client_version=1, minor_version=1)
        run(bus.emit(SessionInitializedEvent(session, raw_message=None)))
        if live:
            async def start_jobs():
                users._management_task.start()               # the poll of settings.users.* (every second)
                xfer._management_task.start()                # the management cycle, whenever one is requested
            run(start_jobs())
            run(settle())
            log.clear()
        elif not xfer._management_queue.empty():             # the cycle login asks for
            run(xfer._management_job())
        # alias of every directory a case may name (a pure function of the absolute path)
        names = {'.'}
        for f in case['files']:
            parts = f.split('/')
            for k in range(1, len(parts)):
                names.add('/'.join(parts[:k]))
        for op in case['ops']:
            for o2 in ([op] + list(op[2]) if op[0] == 'cycle*' else [op]):
                if o2[0] in ('share', 'unshare', 'mode'):
                    names.add(o2[1])
                if o2[0] == 'reload':
                    names.update(e[0] for e in o2[1])
            if op[0] in ('dir', 'queue', 'treq'):
                names.add(op[2]['d'])
        alias = {d: shares.generate_alias(os.path.normpath(os.path.abspath(ap(d)))) for d in sorted(names)}
        by_alias = {a: d for d, a in alias.items()}
        if len(by_alias) != len(alias):
            # generate_alias XORs the path in 5-byte chunks: 'X' and 'X/(101/(101' get one alias when the chunks line
            # up. Outside the model (assumption "no alias collision"); reported as an observation, case skipped.
            return {'SKIP': 'alias-collision', 'alias': alias}
        conns: dict[str, _Conn] = {}
        ticket = [100]

        def conn(u):
            name = USERS[u]
            if name not in conns:
                conns[name] = _Conn(name)
            return conns[name]

        def deliver(message, connection):
            run(bus.emit(MessageReceivedEvent(message=message, connection=connection)))
            run(_drain())

        def uploads():
            return [[t.username, t.remote_path, t.state.VALUE.name, t.abort_reason] for t in xfer.transfers
                    if t.is_upload()]

        def flag():
            return bool(xfer._management_flags & _RequestFlag.SHARES_CHANGE)

        def locate(remote_path: str):
            """remote path the code sent -> [dir rel, subdir, filename] via the alias table"""
            parts = remote_path.split('\\')
            d = by_alias.get(parts[0][2:]) if parts[0].startswith('@@') else None
            return [d, '/'.join(parts[1:-1]), parts[-1]]

        def listing(dds):
            return sorted([dd.name, sorted(fd.filename for fd in dd.files)] for dd in dds)

        def config_op(op):
            kind = op[0]
            if kind == 'friends':
                new = {USERS[u] for u in op[1]}
                old = set(settings.users.friends)
                settings.users.friends = set(new)
                if new != old:
                    run(bus.emit(FriendListChangedEvent(added=new - old, removed=old - new)))
                return {'changed': new != old, 'flag': flag()}
            if kind == 'blocked':
                new = {USERS[int(u)]: BlockingFlag(b) for u, b in op[1].items()}
                old = dict(settings.users.blocked)
                settings.users.blocked = dict(new)
                if new != old:
                    changes = {u: (old.get(u, BlockingFlag.NONE), new.get(u, BlockingFlag.NONE))
                               for u in set(old) | set(new) if old.get(u) != new.get(u)}
                    run(bus.emit(BlockListChangedEvent(changes=changes)))
                return {'changed': new != old, 'flag': flag()}
            if kind in ('share', 'unshare', 'mode'):
                try:
                    if kind == 'share':
                        lst = [USERS[u] for u in op[3]]

                        async def add_and_scan():
                            # one step (the inline executor never yields): the index is complete before the cycle the
                            # addition requests can run — populating the index is not part of the property
                            d = shares.add_shared_directory(ap(op[1]), share_mode=DirectoryShareMode(op[2]), users=lst)
                            await shares.scan_directory_files(d)
                            return d
                        keep.append(run(add_and_scan()))
                        passed[op[1]] = lst
                    elif kind == 'unshare':
                        keep.append(shares.remove_shared_directory(ap(op[1])))
                        passed.pop(op[1], None)
                    else:
                        if len(op) > 4 and op[4] == 'alias' and op[1] in passed:
                            # the caller edits the very list object it handed over earlier and passes it again
                            lst = passed[op[1]]
                            lst[:] = [USERS[u] for u in op[3]]
                        else:
                            lst = [USERS[u] for u in op[3]]
                        shares.update_shared_directory(ap(op[1]), share_mode=DirectoryShareMode(op[2]), users=lst)
                        passed[op[1]] = lst
                    res = 'ok'
                except SharedDirectoryError:
                    res = 'already-shared' if kind == 'share' else 'not-shared'
                return {'res': res, 'flag': flag()}
            if kind == 'sfriends':
                # settings.users.friends becomes op[2]; nothing is emitted by the harness
                new = {USERS[u] for u in op[2]}
                old = set(settings.users.friends)
                if op[1] == 'assign':
                    settings.users.friends = set(new)
                else:
                    cur = settings.users.friends
                    for x in old - new:
                        cur.discard(x)
                    for x in sorted(new - old):
                        cur.add(x)
                return {'changed': new != old, 'flag': flag()}
            if kind == 'sblocked':
                new = {USERS[int(u)]: BlockingFlag(b) for u, b in op[2].items()}
                old = dict(settings.users.blocked)
                if op[1] == 'assign':
                    settings.users.blocked = dict(new)
                else:
                    cur = settings.users.blocked
                    for x in set(old) - set(new):
                        del cur[x]
                    for x in sorted(new):
                        if old.get(x) != new[x]:
                            cur[x] = new[x]
                return {'changed': new != old, 'flag': flag()}
            if kind == 'reload':
                # settings.shares.directories becomes op[1] = [[dir, mode, users], ...] in that order, then
                # load_from_settings(), then every listed directory is scanned (as after add_shared_directory)
                entries, style = op[1], op[2]
                if len({e[0] for e in entries}) != len(entries):
                    raise ValueError(f'two settings entries for one directory: {op!r}')

                def entry(d, m, us):
                    return SharedDirectorySettingEntry(path=ap(d), share_mode=DirectoryShareMode(m),
                                                       users=[USERS[u] for u in us])
                if style == 'assign':                       # a new list of new entries
                    settings.shares.directories = [entry(*e) for e in entries]
                elif style in ('inplace', 'mixed'):         # the list object and the entries that stay are edited
                    cur = settings.shares.directories
                    want = {ap(e[0]) for e in entries}
                    have = {}
                    for e in list(cur):
                        if e.path not in want:
                            cur.remove(e)
                        else:
                            have[e.path] = e
                    for d, m, us in entries:
                        e = have.get(ap(d))
                        names_ = [USERS[u] for u in us]
                        if e is None:
                            cur.append(entry(d, m, us))
                            continue
                        if e.share_mode.value != m:
                            e.share_mode = DirectoryShareMode(m)
                        if list(e.users) != names_:
                            if style == 'inplace':          # the users list object itself is edited
                                for x in [x for x in e.users if x not in names_]:
                                    e.users.remove(x)
                                for x in names_:
                                    if x not in e.users:
                                        e.users.append(x)
                            else:
                                e.users = names_
                    order = {ap(e[0]): i for i, e in enumerate(entries)}
                    cur.sort(key=lambda e: order[e.path])
                else:
                    raise ValueError(op)
                async def load_and_scan():
                    # one step, see `share`
                    shares.load_from_settings()
                    for d in list(shares.shared_directories):
                        keep.append(d)
                        await shares.scan_directory_files(d)
                run(load_and_scan())
                return {'res': 'ok', 'flag': flag()}
            raise ValueError(f'not a configuration op: {op!r}')

        passed: dict[str, list] = {}          # the users list object handed to the shares API for each directory
        state_gate = _StateGate()
        # state methods in flight: upload index -> the suspended call that holds the state lock, the calls waiting for it
        inflight: dict[int, dict] = {}
        job = {'task': None}      # not live: the management job suspended in manage_shares_changed

        def job_pending():
            if live:
                return job_state['woke']       # (asked when the loop is quiescent: under way = waiting for a state lock)
            t = job['task']
            if t is not None and t.done():
                job['task'] = None
                t.result()
            return job['task'] is not None

        def call_of(t, what):
            if what == 'abort':
                return xfer.abort(t)
            if what == 'requeue':
                return xfer.queue(t)
            if what not in TASK_METHODS:
                raise ValueError(what)
            return getattr(t.state, what)()

        def outcome(what, task):
            exc = task.exception()
            if exc is not None:
                if isinstance(exc, InvalidStateTransition):
                    return 'refused'
                raise exc
            if what in ('abort', 'requeue'):
                return 'changed'
            return 'changed' if task.result() else 'refused'

        def call_waiting(k, t, what):
            """a call on an upload whose state lock is held: it waits"""
            task = loop.create_task(call_of(t, what))
            run(settle())
            if task.done():
                return outcome(what, task)
            inflight[k]['waiters'].append((what, task))
            return 'waiting'

        def named_upload(u, path):
            """index of the upload a peer's request names (first match, as find_transfer)"""
            for i, t in enumerate(t for t in xfer.transfers if t.is_upload()):
                if t.username == USERS[u] and t.remote_path == path:
                    return i
            return None

        def attach_gate():
            for t in xfer.transfers:
                if state_gate not in t.state_listeners:
                    t.state_listeners.append(state_gate)

        for op in case['ops']:
            kind = op[0]
            if live:
                if kind in ('cycle', 'cycle*', 'friends', 'blocked'):
                    raise ValueError(f'{kind!r} is not an op of the live family: {op!r}')
                if kind == 'wait' and op[1] >= SETTLE and inflight:
                    raise ValueError(f'harness: a settling wait with a state method in flight: {op!r}')
                live_before = uploads()
            if kind in CONFIG_OPS or kind in LIVE_CONFIG_OPS:
                obs.append(config_op(op))
            elif kind == 'scan':
                run(shares.scan())
                obs.append({})
            elif kind == 'wait':
                if not live or not (0 <= op[1] <= 60):
                    raise ValueError(op)
                run(asyncio.sleep(op[1]))
                obs.append({'idle': None})
            elif kind == 'begin':
                # a state method called on upload op[1] and SUSPENDED while it holds the upload's state lock: op[3] =
                # 'cancel': in _cancel_transfer_tasks, waiting for the upload's task it cancelled; 'notify': inside
                # Transfer.transition, after the state was replaced, while the listeners are told
                k, what, phase = op[1], op[2], op[3]
                ups = [t for t in xfer.transfers if t.is_upload()]
                prev = uploads()
                if k >= len(ups):
                    res = 'no-such-upload'
                elif k in inflight:
                    res = call_waiting(k, ups[k], what)
                else:
                    t = ups[k]
                    gate = loop.create_future()
                    fake = None
                    if phase == 'cancel':
                        if not (hasattr(t, '_transfer_task') and hasattr(t, '_transfer_task_complete')):
                            # the slot the manager keeps an upload's task in is gone (renamed): the harness cannot stand
                            # in for the task — reported as a correspondence that no longer checks, not as a violation
                            return {'SKIP': 'harness-no-task-slot', 'alias': alias}
                        if t._transfer_task is not None:
                            raise ValueError(f'harness: upload {k} has a task already')
                        fake = loop.create_task(_winding_down(gate))
                        t._transfer_task = fake
                        fake.add_done_callback(t._transfer_task_complete)     # as manage_transfers does
                        run(settle())
                    elif phase == 'notify':
                        attach_gate()
                        state_gate.armed[id(t)] = gate
                    else:
                        raise ValueError(op)
                    task = loop.create_task(call_of(t, what))
                    run(settle())
                    if task.done():
                        res = outcome(what, task)
                        state_gate.armed.pop(id(t), None)
                        if fake is not None and not fake.done():
                            fake.cancel()
                            gate.set_result(None)
                            run(settle())
                    else:
                        inflight[k] = {'gate': gate, 'task': task, 'what': what, 'waiters': [], 'phase': phase}
                        res = 'suspended'
                obs.append({'res': res, 'before': prev, 'uploads': uploads(), 'flag': flag()})
            elif kind == 'end':
                prev = uploads()
                fl = inflight.pop(op[1], None)
                results = []
                if fl is None:
                    res = 'not-in-flight'
                else:
                    fl['gate'].set_result(None)
                    run(settle())
                    tasks = [(fl['what'], fl['task'])] + fl['waiters']
                    if any(not t.done() for _, t in tasks):
                        raise RuntimeError(f'calls still waiting for the state lock of upload {op[1]} after its holder '
                                           f'was released: {[w for w, t in tasks if not t.done()]}')
                    results = [[w, outcome(w, t)] for w, t in tasks]
                    res = 'ended'
                obs.append({'res': res, 'results': results, 'before': prev, 'uploads': uploads(), 'flag': flag()})
            elif kind == 'cycle*':
                if inflight or job_pending():
                    raise ValueError(f'harness: `cycle*` with a state method in flight: {op!r}')
                # one management cycle SUSPENDED at a real await of the job (op[1] = 'track': the user-tracking calls
                # of manage_user_tracking; 'state': inside a state transition gathered by manage_shares_changed), the
                # configuration ops op[2] applied during the suspension, the gate released, then cycles until idle
                prev = uploads()
                had_flag = flag()
                ran = not xfer._management_queue.empty()
                task = None
                suspended = False
                if ran:
                    gate = loop.create_future()
                    if op[1] == 'track':
                        users.gate = gate
                    elif op[1] == 'state':
                        attach_gate()
                        state_gate.gate = gate
                    else:
                        raise ValueError(op)
                    task = loop.create_task(xfer._management_job())
                    run(_drain())
                    suspended = not task.done()
                inner = [config_op(o2) for o2 in op[2]]
                if ran:
                    if not gate.done():
                        gate.set_result(None)
                    users.gate = None
                    state_gate.gate = None
                    run(task)
                    run(_drain())
                mid = uploads()
                extra = 0
                while not xfer._management_queue.empty() and extra < 8:
                    run(xfer._management_job())
                    run(_drain())
                    extra += 1
                obs.append({'ran': ran, 'had_flag': had_flag, 'suspended': suspended, 'inner': inner, 'before': prev,
                            'mid': mid, 'uploads': uploads(), 'flag': flag(), 'extra': extra,
                            'idle': xfer._management_queue.empty()})
            elif kind == 'phrases':
                deliver(M.ExcludedSearchPhrases.Response(list(op[1])), None)
                obs.append({})
            elif kind == 'search':
                u, q, via = op[1], op[2], op[3]
                before = len(net.peer)
                ticket[0] += 1
                if via == 'server':
                    msg = M.ServerSearchRequest.Response(3, 0, USERS[u], ticket[0], q)
                elif via == 'file':
                    msg = M.FileSearch.Response(USERS[u], ticket[0], q)
                else:
                    msg = M.DistributedSearchRequest.Request(0x31, USERS[u], ticket[0], q)
                deliver(msg, conn(u) if via == 'dist' else None)
                sent = net.peer[before:]
                replies = [(to, m) for to, m in sent if isinstance(m, M.PeerSearchReply.Request)]
                if not replies:
                    obs.append({'reply': None})
                else:
                    to, m = replies[0]
                    obs.append({'reply': {'to': to, 'n': len(replies), 'ticket_ok': m.ticket == ticket[0],
                                          'vis': sorted(locate(fd.filename) for fd in m.results),
                                          'locked': sorted(locate(fd.filename) for fd in (m.locked_results or []))}})
            elif kind == 'shares':
                c = conn(op[1])
                before = len(c.out)
                deliver(M.PeerSharesRequest.Request(), c)
                out = [m for m in c.out[before:] if isinstance(m, M.PeerSharesReply.Request)]
                if not out:
                    obs.append({'reply': None})
                else:
                    obs.append({'reply': {'vis': listing(out[0].directories),
                                          'locked': listing(out[0].locked_directories or [])}})
            elif kind == 'dir':
                c = conn(op[1])
                before = len(c.out)
                req = _resolve_path(op[2], alias)
                ticket[0] += 1
                deliver(M.PeerDirectoryContentsRequest.Request(ticket[0], req), c)
                out = [m for m in c.out[before:] if isinstance(m, M.PeerDirectoryContentsReply.Request)]
                if not out:
                    obs.append({'reply': None, 'req': req})
                else:
                    obs.append({'reply': listing(out[0].directories), 'req': req, 'echo': out[0].directory})
            elif kind in ('queue', 'treq') and named_upload(op[1], _resolve_path(op[2], alias)) in inflight:
                # the request names an upload whose state lock is held: not delivered (outside the model; stated)
                obs.append({'path': _resolve_path(op[2], alias), 'reply': 'busy', 'nreplies': 0, 'before': uploads(),
                            'uploads': uploads(), 'flag': flag()})
            elif kind in ('queue', 'treq'):
                c = conn(op[1])
                before = len(c.out)
                path = _resolve_path(op[2], alias)
                prev = uploads()
                ticket[0] += 1
                if kind == 'queue':
                    deliver(M.PeerTransferQueue.Request(path), c)
                else:
                    deliver(M.PeerTransferRequest.Request(0, ticket[0], path), c)
                out = c.out[before:]
                reply: Any = None
                for m in out:
                    if isinstance(m, M.PeerTransferQueueFailed.Request):
                        reply = ['queue-failed', m.reason, m.filename == path]
                    elif isinstance(m, M.PeerTransferReply.Request):
                        reply = ['transfer-reply', m.reason, m.ticket == ticket[0], bool(m.allowed)]
                obs.append({'path': path, 'reply': reply, 'nreplies': len(out), 'before': prev, 'uploads': uploads(),
                            'flag': flag()})
            elif kind == 'cycle':
                prev = uploads()
                had_flag = flag()
                busy = job_pending()          # the management task runs one job after the other
                ran = not busy and not xfer._management_queue.empty()
                if ran and inflight:
                    # a state lock is held: the job may have to wait for it in manage_shares_changed
                    jt = loop.create_task(xfer._management_job())
                    run(settle())
                    if jt.done():
                        jt.result()
                    else:
                        job['task'] = jt
                elif ran:
                    run(xfer._management_job())
                    run(_drain())
                obs.append({'ran': ran, 'busy': busy, 'had_flag': had_flag, 'before': prev, 'uploads': uploads(),
                            'flag': flag()})
            elif kind in ('meth', 'abort', 'requeue'):
                ups = [t for t in xfer.transfers if t.is_upload()]
                prev = uploads()
                if op[1] >= len(ups):
                    res = 'no-such-upload'
                else:
                    t = ups[op[1]]
                    if kind == 'meth' and op[2] not in TASK_METHODS:
                        raise ValueError(op)
                    if op[1] in inflight:
                        res = call_waiting(op[1], t, op[2] if kind == 'meth' else kind)
                    elif kind == 'meth':
                        res = 'changed' if run(getattr(t.state, op[2])()) else 'refused'
                    else:
                        try:
                            run(xfer.abort(t) if kind == 'abort' else xfer.queue(t))
                            res = 'changed'
                        except InvalidStateTransition:
                            res = 'refused'
                    run(_drain())
                obs.append({'res': res, 'before': prev, 'uploads': uploads(), 'flag': flag()})
            else:
                raise ValueError(f'unknown op {op!r}')
            if not live:
                obs[-1]['job'] = job_pending()
                obs[-1]['inflight'] = sorted(inflight)
            if live:
                # whatever the op's real event path requested runs now (nothing here calls a cycle or a poll)
                run(settle())
                o = obs[-1]
                o['ev'] = list(log)
                log.clear()
                o.setdefault('before', live_before)
                o['uploads'] = uploads()
                o['flag'] = flag()
                if kind == 'wait':
                    o['idle'] = xfer._management_queue.empty() and not xfer._management_flags
                o['job'] = job_pending()
                o['inflight'] = sorted(inflight)
        del keep
    finally:
        stack.close()
        try:
            pending = [t for t in asyncio.all_tasks(loop) if not t.done()]
            for t in pending:
                t.cancel()
            if pending:
                loop.run_until_complete(asyncio.gather(*pending, return_exceptions=True))
        except Exception:
            pass
        asyncio.set_event_loop(None)
        try:
            loop.close()
        except Exception:
            pass
        shutil.rmtree(root, ignore_errors=True)
    return {'obs': obs, 'alias': alias}


def _eval_case(case):
    try:
        return _run_impl(case)
    except Exception as e:       # the real code raised: an observation, not a harness crash
        import traceback
        return {'EXC': f'{type(e).__name__}: {e}', 'tb': traceback.format_exc()[-1800:]}


# ------------------------------------------------------------------------------------------------
# model side
# ------------------------------------------------------------------------------------------------

_cps = c07._cps
_enc_path = c07._enc_path


def _strings(x):
    if isinstance(x, str):
        yield x
    elif isinstance(x, dict):
        for k, v in x.items():
            yield from _strings(v)
    elif isinstance(x, (list, tuple)):
        for v in x:
            yield from _strings(v)


def _model_lines(case: dict, alias: dict, obs: Optional[list] = None) -> tuple[list[str], list]:
    """live cases need `obs`: the model is fed `poll` / `cycle` where the real poll / management job ran"""
    live = bool(case.get('live'))
    chars = set('*-\\ @/.zx')
    for s in _strings([case['files'], case['ops']]):
        chars.update(s)
    for a in alias.values():
        chars.update(a)
    chars.discard('/')
    for c in list(chars):
        chars.update(c.lower())
        chars.update(c.upper() if len(c.upper()) == 1 else c)
    lines = [f'new {case["cap"]}']
    for c in sorted(chars):
        lo = c.lower()
        if len(lo) != 1:
            raise ValueError(f'character {c!r} outside the alphabet (lower() is not 1:1)')
        lines.append(f'cls {ord(c)} {int(c07._isw_re(c))} {ord(lo)} {int(c.isspace())}')
    files = ';'.join(_enc_path(f) for f in case['files']) if case['files'] else '-'
    where: list[int] = []
    friends: set = set()
    blocked: dict = {}

    def mode(m, us):
        if m == 'users':
            return 'users:' + (','.join(str(u) for u in us) if us else '-')
        return m

    def config_line(op) -> Optional[str]:
        nonlocal friends, blocked
        k = op[0]
        if k == 'friends':
            if set(op[1]) == friends:
                return None
            friends = set(op[1])
            return 'friends ' + (','.join(str(u) for u in sorted(friends)) if friends else '-')
        if k == 'blocked':
            new = {int(u): int(b) for u, b in op[1].items()}
            if new == blocked:
                return None
            blocked = new
            return 'blocked ' + (','.join(f'{u}:{b}' for u, b in sorted(blocked.items())) if blocked else '-')
        if k == 'share':
            return f'share {_enc_path(op[1])} {_cps(alias[op[1]])} {mode(op[2], op[3])} {files}'
        if k == 'unshare':
            return f'unshare {_enc_path(op[1])}'
        if k == 'mode':
            return f'mode {_enc_path(op[1])} {mode(op[2], op[3])}'
        if k == 'sfriends':
            return 'sfriends ' + (','.join(str(u) for u in sorted(set(op[2]))) if op[2] else '-')
        if k == 'sblocked':
            new = {int(u): int(b) for u, b in op[2].items()}
            return 'sblocked ' + (','.join(f'{u}:{b}' for u, b in sorted(new.items())) if new else '-')
        if k == 'reload':
            return f'reload {files}' + ''.join(f' {_enc_path(d)} {_cps(alias[d])} {mode(m, us)}' for d, m, us in op[1])
        raise ValueError(op)

    def own_line(op) -> Optional[str]:
        k = op[0]
        if k in CONFIG_OPS or k in LIVE_CONFIG_OPS:
            return config_line(op)
        if k == 'scan':
            return f'scan {files}'
        if k == 'wait':
            return None
        if k == 'phrases':
            return 'phrases ' + (';'.join(_cps(p) if p else '_' for p in op[1]) if op[1] else '-')
        if k == 'search':
            return f'search {op[1]} {_cps(op[2])}'.rstrip()
        if k == 'shares':
            return f'shares {op[1]}'
        if k == 'dir':
            return f'dir {op[1]} {_cps(_resolve_path(op[2], alias))}'.rstrip()
        if k in ('queue', 'treq'):
            return f'{k} {op[1]} {_cps(_resolve_path(op[2], alias))}'
        if k == 'meth':
            return f'meth {op[1]} {op[2]}'
        if k in ('abort', 'requeue'):
            return f'{k} {op[1]}'
        if k == 'begin':
            return f'begin {op[1]} {op[2]} {op[3]}'
        if k == 'end':
            return f'end {op[1]}'
        raise ValueError(op)

    if live:
        if obs is None:
            raise ValueError('live case: the model lines follow the observed poll / job instants')
        for i, op in enumerate(case['ops']):
            w: dict = {'own': None}
            ln = own_line(op)
            if ln is not None:
                w['own'] = len(lines)
                lines.append(ln)
            for ev in (obs[i].get('ev', []) if i < len(obs) else []):
                lines.append({'poll': 'poll', 'job': 'cycle'}[ev])
            w['show'] = len(lines)
            lines.append('show')
            where.append(w)
        return lines, where

    for op in case['ops']:
        k = op[0]
        if k in CONFIG_OPS:
            ln = config_line(op)
            if ln is None:
                where.append(-1)
            else:
                where.append(len(lines))
                lines.append(ln)
        elif k == 'cycle*':
            # the suspended job = the model's atomic `cycle` (flags snapshot + clear, manage_shares_changed) — the ops
            # applied during the suspension follow it and set the flag again — then the cycles run until idle
            w = {'first': len(lines), 'inner': []}
            lines.append('cycle')
            for o2 in op[2]:
                ln = config_line(o2)
                w['inner'].append(-1 if ln is None else len(lines))
                if ln is not None:
                    lines.append(ln)
            w['last'] = len(lines)
            lines.append('cycle')
            where.append(w)
        elif k == 'phrases':
            where.append(len(lines))
            lines.append('phrases ' + (';'.join(_cps(p) if p else '_' for p in op[1]) if op[1] else '-'))
        elif k == 'search':
            where.append(len(lines))
            lines.append(f'search {op[1]} {_cps(op[2])}'.rstrip())
        elif k == 'shares':
            where.append(len(lines))
            lines.append(f'shares {op[1]}')
        elif k == 'dir':
            where.append(len(lines))
            lines.append(f'dir {op[1]} {_cps(_resolve_path(op[2], alias))}'.rstrip())
        elif k in ('queue', 'treq'):
            where.append(len(lines))
            lines.append(f'{k} {op[1]} {_cps(_resolve_path(op[2], alias))}')
        elif k == 'cycle':
            where.append(len(lines))
            lines.append('cycle')
        elif k == 'meth':
            where.append(len(lines))
            lines.append(f'meth {op[1]} {op[2]}')
        elif k in ('abort', 'requeue'):
            where.append(len(lines))
            lines.append(f'{k} {op[1]}')
        elif k in ('begin', 'end'):
            where.append(len(lines))
            lines.append(own_line(op))
        else:
            raise ValueError(op)
    return lines, where


_ABORT_NAME = {'Requested': 'REQUESTED', 'Blocked': 'BLOCKED', 'File not shared': 'FILE_NOT_SHARED', None: '-'}
_FAIL_NAME = {'Cancelled': 'CANCELLED', 'Complete': 'COMPLETE', 'Queued': 'QUEUED', 'File not shared.': 'FILE_NOT_SHARED',
              'File read error.': 'FILE_READ_ERROR'}


def _show_uploads(o) -> str:
    ups = ' '.join(f'{USERS.index(u) if u in USERS else u}:{_cps(p)}:{st}:{_ABORT_NAME.get(r, repr(r))}'
                   for u, p, st, r in o['uploads'])
    return f'flag={int(o["flag"])}|job={int(bool(o.get("job")))}|{ups}'


def _show_ended(o) -> str:
    if o['res'] != 'ended':
        return o['res']
    return 'ended:' + ','.join('c' if r == 'changed' else 'r' for _, r in o['results'])


def _show_listing(lst) -> str:
    ents = []
    for name, files in lst:
        comps = name.split('\\')
        ents.append(f'{"/".join(_cps(c) for c in comps)}={";".join(sorted(_cps(f) for f in files))}')
    return ' '.join(sorted(ents))


def _cmp_request(k, o, m, head_only=False):
    r = o['reply']
    if r == 'busy':
        s = 'busy' if head_only else f'busy|{_show_uploads(o)}'
        return None if s == m else (s, m)
    if r is None:
        rs = '-'
    else:
        want_kind = 'queue-failed' if k == 'queue' else 'transfer-reply'
        if r[0] != want_kind or not r[2] or o['nreplies'] != 1 or (k == 'treq' and r[3]):
            return (r, f'one {want_kind} (not allowed) echoing the request')
        rs = _FAIL_NAME.get(r[1], repr(r[1]))
    s = f'reply={rs}' if head_only else f'reply={rs}|{_show_uploads(o)}'
    return None if s == m else (s, m)


def _compare(case: dict, impl: dict, out: list[str], where: list):
    """First difference between implementation and model, or None."""
    obs = impl['obs']
    for i, op in enumerate(case['ops']):
        w = where[i]
        o = obs[i] if i < len(obs) else None
        if o is None:
            return (i, 'missing impl observation', None)
        k = op[0]
        if isinstance(w, dict) and 'show' in w:
            # live family: the op's own answer, then the uploads after the polls / cycles that really ran
            if w['own'] is not None:
                m = out[w['own']]
                d = None
                if k in ('sfriends', 'sblocked', 'scan'):
                    pass
                elif k == 'reload':
                    d = None if o['res'] == m else (o['res'], m)
                elif k in ('queue', 'treq'):
                    d = _cmp_request(k, o, m.split('|', 1)[0], head_only=True)
                elif k in ('meth', 'abort', 'requeue', 'begin'):
                    d = None if o['res'] == m.split('|', 1)[0] else (o['res'], m)
                elif k == 'end':
                    d = None if _show_ended(o) == m.split('|', 1)[0] else (_show_ended(o), m)
                else:
                    d = _compare({'cap': case['cap'], 'ops': [op]}, {'obs': [o]}, [m], [0])
                    d = None if d is None else d[1:]
                if d is not None:
                    return (i, d[0], d[1])
            s_ = _show_uploads(o)
            if s_ != out[w['show']]:
                return (i, f'after the op and what it triggered {o.get("ev")}: {s_}', out[w['show']])
            if k == 'wait' and op[1] >= SETTLE and not o['idle'] and not o.get('inflight'):
                return (i, 'a management cycle is still requested after a settling wait', 'idle')
            continue
        if k == 'cycle*':
            first, last = out[w['first']], out[w['last']]
            if not o['idle']:
                return (i, 'management queue not idle after 8 more cycles', 'idle')
            mid = _show_uploads({'uploads': o['mid'], 'flag': False}).split('|', 2)[2]
            if mid != first.split('|', 2)[2]:
                return (i, 'after the suspended cycle: ' + mid, first)
            for o2, w2, ob2 in zip(op[2], w['inner'], o['inner']):
                if w2 < 0:
                    if ob2.get('changed'):
                        return (i, 'settings changed', 'harness thought not')
                elif o2[0] in ('share', 'unshare', 'mode') and ob2['res'] != out[w2]:
                    return (i, ob2['res'], out[w2])
            s_ = _show_uploads(o)
            if s_ != last:
                return (i, 'settled: ' + s_, last)
            continue
        if w < 0:
            if o.get('changed'):
                return (i, 'settings changed', 'harness thought not')
            continue
        m = out[w] if w < len(out) else '<no output>'
        if k in ('friends', 'blocked', 'phrases'):
            if m != 'ok':
                return (i, 'ok', m)
        elif k in ('share', 'unshare', 'mode'):
            if o['res'] != m:
                return (i, o['res'], m)
        elif k == 'search':
            r = o['reply']
            if r is None or m == 'none':
                if not (r is None and m == 'none'):
                    return (i, r, m)
                continue
            if not m.startswith('n='):
                return (i, r, m)
            head, rest = m.split('|vis=', 1)
            fv, fl = rest.split('|locked=', 1)
            n = int(head[2:])
            fvis = set(fv.split(' ')) if fv else set()
            flock = set(fl.split(' ')) if fl else set()
            vis = [c07._item_key(*x) if x[0] is not None else f'?{x}' for x in r['vis']]
            lock = [c07._item_key(*x) if x[0] is not None else f'?{x}' for x in r['locked']]
            if r['to'] != USERS[op[1]] or r['n'] != 1 or not r['ticket_ok']:
                return (i, r, 'one reply to the asking user with its ticket')
            if len(vis) + len(lock) != n or len(set(vis)) != len(vis) or len(set(lock)) != len(lock):
                return (i, {'vis': vis, 'locked': lock}, m)
            if not set(vis) <= fvis or not set(lock) <= flock:
                return (i, {'vis': vis, 'locked': lock}, m)
            if len(fvis) + len(flock) <= case['cap'] and (set(vis) != fvis or set(lock) != flock):
                return (i, {'vis': vis, 'locked': lock}, m)
        elif k == 'shares':
            r = o['reply']
            s = 'none' if r is None else f'vis={_show_listing(r["vis"])}|locked={_show_listing(r["locked"])}'
            if s != m:
                return (i, s, m)
        elif k == 'dir':
            r = o['reply']
            if r is None:
                s = 'none'
            elif not r:
                s = 'empty'
            else:
                if len(r) != 1 or r[0][0] != o['req'] or o.get('echo') != o['req']:
                    return (i, r, 'one entry named like the request')
                s = ';'.join(sorted(_cps(f) for f in r[0][1]))
            if s != m:
                return (i, s, m)
        elif k in ('queue', 'treq'):
            d = _cmp_request(k, o, m)
            if d is not None:
                return (i, d[0], d[1])
        elif k == 'cycle':
            s = ('busy|' if o.get('busy') else '') + _show_uploads(o)
            if s != m:
                return (i, s, m)
        elif k in ('meth', 'abort', 'requeue', 'begin'):
            s = f'{o["res"]}|{_show_uploads(o)}'
            if s != m:
                return (i, s, m)
        elif k == 'end':
            s = f'{_show_ended(o)}|{_show_uploads(o)}'
            if s != m:
                return (i, s, m)
    return None


# ------------------------------------------------------------------------------------------------
# monitor: the property statement from the harness's own book-keeping
# ------------------------------------------------------------------------------------------------

class _Truth:
    """What the harness did: files on disk, settings applied, directories shared (with mode)."""

    def __init__(self, case, alias):
        self.files = list(case['files'])
        self.alias = alias
        self.friends: set = set()
        self.blocked: dict = {}
        self.shared: dict[str, tuple] = {}
        self.phrases: list[str] = []

    def is_blocked(self, u: int, flag: int) -> bool:
        return bool(self.blocked.get(u, 0) & flag)

    def owner(self, f: str) -> Optional[str]:
        return c07._innermost(list(self.shared), f)

    def locked(self, d: str, u: int) -> bool:
        m, us = self.shared[d]
        if m == 'friends':
            return u not in self.friends
        if m == 'users':
            return u not in us
        return False

    def remote_path(self, f: str) -> Optional[str]:
        d = self.owner(f)
        if d is None:
            return None
        rel = f if d == '.' else f[len(d) + 1:]
        return '\\'.join(['@@' + self.alias[d]] + rel.split('/'))

    def file_of(self, remote_path: str) -> Optional[str]:
        for f in self.files:
            if self.remote_path(f) == remote_path:
                return f
        return None

    def entitled(self, u: int, f: str) -> bool:
        d = self.owner(f)
        return d is not None and not self.locked(d, u)

    def permitted(self, u: int, remote_path: str) -> tuple[bool, str]:
        """may `u` be served `remote_path` now? (False, 'Blocked' | 'File not shared')"""
        if self.is_blocked(u, F_UPLOADS):
            return False, 'Blocked'
        f = self.file_of(remote_path)
        if f is None or not self.entitled(u, f):
            return False, 'File not shared'
        return True, ''


def _abs_file(t: _Truth, loc) -> Optional[str]:
    d, sub, name = loc
    if d is None:
        return None
    parts = ([] if d == '.' else [d]) + ([sub] if sub else []) + [name]
    return '/'.join(parts)


def _monitor(case: dict, impl: dict) -> list[Violation]:
    if 'SKIP' in impl:
        return []
    if 'EXC' in impl:
        return [Violation('C08-impl-error', 'a manager raised: ' + impl['EXC'], case, observed=impl.get('tb'))]
    vs: list[Violation] = []
    dir_vs: list[Violation] = []      # the known finding: recorded once, does not end the monitoring of the case
    t = _Truth(case, impl['alias'])
    obs = impl['obs']
    live = bool(case.get('live'))
    changed_since_cycle = False
    # uploads the USER aborted (harness book-keeping of its own `abort` / `requeue` ops, not the reason the code stores)
    user_aborted: set = set()
    # live family: uploads acted upon (requests, state methods, user abort / re-queue) since the last configuration change:
    # their state at the next settled point is the result of those later actions, the reconcile clause does not judge them
    touched: set = set()
    touched_settle: set = set()       # ... and since the last settled point
    settled: list = []                # live family: the uploads at the last settled point
    # live family: what the user manager's last poll saw (known finding C08-settings-flip-within-poll-interval)
    polled = {'friends': set(), 'blocked': {}}
    flipped: list = []
    # a cycle started after a change while a state method was in flight (its lock held) and its own transitions have to
    # wait for that lock, the job with them: the uploads are judged when the JOB IS OVER (the reading: "after a settled
    # management cycle") — against the uploads as they were before that cycle; uploads the harness acted upon AFTER the
    # cycle started are left to those actions. (A job that does not have to wait is over at once and judged at once, on
    # what the uploads show then — whatever is still in flight.)
    deferred: Optional[dict] = None
    touched_after: set = set()
    # known finding (proposed) C08-requeue-behind-state-lock-not-reevaluated: calls that WAITED for an upload's state lock
    # while a management job evaluated that upload (on the state it showed then) and changed it afterwards
    waiting_since: dict = {}          # upload key -> [op index at which a call started to wait]
    last_eval = -1                    # op index of the last evaluation by a management job
    ran_late: set = set()

    def uname(u):
        return USERS[u]

    def eff(v):
        """what entitlement depends on: the mode, and the users list of a named-users directory"""
        return None if v is None else (v[0], sorted(v[1]) if v[0] == 'users' else None)

    def apply_truth(op, o) -> bool:
        """book-keeping of one configuration op; True when it changed something"""
        k = op[0]
        if k in ('friends', 'sfriends'):
            new = set(op[1] if k == 'friends' else op[2])
            ch = new != t.friends
            if k == 'sfriends' and ch and new == polled['friends']:
                flipped.append('friends')
            t.friends = new
            return ch
        if k in ('blocked', 'sblocked'):
            new = {int(u): int(b) for u, b in (op[1] if k == 'blocked' else op[2]).items()}
            ch = new != t.blocked
            if k == 'sblocked' and ch and new == polled['blocked']:
                flipped.append('blocked')
            t.blocked = new
            return ch
        if k == 'reload':
            new = {d: (m, list(us)) for d, m, us in op[1]}
            ch = {d: eff(v) for d, v in new.items()} != {d: eff(v) for d, v in t.shared.items()}
            t.shared = new
            return ch
        if o['res'] != 'ok':
            return False
        old = t.shared.get(op[1])
        if k == 'unshare':
            t.shared.pop(op[1], None)
        else:
            t.shared[op[1]] = (op[2], list(op[3]))
        # a call that leaves mode and users as they were is not a change of the shared directories (whether the code
        # announces it all the same is its own business)
        return eff(t.shared.get(op[1])) != eff(old)

    def reconcile_violation(sig, what, observed, required):
        if (observed[0], observed[1]) in ran_late and sig == 'C08-not-aborted':
            sig = 'C08-requeue-behind-state-lock-not-reevaluated'
            what += (' [a call that waited for the upload\'s state lock while the management job evaluated the upload — on '
                     'the state it showed then — changed it afterwards; nothing evaluates it again]')
        if flipped:
            sig = 'C08-settings-flip-within-poll-interval'
            what += (f' [settings.users.{flipped[0]} was changed and changed back to what the user manager last polled '
                     f'within one polling interval: the change was never announced]')
        vs.append(Violation(sig, what, case, observed=observed, required=required))

    def judge(tag, o, before_list=None, skip=()):
        """clause (4) at a settled point: `o['before']` -> `o['uploads']` against the configuration now"""
        before = {(a, p): (st, r) for a, p, st, r in (o['before'] if before_list is None else before_list)}
        for a, p, st, r in o['uploads']:
            if (a, p) in user_aborted or (a, p) in skip:
                continue                                  # aborted on the user's request: checked for every op
            bst, br = before.get((a, p), ('new' if before_list is not None else None, None))
            if bst in ('COMPLETE', 'FAILED', 'VIRGIN', None) or (before_list is not None and st in ('COMPLETE', 'FAILED', 'VIRGIN')):
                continue
            u = USERS.index(a)
            ok, why = t.permitted(u, p)
            if not ok:
                if st != 'ABORTED':
                    reconcile_violation('C08-not-aborted',
                                        f'{tag}: after the management cycle the upload of {p!r} to {a} is {st} although: '
                                        f'{why}', [a, p, st, r], [a, p, 'ABORTED', why])
                elif r != why:
                    reconcile_violation('C08-wrong-abort-reason',
                                        f'{tag}: the upload of {p!r} to {a} is ABORTED with reason {r!r}, expected {why!r}',
                                        [a, p, st, r], [a, p, 'ABORTED', why])
            elif bst == 'ABORTED' and (a, p) in touched_settle:
                # re-queued by an earlier cycle and driven on since: only "not aborted any more" is demanded
                if st == 'ABORTED':
                    reconcile_violation('C08-not-requeued',
                                        f'{tag}: the upload of {p!r} to {a} was aborted for {br!r}, is permitted again '
                                        f'and is still ABORTED ({r!r})', [a, p, st, r], [a, p, 'QUEUED', None])
            elif bst == 'ABORTED':
                if st != 'QUEUED':
                    reconcile_violation('C08-not-requeued',
                                        f'{tag}: the upload of {p!r} to {a} was aborted for {br!r}, is permitted again '
                                        f'and is {st} ({r!r}) after the management cycle', [a, p, st, r], [a, p, 'QUEUED', None])
            elif st == 'ABORTED':
                reconcile_violation('C08-aborted-although-permitted',
                                    f'{tag}: the upload of {p!r} to {a} was {bst}, is permitted and was aborted ({r!r})',
                                    [a, p, st, r], [a, p, bst, None])
            if vs:
                break

    def key_of(o, k):
        """(user, path) of the k-th upload"""
        ups = o.get('uploads') or []
        return (ups[k][0], ups[k][1]) if 0 <= k < len(ups) else None

    for i, op in enumerate(case['ops']):
        if vs:
            break
        o = obs[i] if i < len(obs) else None
        if o is None:
            break
        k = op[0]
        tag = f'op #{i} {json.dumps(op)[:120]}'
        # uploads aborted on the user's request stay aborted whatever anybody else does — until the user queues them again
        if 'uploads' in o:
            now = {(u, p): (st, r) for u, p, st, r in o['uploads']}
            mine = key_of(o, op[1]) if k in ('abort', 'requeue', 'meth', 'begin', 'end') else None
            if k in ('meth', 'abort', 'requeue', 'begin') and o.get('res') == 'waiting' and mine is not None:
                waiting_since.setdefault(mine, []).append(i)
            if k == 'end' and mine is not None:
                issued = waiting_since.pop(mine, [])
                late = False
                for (what, res), at in zip(o.get('results', [])[1:], issued):
                    if res == 'changed' and at <= last_eval:
                        ran_late.add(mine)
                        late = True
                if late and not live and not changed_since_cycle and deferred is None and not o.get('flag'):
                    # every change has had its cycle, the job is over, no cycle is requested — and this upload was
                    # changed after the job looked at it
                    st_, r_ = now.get(mine, (None, None))
                    ok_, why_ = t.permitted(USERS.index(mine[0]), mine[1])
                    if not ok_ and st_ not in ('ABORTED', 'COMPLETE', 'FAILED', None):
                        reconcile_violation('C08-not-aborted',
                                            f'{tag}: the upload of {mine[1]!r} to {mine[0]} is {st_} although: {why_}',
                                            [mine[0], mine[1], st_, r_], [mine[0], mine[1], 'ABORTED', why_])
                # the suspended call and the calls that waited behind it have run: the user's own among them count now
                for what, res in o.get('results', []):
                    if res == 'changed' and what == 'abort':
                        user_aborted.add(mine)
                    elif res == 'changed' and what == 'requeue':
                        user_aborted.discard(mine)
            if k == 'begin' and op[2] == 'requeue' and o.get('res') in ('changed', 'suspended') and mine is not None:
                user_aborted.discard(mine)      # the user's re-queue is under way: the state shows QUEUED already
            if (k == 'begin' and op[2] == 'abort' and o.get('res') in ('changed', 'suspended') and mine is not None
                    and now.get(mine, (None, None))[0] == 'ABORTED'):
                user_aborted.add(mine)          # the user's abort: the state shows ABORTED already (listeners being told)
            for key in sorted(user_aborted):
                if k == 'requeue' and key == mine:
                    continue
                if now.get(key, (None, None))[0] != 'ABORTED':
                    vs.append(Violation('C08-user-aborted-upload-queued-again',
                                        f'{tag}: the upload of {key[1]!r} to {key[0]} was aborted on the user\'s request '
                                        f'and is now {now.get(key)} although the user did not queue it again', case,
                                        observed=o['uploads'], required=[key[0], key[1], 'ABORTED']))
                    break
            if k == 'abort' and o.get('res') == 'changed' and mine is not None:
                user_aborted.add(mine)
            elif k == 'requeue' and o.get('res') == 'changed' and mine is not None:
                user_aborted.discard(mine)
            acted = mine if k in ('abort', 'requeue', 'meth', 'begin') else \
                (uname(op[1]), o['path']) if k in ('queue', 'treq') and o.get('reply') != 'busy' else None
            if acted is not None:
                # (`end` is not an action: the calls it lets run were made earlier)
                touched.add(acted)
                if live:
                    touched_settle.add(acted)
                if deferred is not None:
                    touched_after.add(acted)
        if vs:
            break
        if live:
            for ev in o.get('ev', []):
                if ev == 'poll':
                    polled['friends'] = set(t.friends)
                    polled['blocked'] = dict(t.blocked)
                elif ev == 'job':
                    last_eval = i
        elif k == 'cycle' and o.get('ran'):
            last_eval = i
        if k in LIVE_CONFIG_OPS:
            if apply_truth(op, o):
                changed_since_cycle = True
                touched.clear()
        elif k == 'wait':
            if op[1] >= SETTLE:
                # a settled point of the live family: every change made so far has been announced by the code's own
                # event path (or never will be) and the cycles it requested have run
                if changed_since_cycle and not o.get('inflight'):
                    judge(tag + ' [settled]', o, before_list=settled, skip=touched)
                changed_since_cycle = False
                touched.clear()
                touched_settle.clear()
                settled = list(o['uploads'])
        elif k == 'scan':
            pass
        elif k in CONFIG_OPS:
            if apply_truth(op, o):
                changed_since_cycle = True
                touched.clear()
        elif k == 'phrases':
            t.phrases = list(op[1])
        elif k == 'search':
            r = o['reply']
            if r is None:
                continue
            u = op[1]
            if t.is_blocked(u, F_SEARCHES):
                vs.append(Violation('C08-search-reply-to-blocked',
                                    f'{tag}: a search reply was sent although {uname(u)} is blocked for searches', case,
                                    observed=r))
                break
            if r['to'] != uname(u):
                vs.append(Violation('C08-search-reply-wrong-user', f'{tag}: the reply went to {r["to"]}', case, observed=r))
                break
            for part in ('vis', 'locked'):
                for loc in r[part]:
                    f = _abs_file(t, loc)
                    qp = '\\'.join(([loc[1].replace('/', '\\')] if loc[1] else []) + [loc[2]])
                    for ph in t.phrases:
                        if ph.lower() in qp.lower():
                            vs.append(Violation('C08-search-excluded-phrase',
                                                f'{tag}: the reply lists {qp!r} which contains the excluded phrase {ph!r}',
                                                case, observed=r, required=f'no path containing {ph.lower()!r}'))
                            break
                    if vs:
                        break
                    if part == 'vis' and (f is None or f not in t.files or not t.entitled(u, f)):
                        vs.append(Violation('C08-search-visible-locked',
                                            f'{tag}: {loc} is listed as a normal result for {uname(u)} who is not '
                                            f'entitled to it', case, observed=r))
                        break
                if vs:
                    break
        elif k == 'shares':
            r = o['reply']
            if r is None:
                continue
            u = op[1]
            by_alias = {a: d for d, a in t.alias.items()}
            for name, files in r['vis']:
                parts = name.split('\\')
                d = by_alias.get(parts[0][2:])
                for fn in files:
                    f = _abs_file(t, [d, '/'.join(parts[1:]), fn])
                    if f is None or f not in t.files or not t.entitled(u, f):
                        vs.append(Violation('C08-shares-visible-locked',
                                            f'{tag}: {name}\\{fn} is listed as a normal share for {uname(u)} who is not '
                                            f'entitled to it', case, observed=r['vis']))
                        break
                if vs:
                    break
        elif k == 'dir':
            r = o['reply']
            if not r:
                continue
            u = op[1]
            by_alias = {a: d for d, a in t.alias.items()}
            for name, files in r:
                parts = name.split('\\')
                d = by_alias.get(parts[0][2:]) if parts[0].startswith('@@') else None
                for fn in files:
                    f = _abs_file(t, [d, '/'.join(parts[1:]), fn])
                    if (f is None or f not in t.files or not t.entitled(u, f)) and not dir_vs:
                        dir_vs.append(Violation('C08-directory-reply-ignores-lock',
                                                f'{tag}: the directory listing sent to {uname(u)} names {name}\\{fn} as a '
                                                f'normal file although its directory is not shared with that user', case,
                                                observed=r))
        elif k in ('queue', 'treq'):
            u, path = op[1], o['path']
            before = {(a, p): st for a, p, st, _ in o['before']}
            for a, p, st, r in o['uploads']:
                if (a, p) != (uname(u), path):
                    continue
                was = before.get((a, p))
                if was is None or (st == 'QUEUED' and was != 'QUEUED'):
                    ok, why = t.permitted(u, path)
                    if not ok:
                        what = 'created' if was is None else f'put back from {was} to QUEUED'
                        vs.append(Violation('C08-upload-admitted-not-entitled',
                                            f'{tag}: an upload of {path!r} to {uname(u)} was {what} although: {why}',
                                            case, observed=o['uploads'], required='no such upload'))
        elif k == 'cycle':
            if not changed_since_cycle or o.get('busy'):
                pass                  # (busy: the job of an earlier cycle is still waiting for a state lock, nothing ran)
            elif o.get('job'):
                # the job waits for a state lock in manage_shares_changed: judged when it is over
                changed_since_cycle = False
                if deferred is None:
                    deferred = {'before': list(o['before']), 'tag': tag}
                    touched_after = set()
            else:
                # the settings / shares changed since the last cycle: every such change requests a cycle, so one ran now
                # (if none was requested the uploads are judged all the same — nothing will ever reconcile them)
                changed_since_cycle = False
                if deferred is not None:
                    judge(deferred['tag'] + ' … ' + tag, o, before_list=deferred['before'], skip=touched_after)
                    deferred = None
                else:
                    judge(tag, o)
        elif k == 'cycle*':
            # a cycle suspended at one of its awaits, configuration changes during the suspension, cycles until idle:
            # at this settled point clause (4) holds against the configuration as it is NOW
            for o2, ob2 in zip(op[2], o['inner']):
                if apply_truth(o2, ob2):
                    changed_since_cycle = True
            if not changed_since_cycle:
                continue
            changed_since_cycle = False
            judge(tag + (' [suspended]' if o['suspended'] else ''), o)
        if deferred is not None and not live and not changed_since_cycle and not o.get('job', True) and not vs:
            # the job that waited is over, no change is waiting for a cycle
            judge(deferred['tag'] + f' … [the job is over at op #{i}]', o, before_list=deferred['before'],
                  skip=touched_after)
            deferred = None
    return vs + dir_vs


# ------------------------------------------------------------------------------------------------
# witnesses
# ------------------------------------------------------------------------------------------------

# fixed by fixes/C08-excluded-phrase-case.patch: a phrase the server sends in upper case is never excluded
W_PHRASE = {'cap': 100, 'files': ['m/Simple Band - song.mp3', 'm/other song.mp3'],
            'ops': [['share', 'm', 'everyone', []], ['phrases', ['SIMPLE BAND']], ['search', 0, 'song', 'server'],
                    ['phrases', ['simple band']], ['search', 0, 'song', 'file']]}
# known finding: the directory listing of a friends-only directory is sent to anybody
W_DIRREPLY = {'cap': 100, 'files': ['priv/Live/secret song.mp3', 'pub/a.mp3'],
              'ops': [['friends', [0]], ['share', 'priv', 'friends', []], ['share', 'pub', 'everyone', []],
                      ['dir', 1, {'d': 'priv', 'f': 'Live', 'var': 'exact'}],
                      ['dir', 0, {'d': 'priv', 'f': 'Live', 'var': 'exact'}],
                      ['shares', 1]]}
W_RECONCILE = {'cap': 100, 'files': ['fr/x one.mp3', 'pub/y two.mp3'],
               'ops': [['friends', [0]], ['share', 'fr', 'friends', []], ['share', 'pub', 'everyone', []], ['cycle'],
                       ['queue', 0, {'d': 'fr', 'f': 'x one.mp3', 'var': 'exact'}],
                       ['queue', 1, {'d': 'fr', 'f': 'x one.mp3', 'var': 'exact'}],
                       ['treq', 1, {'d': 'pub', 'f': 'y two.mp3', 'var': 'exact'}],
                       ['queue', 2, {'d': 'pub', 'f': 'y two.mp3', 'var': 'upper'}],
                       ['meth', 0, 'initialize'], ['abort', 1],
                       ['friends', []], ['blocked', {'1': 32}], ['cycle'],
                       ['queue', 0, {'d': 'fr', 'f': 'x one.mp3', 'var': 'exact'}],
                       ['friends', [0]], ['blocked', {}], ['cycle'], ['requeue', 1], ['cycle']]}
# a second change raised while the cycle asked for by the first one is suspended must still be seen by a cycle
W_SUSPENDED = {'cap': 100, 'files': ['pub/a one.mp3', 'pub/b two.mp3'],
               'ops': [['share', 'pub', 'everyone', []], ['cycle'],
                       ['queue', 0, {'d': 'pub', 'f': 'a one.mp3', 'var': 'exact'}],
                       ['queue', 1, {'d': 'pub', 'f': 'b two.mp3', 'var': 'exact'}], ['cycle'],
                       ['blocked', {'0': 32}], ['cycle*', 'track', [['blocked', {'0': 32, '1': 32}]]],
                       ['blocked', {'1': 32}], ['cycle*', 'state', [['blocked', {}]]]]}
# live family. (1) a directory is dropped from the settings while the other one stays as it is; (2) a user is taken off
# a users list IN PLACE (the settings entry's list is the list object the SharedDirectory holds) — both followed by
# load_from_settings(); (3) the same through the API with the caller's own list object; (4) friends / block list edited
# in place and announced by the user manager's poll; (5) fixed by fixes/C08-reload-announces-removed.patch: every
# directory dropped from the settings
_SA = {'d': 'a', 'f': 'x one.mp3', 'var': 'exact'}
_SB = {'d': 'b', 'f': 'y two.mp3', 'var': 'exact'}
W_LIVE_DROP = {'live': True, 'cap': 100, 'files': ['a/x one.mp3', 'b/y two.mp3'],
               'ops': [['reload', [['a', 'everyone', []], ['b', 'everyone', []]], 'assign'], ['wait', 2.0],
                       ['queue', 1, _SB], ['meth', 0, 'initialize'], ['queue', 1, _SA], ['wait', 2.0],
                       ['reload', [['a', 'everyone', []]], 'inplace'], ['wait', 2.0],
                       ['reload', [['a', 'everyone', []], ['b', 'everyone', []]], 'inplace'], ['wait', 2.0]]}
W_LIVE_USERS = {'live': True, 'cap': 100, 'files': ['a/x one.mp3', 'b/y two.mp3'],
                'ops': [['reload', [['a', 'everyone', []], ['b', 'users', [0, 1]]], 'assign'], ['wait', 2.0],
                        ['queue', 1, _SB], ['treq', 0, _SB], ['meth', 0, 'initialize'], ['wait', 2.0],
                        ['reload', [['a', 'everyone', []], ['b', 'users', [0]]], 'inplace'], ['wait', 2.0],
                        ['reload', [['a', 'everyone', []], ['b', 'users', [0, 1]]], 'inplace'], ['wait', 2.0],
                        ['reload', [['a', 'everyone', []], ['b', 'users', []]], 'inplace'], ['wait', 2.0]]}
W_LIVE_ALIAS = {'live': True, 'cap': 100, 'files': ['a/x one.mp3', 'b/y two.mp3'],
                'ops': [['share', 'b', 'users', [0, 1]], ['wait', 2.0], ['queue', 1, _SB], ['wait', 2.0],
                        ['mode', 'b', 'users', [0], 'alias'], ['wait', 2.0],
                        ['mode', 'b', 'users', [0, 1], 'alias'], ['wait', 2.0]]}
W_LIVE_POLL = {'live': True, 'cap': 100, 'files': ['a/x one.mp3', 'b/y two.mp3'],
               'ops': [['sfriends', 'assign', [0, 1]], ['reload', [['a', 'everyone', []], ['b', 'friends', []]], 'assign'],
                       ['wait', 2.0], ['queue', 1, _SB], ['queue', 0, _SA], ['wait', 2.0],
                       ['sfriends', 'inplace', [0]], ['wait', 0.3], ['treq', 1, _SB], ['wait', 2.0],
                       ['sblocked', 'inplace', {'0': 32}], ['sfriends', 'inplace', [0, 1]], ['wait', 2.0],
                       ['sblocked', 'inplace', {}], ['wait', 2.0]]}
W_LIVE_DROP_ALL = {'live': True, 'cap': 100, 'files': ['a/x one.mp3', 'b/y two.mp3'],
                   'ops': [['reload', [['b', 'everyone', []]], 'assign'], ['wait', 2.0], ['queue', 1, _SB], ['wait', 2.0],
                           ['reload', [], 'inplace'], ['wait', 2.0]]}
# known finding (proposed): a polled setting changed and changed back within one polling interval
W_FLIP = {'live': True, 'cap': 100, 'files': ['a/x one.mp3', 'b/y two.mp3'],
          'ops': [['reload', [['b', 'friends', []]], 'assign'], ['wait', 2.0],
                  ['sfriends', 'inplace', [1]], ['wait', 0.3], ['queue', 1, _SB], ['wait', 0.3],
                  ['sfriends', 'inplace', []], ['wait', 2.0]]}
# state methods in flight. (1) a block while the upload is being paused (pause() waits for the upload's task to close its
# file connection): the cycle's abort waits for the lock, the job with it (a second cycle request finds it busy), and
# lands after the pause; then the user's own abort in flight (inside the transition) while both users are blocked;
# (2) the same with the real poll and the real management task
_PA = {'d': 'pub', 'f': 'a one.mp3', 'var': 'exact'}
_PB = {'d': 'pub', 'f': 'b two.mp3', 'var': 'exact'}
W_INFLIGHT = {'cap': 100, 'files': ['pub/a one.mp3', 'pub/b two.mp3'],
              'ops': [['share', 'pub', 'everyone', []], ['cycle'], ['queue', 0, _PA], ['queue', 1, _PB], ['cycle'],
                      ['meth', 0, 'initialize'], ['meth', 0, 'start_transferring'], ['begin', 0, 'pause', 'cancel'],
                      ['blocked', {'0': 32}], ['cycle'], ['cycle'], ['meth', 1, 'pause'], ['meth', 0, 'fail'],
                      ['end', 0], ['cycle'],
                      ['begin', 1, 'abort', 'notify'], ['blocked', {'0': 32, '1': 32}], ['cycle'], ['end', 1], ['cycle'],
                      ['blocked', {}], ['cycle']]}
W_INFLIGHT2 = {'cap': 100, 'files': ['pub/a one.mp3', 'fr/b two.mp3'],
               'ops': [['friends', [1]], ['share', 'pub', 'everyone', []], ['share', 'fr', 'friends', []], ['cycle'],
                       ['queue', 0, _PA], ['queue', 1, {'d': 'fr', 'f': 'b two.mp3', 'var': 'exact'}], ['cycle'],
                       ['meth', 0, 'initialize'], ['meth', 0, 'start_transferring'], ['meth', 1, 'initialize'],
                       ['begin', 0, 'pause', 'cancel'], ['begin', 1, 'pause', 'notify'],
                       ['blocked', {'0': 32}], ['friends', []], ['cycle'], ['requeue', 1], ['end', 1], ['end', 0],
                       ['cycle'], ['blocked', {}], ['friends', [1]], ['cycle']]}
W_LIVE_INFLIGHT = {'live': True, 'cap': 100, 'files': ['a/x one.mp3', 'b/y two.mp3'],
                   'ops': [['reload', [['a', 'everyone', []], ['b', 'everyone', []]], 'assign'], ['wait', 2.0],
                           ['queue', 1, _SB], ['meth', 0, 'initialize'], ['meth', 0, 'start_transferring'], ['wait', 2.0],
                           ['begin', 0, 'pause', 'cancel'], ['sblocked', 'inplace', {'1': 32}], ['wait', 1.5],
                           ['end', 0], ['wait', 2.0], ['sblocked', 'inplace', {}], ['wait', 2.0],
                           ['begin', 0, 'initialize', 'notify'], ['reload', [['a', 'everyone', []]], 'inplace'],
                           ['wait', 0.3], ['end', 0], ['wait', 2.0]]}
# known finding (proposed): the user's abort is through but for its listeners (the upload shows ABORTED / Requested, its
# lock is held), the user queues the upload again at once (the call waits), the friend is taken off the friends list, the
# cycle looks — aborted on the user's request, nothing to do —, the listeners return, the re-queue runs
W_STALE = {'cap': 100, 'files': ['fr/x one.mp3'],
           'ops': [['friends', [0]], ['share', 'fr', 'friends', []], ['cycle'],
                   ['queue', 0, {'d': 'fr', 'f': 'x one.mp3', 'var': 'exact'}], ['cycle'],
                   ['begin', 0, 'abort', 'notify'], ['requeue', 0], ['friends', []], ['cycle'], ['end', 0], ['cycle']]}
WITNESSES = [W_PHRASE, W_RECONCILE, W_SUSPENDED, W_LIVE_DROP, W_LIVE_USERS, W_LIVE_ALIAS, W_LIVE_POLL, W_LIVE_DROP_ALL,
             W_INFLIGHT, W_INFLIGHT2, W_LIVE_INFLIGHT]


class C08(Property):
    id = 'C08'
    props_module = 'AioslskVerif.Props.C08'
    driver_module = 'AioslskVerif.Driver.C08'
    rule = ('real temp trees of 1..12 files (names as in C07: words in mixed case with accents / CJK joined by the '
            'property\'s separators), 1..3 shared directories (often nested) x share modes everyone / friends / users, '
            'friend / user / block lists over 3 users (+ a 4th asking user), blocking flags SEARCHES / SHARES / UPLOADS and '
            'combinations, excluded-phrase lists in any letter case built from the words and path slices present; '
            'histories of up to ~35 ops: <= 6 configuration changes (friends, block list, share mode / users, unshare, '
            'share) interleaved with search requests (server / user / distributed), PeerSharesRequest, '
            'PeerDirectoryContentsRequest, PeerTransferQueue / PeerTransferRequest for shared, locked, unshared, unknown '
            'paths and case / separator variants of them, repeated requests for existing uploads, state methods driving '
            'uploads through INITIALIZING / UPLOADING / PAUSED / COMPLETE / FAILED, user abort / re-queue, and management '
            'cycles — also cycles SUSPENDED at a real await of the management job (the user-tracking calls of '
            'manage_user_tracking, or a state transition gathered by manage_shares_changed) with further configuration '
            'changes applied during the suspension, then cycles until the queue is idle. LIVE family (3 generators: random '
            'trees, the state grid, short directed histories; 900 quick / 9000 thorough): the real UserManager with its '
            'polling job and the transfer manager\'s real management task run under virtual time, the harness never calls '
            'a cycle; configuration changes go through the settings — settings.users.friends / .blocked assigned or '
            'mutated IN PLACE (announced by the user manager\'s own poll), settings.shares.directories edited (entries '
            'dropped — one, all —, added, re-ordered, mode changed, users lists assigned or mutated in place) + '
            'load_from_settings(), SharesManager.scan() — or through the shares API, update_shared_directory also with '
            'the caller\'s own, edited list object; interleaved with requests, state methods, user abort / re-queue and '
            'waits of 0 .. 3 virtual seconds; two probes (management queue get(), poll job entry) give the instants at '
            'which the real job / poll ran and the model is fed `cycle` / `poll` exactly there; judged at every wait >= 2 s. '
            'STATE METHODS IN FLIGHT (both families, plus two directed generators: 400 + 300 quick / 4000 + 3000 thorough): '
            '`begin k <pause | abort | requeue | initialize | start_transferring | complete | fail> <cancel | notify>` makes '
            'the call on upload k and SUSPENDS it while it holds the upload\'s state lock — `cancel`: in '
            '_cancel_transfer_tasks, waiting for the upload\'s task it cancelled (a stand-in task that, like _upload_file, '
            'handles its cancellation with an await: closing the file connection); `notify`: inside Transfer.transition, '
            'after the state was replaced, in a state listener — `end k` lets it go on. Meanwhile: configuration changes, '
            'management cycles (the real job run as a task: it waits in manage_shares_changed for the lock; further cycle '
            'ops find it busy), more calls on the same upload (they wait for the lock, first come first served), calls on '
            'the other uploads, other suspended calls; live: the real poll and the real management task run into the held '
            'lock on their own. The model is fed the same ops (lock holder with its suspension point, waiting calls, the '
            'job waiting). '
            'All from VERIF_SEED. Non-trivial: an upload was created, a request was refused, and a management '
            'cycle aborted or re-queued an upload; distinct = distinct canonical case')
    assumptions = [
        'alphabet as in C07 (str.lower one-to-one, self-checked); user names are non-empty and distinct; no alias '
        'collision between shared directories; files do not vanish between the scan and a request',
        'the management task is not started: `cycle` ops run the real TransferManager._management_job() when a cycle is '
        'requested; upload_slots = 0, so uploads are never started by the manager (states are driven through the real '
        'state objects) — what is sent on file connections is not observed',
        'FriendListChangedEvent / BlockListChangedEvent are emitted by the harness the way UserManager._management_job '
        'does after it noticed the settings change (the polling delay itself is not part of the property)',
        'target tree = /repo + fixes/C08-excluded-phrase-case.patch + fixes/C08-reload-announces-removed.patch',
        'state methods in flight: at most one SUSPENDED call per upload at a time (any number of waiting ones); the calls '
        'that run when a lock is released are not suspended again; a peer\'s request that names an upload whose state lock '
        'is held is not delivered (`busy` on both sides — the handlers read the state and call fail() / queue() across '
        'their own awaits: the atomicity of the handlers is not part of the model); the upload\'s task is a stand-in that '
        'only reproduces how the real one ends when cancelled (after an await); the generated cases do not put a re-queue '
        'behind the lock of an upload that SHOWS ABORTED / COMPLETE / FAILED while its listeners are still being told '
        '(known finding, proposed: C08-requeue-behind-state-lock-not-reevaluated, witness W_STALE); a cycle is judged '
        'when its job is over (the reading: after a settled management cycle)',
        'live family: a change of settings.shares.directories is complete when load_from_settings() has been called (there '
        'is no polling of that setting); add_shared_directory / load_from_settings and the scan_directory_files calls that '
        'populate the new directories are one step (the index is complete before the cycle the addition requested runs: '
        'populating the index is not a configuration change — remark: scan_directory_files alone announces nothing, an '
        'upload aborted for "File not shared" is queued again after a re-share only if the cycle runs after the scan or '
        'scan() is used); settings.shares.directories names a path at most once; the generated cases do not change a polled '
        'list (friends / blocked) twice within one polling interval (known finding C08-settings-flip-within-poll-interval, '
        'witness W_FLIP)',
    ]
    modelled = ('is_directory_locked, query (excluded phrases, visible/locked split) on the C07 query/index models, '
                'create_shares_reply, create_directory_reply, get_shared_item_cache, _query_shares_and_reply, '
                '_on_peer_shares_request, _on_peer_directory_contents_req, _on_peer_transfer_queue, '
                '_on_peer_transfer_request (upload direction), _add_upload, _evaluate_aborted_state, manage_shares_changed, '
                'the SHARES_CHANGE flag of _management_job; load_from_settings (fixed), scan, the user manager\'s polling job '
                '(UserManagementContext copies, the two events); state methods through the generated transfer table; '
                'the transfer\'s _state_lock (_with_state_lock, first come first served), the two places a state method '
                'is suspended at while holding it (_cancel_transfer_tasks, Transfer.transition), manage_shares_changed '
                'deciding on what a locked upload shows and its calls waiting for the lock, the job waiting with them; '
                'condition order, skipped / re-queued states, fail_reason_map, blocking flags per gate regenerated by AST '
                'cross-checked against a behavioural reading of the real managers (the reading itself when the source was '
                'rewritten). '
                'Not modelled: _initialize_upload/_upload_file (serving), file sizes/attributes, vanished files, '
                'alias collisions, the atomicity of _add_upload across its awaits')

    def regenerate(self):
        return [transfer_table.generate(common.REPO, common.LEAN), entitle_constants.generate(common.REPO, common.LEAN)]

    def _cases(self, seed, tier, widen):
        rng = random.Random(f'C08-{seed}')
        n = (1200 if tier == 'quick' else 12000) * widen
        cases = list(WITNESSES)
        for i in range(n):
            cases.append(_gen_states_case(rng) if i % 4 == 3 else _gen_case(rng))
        # live family (its own stream: the cases above do not depend on it)
        rng2 = random.Random(f'C08-live-{seed}')
        for i in range((900 if tier == 'quick' else 9000) * widen):
            cases.append([_gen_live_case, _gen_live_states_case, _gen_live_directed][i % 3](rng2))
        # state methods in flight (their own streams)
        rng3 = random.Random(f'C08-inflight-{seed}')
        for i in range((400 if tier == 'quick' else 4000) * widen):
            cases.append(_gen_inflight_case(rng3))
        rng4 = random.Random(f'C08-live-inflight-{seed}')
        for i in range((300 if tier == 'quick' else 3000) * widen):
            cases.append(_gen_live_inflight(rng4))
        return cases

    def correspondence(self, seed, tier, model_ok, widen=1):
        res = KResult()
        cases = self._cases(seed, tier, widen)
        cdir = common.CORPUS / 'C08'
        for p in sorted(cdir.glob('*.json')) if cdir.exists() else []:
            cases.insert(0, json.loads(p.read_text()))
        impl = common.parallel_map(_eval_case, cases, chunksize=4)
        model_out = None
        spans = []
        if model_ok:
            lines: list[str] = []
            for c, io in zip(cases, impl):
                if 'EXC' in io or 'SKIP' in io:
                    spans.append(None)
                    continue
                ls, where = _model_lines(c, io['alias'], io['obs'])
                spans.append((len(lines), len(ls), where))
                lines += ls
            model_out = common.run_driver(self.driver_file, lines)
        else:
            res.model_available = False
        for i, c in enumerate(cases):
            res.evaluations += 1
            io = impl[i]
            exc = 'EXC' in io or 'SKIP' in io
            if 'SKIP' in io:
                res.count('skipped:' + io['SKIP'])
                if io['SKIP'].startswith('harness-'):
                    res.disagreements.append(Disagreement(c, 'the harness cannot attach a stand-in for the upload\'s task',
                                                          'Transfer._transfer_task / _transfer_task_complete',
                                                          'a `begin … cancel` op'))
            res.count('ops', len(c['ops']))
            for op in c['ops']:
                res.count('op:' + op[0])
                if op[0] in ('queue', 'treq', 'dir'):
                    res.count(f'path:{op[2]["var"]}')
                if op[0] == 'phrases':
                    for ph in op[1]:
                        res.count('phrase:' + ('empty' if not ph else 'lower' if ph == ph.lower() else 'upper' if ph == ph.upper() else 'mixed'))
            if c.get('live'):
                res.count('family:live')
            if not exc:
                created = refused = cyc = 0
                for op, o in zip(c['ops'], io['obs']):
                    if c.get('live'):
                        for ev in o.get('ev', []):
                            res.count('live:' + ev)
                        if op[0] in ('reload', 'sfriends', 'sblocked'):
                            res.count(f'{op[0]}:{op[2] if op[0] == "reload" else op[1]}')
                        if op[0] == 'mode' and len(op) > 4:
                            res.count('mode:alias')
                        if 'job' in o.get('ev', []) and op[0] not in ('queue', 'treq'):
                            b = {(u, p): (st, r) for u, p, st, r in o['before']}
                            for u, p, st, r in o['uploads']:
                                if b.get((u, p)) != (st, r) and op[0] not in ('meth', 'abort', 'requeue'):
                                    cyc += 1
                                    res.count(f'live-cycle-change:{b.get((u, p), ("?",))[0]}->{st}:{r}')
                    if op[0] == 'begin':
                        res.count(f'begin:{op[2]}:{op[3]}:{o["res"]}')
                    elif op[0] == 'end':
                        res.count('end:' + ('not-in-flight' if o['res'] != 'ended' else f'{len(o["results"]) - 1}-waiters'))
                        b = {(u, p): (st, r) for u, p, st, r in o['before']}
                        for u, p, st, r in o['uploads']:
                            if b.get((u, p)) != (st, r):
                                res.count(f'end-change:{b.get((u, p), ("?",))[0]}->{st}:{r}')
                                if st == 'ABORTED' and r in ('Blocked', 'File not shared'):
                                    cyc += 1            # the cycle's own abort, run when the lock was released
                    elif op[0] in ('meth', 'abort', 'requeue') and o.get('res') == 'waiting':
                        res.count(f'waiting:{op[2] if op[0] == "meth" else op[0]}')
                    if o.get('job'):
                        res.count('job-waits-for-a-state-lock (ops)')
                    if op[0] in ('queue', 'treq') and o.get('reply') == 'busy':
                        res.count('request:busy')
                    elif op[0] in ('queue', 'treq'):
                        if len(o['uploads']) > len(o['before']):
                            created += 1
                            res.count('request:created')
                        elif o['reply'] is not None:
                            refused += 1
                            res.count('request:refused:' + str(o['reply'][1]))
                        else:
                            res.count('request:silent')
                    elif op[0] in ('cycle', 'cycle*'):
                        if op[0] == 'cycle' and o.get('busy'):
                            res.count('cycle:busy')
                            continue
                        if op[0] == 'cycle*':
                            res.count('cycle*:' + (('suspended-at-' + op[1]) if o['suspended'] else 'not-suspended')
                                      + ('+change' if any(x.get('changed') or x.get('res') == 'ok' for x in o['inner']) else ''))
                        res.count('cycle:' + ('idle' if not o['ran'] else 'shares' if o['had_flag'] else 'transfers'))
                        b = {(u, p): (st, r) for u, p, st, r in o['before']}
                        for u, p, st, r in o['uploads']:
                            if b.get((u, p)) != (st, r):
                                cyc += 1
                                res.count(f'cycle-change:{b.get((u, p), ("?",))[0]}->{st}:{r}')
                    elif op[0] == 'search':
                        r = o['reply']
                        res.count('search:' + ('none' if r is None else 'vis+locked' if r['vis'] and r['locked']
                                               else 'vis' if r['vis'] else 'locked'))
                    elif op[0] == 'dir':
                        res.count('dir:' + ('none' if o['reply'] is None else 'files' if o['reply'] and o['reply'][0][1]
                                            else 'empty'))
                if created and refused and cyc:
                    res.nontrivial_keys.add(common.sha(c))
            if model_out is not None and not exc:
                a, k, where = spans[i]
                out = model_out[a:a + k]
                res.traces_validated += 1
                diff = _compare(c, io, out, where)
                if diff is not None:
                    j, x, y = diff
                    res.disagreements.append(Disagreement(c, x, y, f'op #{j} {c["ops"][j]}'))
            res.violations += _monitor(c, io)
            if len(res.samples) < 3 and 8 < len(c['ops']) < 22 and not exc and i >= len(WITNESSES):
                res.samples.append({'case': c, 'impl': [{k: v for k, v in o.items() if k not in ('before', 'mid')} for o in io['obs']]})
        return res

    def replay(self, case):
        return _monitor(case, _eval_case(case))

    def known_witnesses(self):
        # (each is replayed only while known_findings.json lists its signature)
        return [('C08-directory-reply-ignores-lock', W_DIRREPLY), ('C08-settings-flip-within-poll-interval', W_FLIP),
                ('C08-requeue-behind-state-lock-not-reevaluated', W_STALE)]


PROPERTY = C08()
