"""C08 — files are only offered and uploaded to users entitled to them: correspondence K_C08 + monitor.

Implementation side: the REAL `SharesManager` (real temporary tree, as in props/c07.py whose alphabet, tree and
query generators are reused), the REAL `TransferManager`, `SearchManager` and `PeerManager` on one real `EventBus`
and one real `Settings`; stubs only for the network (records what is sent), the peer connections (record what is
queued / sent) and the user manager. Messages are delivered as `MessageReceivedEvent`s, configuration changes are
made the way the user manager's polling job reports them (`FriendListChangedEvent`, `BlockListChangedEvent`) or
through the shares API. The management task is not started: a `cycle` op runs the real `_management_job()` once
when a cycle has been requested, so that requests can be placed before and after it at will.

Model side: the same history through `Driver/C08.lean` (`Model/Entitle.lean` on the C07 models).
Monitor: the property statement evaluated from the harness's own book-keeping (files it put on disk, the settings it
applied), independent of the model.
"""
from __future__ import annotations

import asyncio
import json
import os
import random
import shutil
import tempfile
from typing import Any, Optional

from vlib import common
from vlib.common import KResult, Violation, Disagreement, Property
from props import c07
from translate import entitle_constants, transfer_table

USERS = ['alice', 'Bob', 'carol', 'dave']
MODES = ['everyone', 'friends', 'users']
F_SEARCHES, F_SHARES, F_UPLOADS = 4, 8, 32
FLAG_CHOICES = [32, 32, 32, 4, 4, 8, 36, 40, 12, 44, 63, 1, 16, 3]
TASK_METHODS = ['initialize', 'start_transferring', 'complete', 'fail', 'pause']
CONFIG_OPS = ('friends', 'blocked', 'share', 'unshare', 'mode')
PATH_VARIANTS = ['exact', 'exact', 'exact', 'exact', 'upper', 'lower', 'dblsep', 'fwd', 'trail', 'lead', 'noat',
                 'unknown', 'dironly']


# ------------------------------------------------------------------------------------------------
# requested remote paths: a pure function of (spec, alias map) used by both sides and the monitor
# ------------------------------------------------------------------------------------------------

def _swapcase_one(s: str) -> str:
    for i, ch in enumerate(s):
        for alt in (ch.upper(), ch.lower()):
            if alt != ch and len(alt) == 1:
                return s[:i] + alt + s[i + 1:]
    return s + 'x'


def _resolve_path(spec: dict, alias: dict) -> str:
    """spec = {'d': shared-directory rel path whose alias is used, 'f': path below it ('/'-separated), 'var'}"""
    a = alias.get(spec['d'], 'zzzzz')
    parts = [p for p in spec['f'].split('/') if p]
    exact = '\\'.join(['@@' + a] + parts)
    v = spec.get('var', 'exact')
    if v == 'exact':
        return exact
    if v == 'upper':
        r = '\\'.join(['@@' + a] + [p.upper() for p in parts])
        return r if r != exact else _swapcase_one(exact)
    if v == 'lower':
        r = '\\'.join(['@@' + a] + [p.lower() for p in parts])
        return r if r != exact else _swapcase_one(exact)
    if v == 'dblsep':
        return '@@' + a + '\\\\' + '\\'.join(parts)
    if v == 'fwd':
        return '/'.join(['@@' + a] + parts)
    if v == 'trail':
        return exact + '\\'
    if v == 'lead':
        return '\\' + exact
    if v == 'noat':
        return '\\'.join([a] + parts)
    if v == 'unknown':
        return exact + '.zzz'
    if v == 'dironly':
        return '\\'.join(['@@' + a] + parts[:-1])
    raise ValueError(v)


# ------------------------------------------------------------------------------------------------
# generator
# ------------------------------------------------------------------------------------------------

def _gen_users(rng) -> list[int]:
    return sorted(rng.sample(range(3), rng.choice([0, 1, 1, 2, 3])))


def _gen_mode(rng):
    m = rng.choice(MODES)
    return m, (_gen_users(rng) if m == 'users' else (rng.choice([[], [0], [1, 2]]) if rng.random() < 0.2 else []))


def _gen_blocked(rng, cur: dict) -> dict:
    new = dict(cur)
    for _ in range(rng.choice([1, 1, 2])):
        u = rng.randrange(3)
        if str(u) in new and rng.random() < 0.5:
            del new[str(u)]
        else:
            new[str(u)] = rng.choice(FLAG_CHOICES)
    return new


def _gen_phrases(rng, files: list[str]) -> list[str]:
    out = []
    for _ in range(rng.choice([1, 1, 2, 3])):
        r = rng.random()
        f = rng.choice(files)
        qp = f.replace('/', '\\')
        if r < 0.45:
            ws = c07._split_words(f) or ['a']
            ph = rng.choice(ws)
        elif r < 0.8:
            i = rng.randrange(len(qp))
            j = min(len(qp), i + rng.choice([2, 3, 4, 6, 9]))
            ph = qp[i:j]
        elif r < 0.95:
            ph = rng.choice(['zzz', 'qqq', 'nothing here', 'ing', 'o', '.mp3', 'MP3', ' - '])
        else:
            ph = ''
        c = rng.random()
        if c < 0.35:
            ph = ph.upper() if len(ph.upper()) == len(ph) else ph
        elif c < 0.5:
            ph = ph.lower()
        elif c < 0.7:
            ph = ''.join(ch.upper() if rng.random() < 0.5 and len(ch.upper()) == 1 else ch.lower() for ch in ph)
        out.append(ph)
    return out


def _gen_case(rng: random.Random) -> dict:
    while True:
        dirs, files = c07._gen_tree(rng)
        files = files[:rng.choice([3, 5, 8, 12])]
        if files:
            break
    # candidate shared directories: folders that (transitively) hold a file, plus sometimes the root
    holders = sorted({os.path.dirname(f) or '.' for f in files} |
                     {'/'.join(f.split('/')[:k]) for f in files for k in range(1, f.count('/') + 1)})
    cand = [d for d in holders if d != '.'] or ['.']
    if rng.random() < 0.15:
        cand.append('.')
    nshare = min(len(cand), rng.choice([1, 2, 2, 3, 3]))
    if rng.random() < 0.5 and len(cand) >= 2:
        # prefer a nested pair
        nested = [(a, b) for a in cand for b in cand if a != b and (a == '.' or b.startswith(a + '/'))]
        first = list(rng.choice(nested)) if nested else []
        rest = [d for d in cand if d not in first]
        rng.shuffle(rest)
        chosen = (first + rest)[:max(nshare, min(2, len(cand)))]
        rng.shuffle(chosen)
    else:
        chosen = rng.sample(cand, nshare)
    chosen = chosen[:3]
    ops: list = []
    shared: dict[str, Any] = {}
    friends: list[int] = _gen_users(rng)
    blocked: dict = {}
    if friends:
        ops.append(['friends', friends])
    if rng.random() < 0.4:
        blocked = _gen_blocked(rng, {})
        ops.append(['blocked', blocked])
    for d in chosen:
        m, us = _gen_mode(rng)
        ops.append(['share', d, m, us])
        shared[d] = (m, us)
    if rng.random() < 0.6:
        ops.append(['phrases', _gen_phrases(rng, files)])
    if rng.random() < 0.5:
        ops.append(['cycle'])
    uploads = 0
    nchanges = 0
    max_changes = rng.choice([1, 2, 3, 4, 6, 6])
    all_dirs = sorted(set(cand) | set(chosen))

    def pick_spec(dir_level=False):
        f = rng.choice(files)
        owners = [d for d in all_dirs if c07._under(d, os.path.dirname(f) or '.') or d == '.']
        r = rng.random()
        sh_owners = [d for d in owners if d in shared]
        if sh_owners and r < 0.75:
            d = c07._innermost(list(shared), f) if rng.random() < 0.8 else rng.choice(sh_owners)
        elif owners:
            d = rng.choice(owners)
        else:
            d = rng.choice(all_dirs)
        rel = f if d == '.' else (f[len(d) + 1:] if f.startswith(d + '/') else os.path.basename(f))
        if dir_level:
            rel = os.path.dirname(rel)
            if rng.random() < 0.15 and rel:
                rel = os.path.dirname(rel)
            var = rng.choice(['exact', 'exact', 'exact', 'exact', 'upper', 'dblsep', 'trail', 'fwd', 'unknown', 'noat'])
        else:
            var = rng.choice(PATH_VARIANTS)
        return {'d': d, 'f': rel, 'var': var}

    def gen_change():
        nonlocal friends, blocked
        k = rng.random()
        if k < 0.25:
            new = _gen_users(rng)
            if new == friends:
                new = [u for u in range(3) if u not in friends][:2]
            friends = new
            return ['friends', friends]
        if k < 0.5:
            blocked = _gen_blocked(rng, blocked)
            return ['blocked', blocked]
        if k < 0.7 and shared:
            d = rng.choice(sorted(shared))
            m, us = _gen_mode(rng)
            shared[d] = (m, us)
            return ['mode', d, m, us]
        if k < 0.85 and shared:
            d = rng.choice(sorted(shared))
            del shared[d]
            return ['unshare', d]
        d = rng.choice(all_dirs)
        m, us = _gen_mode(rng)
        if d not in shared:
            shared[d] = (m, us)
        return ['share', d, m, us]

    specs_used: list[tuple[int, dict]] = []
    n = rng.choice([6, 10, 14, 18, 24])
    for _ in range(n):
        r = rng.random()
        if r < 0.22 and nchanges < max_changes:
            nchanges += 1
            ops.append(gen_change())
            x = rng.random()
            if x < 0.3 and nchanges < max_changes:
                # a second change arrives while the cycle the first one asked for is suspended at an await
                nchanges += 1
                ops.append(['cycle*', rng.choice(['track', 'track', 'state']), [gen_change()]])
            elif x < 0.7:
                ops.append(['cycle'])
        elif r < 0.3:
            ops.append(['phrases', _gen_phrases(rng, files) if rng.random() < 0.85 else []])
        elif r < 0.42:
            under = [f for f in files if c07._innermost(list(shared), f) is not None] or files
            if rng.random() < 0.6:
                f = rng.choice(under)
                d = c07._innermost(list(shared), f)
                rel = f if d in (None, '.') else f[len(d) + 1:]
                ws = c07._split_words(rel) or ['a']
                q = ' '.join(c07._recase(rng, rng.choice(ws)) for _ in range(rng.choice([1, 1, 2])))
                if rng.random() < 0.25:
                    q = '*' + q[1:] if len(q) > 1 else q
            else:
                q = c07._gen_query(rng, under)
            ops.append(['search', rng.randrange(4 if rng.random() < 0.1 else 3), q,
                        rng.choice(['server', 'file', 'dist'])])
        elif r < 0.48:
            ops.append(['shares', rng.randrange(3)])
        elif r < 0.55:
            ops.append(['dir', rng.randrange(3), pick_spec(dir_level=True)])
        elif r < 0.78:
            u = rng.randrange(3)
            if specs_used and rng.random() < 0.4:
                u, spec = rng.choice(specs_used)          # ask again for an upload that may exist already
            else:
                spec = pick_spec()
            if spec['var'] == 'exact':
                specs_used.append((u, spec))
            ops.append([rng.choice(['queue', 'queue', 'treq']), u, spec])
            uploads += 1
        elif r < 0.88:
            ops.append(['cycle'])
        elif uploads:
            k = rng.randrange(min(uploads, 6))
            x = rng.random()
            if x < 0.55:
                ops.append(['meth', k, rng.choice(TASK_METHODS)])
            elif x < 0.8:
                ops.append(['abort', k])
            else:
                ops.append(['requeue', k])
        else:
            ops.append(['cycle'])
    ops.append(['cycle'])
    return {'cap': rng.choice([1, 2, 3, 100, 100, 100]), 'files': files, 'ops': ops}


def _gen_states_case(rng: random.Random) -> dict:
    """Aimed at `manage_shares_changed`: one everyone / friends / users directory each, one upload per reachable state
    and abort reason, then a configuration change and a cycle, then the change undone and a cycle."""
    common_word = rng.choice(['song', 'Song', 'LIVE', 'café', '音楽'])
    files = ['pub/' + c07._gen_name(rng, 2) + ' ' + common_word + '.mp3',
             'fr/' + common_word + ' ' + c07._gen_name(rng, 2) + '.flac',
             'us/' + c07._gen_name(rng, 1) + '_' + common_word + ' x.ogg']
    ops: list = [['friends', [0, 1]], ['share', 'pub', 'everyone', []], ['share', 'fr', 'friends', []],
                 ['share', 'us', 'users', [0, 2]]]
    recipes = [[], ['initialize'], ['initialize', 'start_transferring'], ['pause'],
               ['initialize', 'start_transferring', 'complete'], ['initialize', 'fail'], ['ABORT'],
               ['initialize', 'pause'], ['initialize', 'start_transferring', 'pause'],
               ['initialize', 'start_transferring', 'ABORT']]
    k = 0
    plan = []
    for _ in range(rng.choice([3, 4, 6])):
        u = rng.choice([0, 0, 1, 2])
        d = rng.choice(['pub', 'fr', 'us'])
        f = [x for x in files if x.startswith(d + '/')][0]
        spec = {'d': d, 'f': f[len(d) + 1:], 'var': 'exact'}
        if any(p == (u, d) for p in plan):
            continue
        plan.append((u, d))
        entitled = d == 'pub' or (d == 'fr' and u in (0, 1)) or (d == 'us' and u in (0, 2))
        ops.append([rng.choice(['queue', 'treq']), u, spec])
        if entitled:
            for m in rng.choice(recipes):
                ops.append(['abort', k] if m == 'ABORT' else ['meth', k, m])
            if rng.random() < 0.35:
                ops.append([rng.choice(['queue', 'treq']), u, spec])       # asked again, whatever its state now
            k += 1
    ops.append(['cycle'])

    def search():
        q = c07._recase(rng, common_word)
        if rng.random() < 0.3:
            q += ' ' + rng.choice(['x', 'mp3', '-flac', '*g', 'zzz'])
        return ['search', rng.choice([0, 1, 2, 2, 3]), q, rng.choice(['server', 'file', 'dist'])]

    if rng.random() < 0.7:
        ops.append(search())
    if rng.random() < 0.5:
        f = rng.choice(files)
        w = rng.choice(c07._split_words(f[f.index('/') + 1:]) or ['x'])
        ops += [['phrases', [rng.choice([w.upper() if len(w.upper()) == len(w) else w, w.lower(), w])]], search()]
    changes = [
        (['friends', [1]], ['friends', [0, 1]]),
        (['friends', []], ['friends', [0, 1, 2]]),
        (['blocked', {'0': 32}], ['blocked', {}]),
        (['blocked', {'0': 36, '2': 32}], ['blocked', {'0': 4}]),
        (['blocked', {'0': 12}], ['blocked', {}]),
        (['mode', 'pub', 'friends', []], ['mode', 'pub', 'everyone', []]),
        (['mode', 'us', 'users', [1]], ['mode', 'us', 'users', [0, 1, 2]]),
        (['mode', 'fr', 'users', []], ['mode', 'fr', 'everyone', []]),
        (['unshare', 'pub'], ['share', 'pub', 'everyone', []]),
        (['unshare', 'fr'], ['share', 'fr', 'friends', []]),
    ]
    for _ in range(rng.choice([1, 2, 3])):
        a, b = rng.choice(changes)
        x = rng.random()
        if x < 0.2:
            a2, _b2 = rng.choice(changes)
            ops += [a, a2, ['cycle']]
        elif x < 0.55:
            # `a` asks for a cycle; while that cycle is suspended at an await, `a2` (and sometimes more) arrive
            inner = [rng.choice(changes)[rng.choice([0, 0, 1])] for _ in range(rng.choice([1, 1, 2]))]
            ops += [a, ['cycle*', rng.choice(['track', 'state']), inner]]
        else:
            ops += [a, ['cycle']]
        if k and rng.random() < 0.4:
            kk = rng.randrange(k)
            ops.append(rng.choice([['abort', kk], ['requeue', kk], ['meth', kk, rng.choice(TASK_METHODS)],
                                   ['queue', plan[0][0], {'d': plan[0][1], 'f': [x for x in files if x.startswith(plan[0][1] + '/')][0][len(plan[0][1]) + 1:], 'var': 'exact'}]]))
        if rng.random() < 0.3:
            ops.append(search())
        ops += [b, ['cycle*', 'track', []] if rng.random() < 0.15 else ['cycle']]
    return {'cap': rng.choice([100, 100, 2, 1]), 'files': files, 'ops': ops}


# ------------------------------------------------------------------------------------------------
# implementation side
# ------------------------------------------------------------------------------------------------

class _Conn:
    """Stands for the peer connection of one user: records what the managers queue / send on it."""

    def __init__(self, username):
        self.username = username
        self.hostname = '10.0.0.9'
        self.port = 2234
        self.out: list = []

    def queue_message(self, message):
        self.out.append(message)

    async def send_message(self, message):
        self.out.append(message)


class _Net:
    def __init__(self):
        self.peer: list = []          # (username, message)
        self.server: list = []

    async def send_peer_messages(self, username, *messages, **kw):
        for m in messages:
            self.peer.append((username, m))
        return [None for _ in messages]

    async def send_server_messages(self, *messages, **kw):
        self.server += list(messages)
        return [None for _ in messages]

    def queue_server_messages(self, *messages):
        self.server += list(messages)
        return []


class _Users:
    def __init__(self):
        from aioslsk.user.model import User
        self._User = User
        self.users: dict = {}

    def get_user_object(self, username):
        if username not in self.users:
            self.users[username] = self._User(name=username)
        return self.users[username]

    gate: Optional[asyncio.Future] = None      # armed by a `cycle*` op: manage_user_tracking suspends here

    async def track_user(self, username, flag):
        if self.gate is not None and not self.gate.done():
            await self.gate

    async def untrack_user(self, username, flag):
        if self.gate is not None and not self.gate.done():
            await self.gate


class _StateGate:
    """A TransferStateListener: when armed, a state transition made by the cycle (the abort / queue tasks gathered by
    manage_shares_changed) suspends inside `Transfer.transition`."""
    gate: Optional[asyncio.Future] = None

    async def on_transfer_state_changed(self, transfer, old, new):
        if self.gate is not None and not self.gate.done():
            await self.gate


async def _drain():
    for _ in range(6):
        await asyncio.sleep(0)


def _run_impl(case: dict) -> dict:
    """Returns {'obs': one observation per op, 'alias': {rel: alias}}."""
    from vlib.simloop import SimLoop
    import logging
    import aioslsk.shares.manager as shm
    from aioslsk.shares.manager import SharesManager
    from aioslsk.shares.model import DirectoryShareMode
    from aioslsk.transfer.manager import TransferManager, _RequestFlag
    from aioslsk.search.manager import SearchManager
    from aioslsk.peer import PeerManager
    from aioslsk.settings import Settings
    from aioslsk.session import Session
    from aioslsk.user.model import BlockingFlag, User
    from aioslsk.events import (EventBus, MessageReceivedEvent, SessionInitializedEvent, FriendListChangedEvent,
                                BlockListChangedEvent)
    from aioslsk.exceptions import SharedDirectoryError, InvalidStateTransition
    from aioslsk.protocol import messages as M

    logging.getLogger('aioslsk').setLevel(logging.CRITICAL)
    shm.extract_attributes = lambda filepath: []
    root = os.path.realpath(tempfile.mkdtemp(prefix='c08-'))
    loop = SimLoop()
    asyncio.set_event_loop(loop)
    obs: list = []

    def ap(rel):
        return root if rel == '.' else os.path.join(root, rel)

    def run(coro):
        return loop.run_until_complete(coro)

    try:
        for f in case['files']:
            p = ap(f)
            os.makedirs(os.path.dirname(p), exist_ok=True)
            with open(p, 'w') as fh:
                fh.write('x')
        settings = Settings(credentials={'username': 'me', 'password': 'p'})
        settings.searches.receive.max_results = case['cap']
        settings.transfers.limits.upload_slots = 0          # nothing is started: states are driven by the ops
        bus = EventBus()
        net = _Net()
        users = _Users()
        shares = SharesManager(settings, bus, net)
        xfer = TransferManager(settings, bus, users, shares, net)
        search = SearchManager(settings, bus, shares, xfer, net)
        peer = PeerManager(settings, bus, users, shares, xfer, net)
        keep = [shares, xfer, search, peer]                  # the bus holds listeners weakly
        session = Session(user=User(name='me'), ip_address='1.2.3.4', greeting='', client_version=1, minor_version=1)
        run(bus.emit(SessionInitializedEvent(session, raw_message=None)))
        if not xfer._management_queue.empty():               # the cycle login asks for
            run(xfer._management_job())
        # alias of every directory a case may name (a pure function of the absolute path)
        names = {'.'}
        for f in case['files']:
            parts = f.split('/')
            for k in range(1, len(parts)):
                names.add('/'.join(parts[:k]))
        for op in case['ops']:
            for o2 in ([op] + list(op[2]) if op[0] == 'cycle*' else [op]):
                if o2[0] in ('share', 'unshare', 'mode'):
                    names.add(o2[1])
            if op[0] in ('dir', 'queue', 'treq'):
                names.add(op[2]['d'])
        alias = {d: shares.generate_alias(os.path.normpath(os.path.abspath(ap(d)))) for d in sorted(names)}
        by_alias = {a: d for d, a in alias.items()}
        if len(by_alias) != len(alias):
            # generate_alias XORs the path in 5-byte chunks: 'X' and 'X/(101/(101' get one alias when the chunks line
            # up. Outside the model (assumption "no alias collision"); reported as an observation, case skipped.
            return {'SKIP': 'alias-collision', 'alias': alias}
        conns: dict[str, _Conn] = {}
        ticket = [100]

        def conn(u):
            name = USERS[u]
            if name not in conns:
                conns[name] = _Conn(name)
            return conns[name]

        def deliver(message, connection):
            run(bus.emit(MessageReceivedEvent(message=message, connection=connection)))
            run(_drain())

        def uploads():
            return [[t.username, t.remote_path, t.state.VALUE.name, t.abort_reason] for t in xfer.transfers
                    if t.is_upload()]

        def flag():
            return bool(xfer._management_flags & _RequestFlag.SHARES_CHANGE)

        def locate(remote_path: str):
            """remote path the code sent -> [dir rel, subdir, filename] via the alias table"""
            parts = remote_path.split('\\')
            d = by_alias.get(parts[0][2:]) if parts[0].startswith('@@') else None
            return [d, '/'.join(parts[1:-1]), parts[-1]]

        def listing(dds):
            return sorted([dd.name, sorted(fd.filename for fd in dd.files)] for dd in dds)

        def config_op(op):
            kind = op[0]
            if kind == 'friends':
                new = {USERS[u] for u in op[1]}
                old = set(settings.users.friends)
                settings.users.friends = set(new)
                if new != old:
                    run(bus.emit(FriendListChangedEvent(added=new - old, removed=old - new)))
                return {'changed': new != old, 'flag': flag()}
            if kind == 'blocked':
                new = {USERS[int(u)]: BlockingFlag(b) for u, b in op[1].items()}
                old = dict(settings.users.blocked)
                settings.users.blocked = dict(new)
                if new != old:
                    changes = {u: (old.get(u, BlockingFlag.NONE), new.get(u, BlockingFlag.NONE))
                               for u in set(old) | set(new) if old.get(u) != new.get(u)}
                    run(bus.emit(BlockListChangedEvent(changes=changes)))
                return {'changed': new != old, 'flag': flag()}
            if kind in ('share', 'unshare', 'mode'):
                try:
                    if kind == 'share':
                        d = shares.add_shared_directory(ap(op[1]), share_mode=DirectoryShareMode(op[2]),
                                                        users=[USERS[u] for u in op[3]])
                        keep.append(d)
                        run(shares.scan_directory_files(d))
                    elif kind == 'unshare':
                        keep.append(shares.remove_shared_directory(ap(op[1])))
                    else:
                        shares.update_shared_directory(ap(op[1]), share_mode=DirectoryShareMode(op[2]),
                                                       users=[USERS[u] for u in op[3]])
                    res = 'ok'
                except SharedDirectoryError:
                    res = 'already-shared' if kind == 'share' else 'not-shared'
                return {'res': res, 'flag': flag()}
            raise ValueError(f'not a configuration op: {op!r}')

        state_gate = _StateGate()

        def attach_gate():
            for t in xfer.transfers:
                if state_gate not in t.state_listeners:
                    t.state_listeners.append(state_gate)

        for op in case['ops']:
            kind = op[0]
            if kind in CONFIG_OPS:
                obs.append(config_op(op))
            elif kind == 'cycle*':
                # one management cycle SUSPENDED at a real await of the job (op[1] = 'track': the user-tracking calls
                # of manage_user_tracking; 'state': inside a state transition gathered by manage_shares_changed), the
                # configuration ops op[2] applied during the suspension, the gate released, then cycles until idle
                prev = uploads()
                had_flag = flag()
                ran = not xfer._management_queue.empty()
                task = None
                suspended = False
                if ran:
                    gate = loop.create_future()
                    if op[1] == 'track':
                        users.gate = gate
                    elif op[1] == 'state':
                        attach_gate()
                        state_gate.gate = gate
                    else:
                        raise ValueError(op)
                    task = loop.create_task(xfer._management_job())
                    run(_drain())
                    suspended = not task.done()
                inner = [config_op(o2) for o2 in op[2]]
                if ran:
                    if not gate.done():
                        gate.set_result(None)
                    users.gate = None
                    state_gate.gate = None
                    run(task)
                    run(_drain())
                mid = uploads()
                extra = 0
                while not xfer._management_queue.empty() and extra < 8:
                    run(xfer._management_job())
                    run(_drain())
                    extra += 1
                obs.append({'ran': ran, 'had_flag': had_flag, 'suspended': suspended, 'inner': inner, 'before': prev,
                            'mid': mid, 'uploads': uploads(), 'flag': flag(), 'extra': extra,
                            'idle': xfer._management_queue.empty()})
            elif kind == 'phrases':
                deliver(M.ExcludedSearchPhrases.Response(list(op[1])), None)
                obs.append({})
            elif kind == 'search':
                u, q, via = op[1], op[2], op[3]
                before = len(net.peer)
                ticket[0] += 1
                if via == 'server':
                    msg = M.ServerSearchRequest.Response(3, 0, USERS[u], ticket[0], q)
                elif via == 'file':
                    msg = M.FileSearch.Response(USERS[u], ticket[0], q)
                else:
                    msg = M.DistributedSearchRequest.Request(0x31, USERS[u], ticket[0], q)
                deliver(msg, conn(u) if via == 'dist' else None)
                sent = net.peer[before:]
                replies = [(to, m) for to, m in sent if isinstance(m, M.PeerSearchReply.Request)]
                if not replies:
                    obs.append({'reply': None})
                else:
                    to, m = replies[0]
                    obs.append({'reply': {'to': to, 'n': len(replies), 'ticket_ok': m.ticket == ticket[0],
                                          'vis': sorted(locate(fd.filename) for fd in m.results),
                                          'locked': sorted(locate(fd.filename) for fd in (m.locked_results or []))}})
            elif kind == 'shares':
                c = conn(op[1])
                before = len(c.out)
                deliver(M.PeerSharesRequest.Request(), c)
                out = [m for m in c.out[before:] if isinstance(m, M.PeerSharesReply.Request)]
                if not out:
                    obs.append({'reply': None})
                else:
                    obs.append({'reply': {'vis': listing(out[0].directories),
                                          'locked': listing(out[0].locked_directories or [])}})
            elif kind == 'dir':
                c = conn(op[1])
                before = len(c.out)
                req = _resolve_path(op[2], alias)
                ticket[0] += 1
                deliver(M.PeerDirectoryContentsRequest.Request(ticket[0], req), c)
                out = [m for m in c.out[before:] if isinstance(m, M.PeerDirectoryContentsReply.Request)]
                if not out:
                    obs.append({'reply': None, 'req': req})
                else:
                    obs.append({'reply': listing(out[0].directories), 'req': req, 'echo': out[0].directory})
            elif kind in ('queue', 'treq'):
                c = conn(op[1])
                before = len(c.out)
                path = _resolve_path(op[2], alias)
                prev = uploads()
                ticket[0] += 1
                if kind == 'queue':
                    deliver(M.PeerTransferQueue.Request(path), c)
                else:
                    deliver(M.PeerTransferRequest.Request(0, ticket[0], path), c)
                out = c.out[before:]
                reply: Any = None
                for m in out:
                    if isinstance(m, M.PeerTransferQueueFailed.Request):
                        reply = ['queue-failed', m.reason, m.filename == path]
                    elif isinstance(m, M.PeerTransferReply.Request):
                        reply = ['transfer-reply', m.reason, m.ticket == ticket[0], bool(m.allowed)]
                obs.append({'path': path, 'reply': reply, 'nreplies': len(out), 'before': prev, 'uploads': uploads(),
                            'flag': flag()})
            elif kind == 'cycle':
                prev = uploads()
                had_flag = flag()
                ran = not xfer._management_queue.empty()
                if ran:
                    run(xfer._management_job())
                    run(_drain())
                obs.append({'ran': ran, 'had_flag': had_flag, 'before': prev, 'uploads': uploads(), 'flag': flag()})
            elif kind in ('meth', 'abort', 'requeue'):
                ups = [t for t in xfer.transfers if t.is_upload()]
                prev = uploads()
                if op[1] >= len(ups):
                    res = 'no-such-upload'
                else:
                    t = ups[op[1]]
                    if kind == 'meth':
                        if op[2] not in TASK_METHODS:
                            raise ValueError(op)
                        res = 'changed' if run(getattr(t.state, op[2])()) else 'refused'
                    else:
                        try:
                            run(xfer.abort(t) if kind == 'abort' else xfer.queue(t))
                            res = 'changed'
                        except InvalidStateTransition:
                            res = 'refused'
                    run(_drain())
                obs.append({'res': res, 'before': prev, 'uploads': uploads(), 'flag': flag()})
            else:
                raise ValueError(f'unknown op {op!r}')
        del keep
    finally:
        try:
            pending = [t for t in asyncio.all_tasks(loop) if not t.done()]
            for t in pending:
                t.cancel()
            if pending:
                loop.run_until_complete(asyncio.gather(*pending, return_exceptions=True))
        except Exception:
            pass
        asyncio.set_event_loop(None)
        try:
            loop.close()
        except Exception:
            pass
        shutil.rmtree(root, ignore_errors=True)
    return {'obs': obs, 'alias': alias}


def _eval_case(case):
    try:
        return _run_impl(case)
    except Exception as e:       # the real code raised: an observation, not a harness crash
        import traceback
        return {'EXC': f'{type(e).__name__}: {e}', 'tb': traceback.format_exc()[-1800:]}


# ------------------------------------------------------------------------------------------------
# model side
# ------------------------------------------------------------------------------------------------

_cps = c07._cps
_enc_path = c07._enc_path


def _strings(x):
    if isinstance(x, str):
        yield x
    elif isinstance(x, dict):
        for k, v in x.items():
            yield from _strings(v)
    elif isinstance(x, (list, tuple)):
        for v in x:
            yield from _strings(v)


def _model_lines(case: dict, alias: dict) -> tuple[list[str], list[int]]:
    chars = set('*-\\ @/.zx')
    for s in _strings([case['files'], case['ops']]):
        chars.update(s)
    for a in alias.values():
        chars.update(a)
    chars.discard('/')
    for c in list(chars):
        chars.update(c.lower())
        chars.update(c.upper() if len(c.upper()) == 1 else c)
    lines = [f'new {case["cap"]}']
    for c in sorted(chars):
        lo = c.lower()
        if len(lo) != 1:
            raise ValueError(f'character {c!r} outside the alphabet (lower() is not 1:1)')
        lines.append(f'cls {ord(c)} {int(c07._isw_re(c))} {ord(lo)} {int(c.isspace())}')
    files = ';'.join(_enc_path(f) for f in case['files']) if case['files'] else '-'
    where: list[int] = []
    friends: set = set()
    blocked: dict = {}

    def mode(m, us):
        if m == 'users':
            return 'users:' + (','.join(str(u) for u in us) if us else '-')
        return m

    def config_line(op) -> Optional[str]:
        nonlocal friends, blocked
        k = op[0]
        if k == 'friends':
            if set(op[1]) == friends:
                return None
            friends = set(op[1])
            return 'friends ' + (','.join(str(u) for u in sorted(friends)) if friends else '-')
        if k == 'blocked':
            new = {int(u): int(b) for u, b in op[1].items()}
            if new == blocked:
                return None
            blocked = new
            return 'blocked ' + (','.join(f'{u}:{b}' for u, b in sorted(blocked.items())) if blocked else '-')
        if k == 'share':
            return f'share {_enc_path(op[1])} {_cps(alias[op[1]])} {mode(op[2], op[3])} {files}'
        if k == 'unshare':
            return f'unshare {_enc_path(op[1])}'
        if k == 'mode':
            return f'mode {_enc_path(op[1])} {mode(op[2], op[3])}'
        raise ValueError(op)

    for op in case['ops']:
        k = op[0]
        if k in CONFIG_OPS:
            ln = config_line(op)
            if ln is None:
                where.append(-1)
            else:
                where.append(len(lines))
                lines.append(ln)
        elif k == 'cycle*':
            # the suspended job = the model's atomic `cycle` (flags snapshot + clear, manage_shares_changed) — the ops
            # applied during the suspension follow it and set the flag again — then the cycles run until idle
            w = {'first': len(lines), 'inner': []}
            lines.append('cycle')
            for o2 in op[2]:
                ln = config_line(o2)
                w['inner'].append(-1 if ln is None else len(lines))
                if ln is not None:
                    lines.append(ln)
            w['last'] = len(lines)
            lines.append('cycle')
            where.append(w)
        elif k == 'phrases':
            where.append(len(lines))
            lines.append('phrases ' + (';'.join(_cps(p) if p else '_' for p in op[1]) if op[1] else '-'))
        elif k == 'search':
            where.append(len(lines))
            lines.append(f'search {op[1]} {_cps(op[2])}'.rstrip())
        elif k == 'shares':
            where.append(len(lines))
            lines.append(f'shares {op[1]}')
        elif k == 'dir':
            where.append(len(lines))
            lines.append(f'dir {op[1]} {_cps(_resolve_path(op[2], alias))}'.rstrip())
        elif k in ('queue', 'treq'):
            where.append(len(lines))
            lines.append(f'{k} {op[1]} {_cps(_resolve_path(op[2], alias))}')
        elif k == 'cycle':
            where.append(len(lines))
            lines.append('cycle')
        elif k == 'meth':
            where.append(len(lines))
            lines.append(f'meth {op[1]} {op[2]}')
        elif k in ('abort', 'requeue'):
            where.append(len(lines))
            lines.append(f'{k} {op[1]}')
        else:
            raise ValueError(op)
    return lines, where


_ABORT_NAME = {'Requested': 'REQUESTED', 'Blocked': 'BLOCKED', 'File not shared': 'FILE_NOT_SHARED', None: '-'}
_FAIL_NAME = {'Cancelled': 'CANCELLED', 'Complete': 'COMPLETE', 'Queued': 'QUEUED', 'File not shared.': 'FILE_NOT_SHARED',
              'File read error.': 'FILE_READ_ERROR'}


def _show_uploads(o) -> str:
    ups = ' '.join(f'{USERS.index(u) if u in USERS else u}:{_cps(p)}:{st}:{_ABORT_NAME.get(r, repr(r))}'
                   for u, p, st, r in o['uploads'])
    return f'flag={int(o["flag"])}|{ups}'


def _show_listing(lst) -> str:
    ents = []
    for name, files in lst:
        comps = name.split('\\')
        ents.append(f'{"/".join(_cps(c) for c in comps)}={";".join(sorted(_cps(f) for f in files))}')
    return ' '.join(sorted(ents))


def _compare(case: dict, impl: dict, out: list[str], where: list[int]):
    """First difference between implementation and model, or None."""
    obs = impl['obs']
    for i, op in enumerate(case['ops']):
        w = where[i]
        o = obs[i] if i < len(obs) else None
        if o is None:
            return (i, 'missing impl observation', None)
        k = op[0]
        if k == 'cycle*':
            first, last = out[w['first']], out[w['last']]
            if not o['idle']:
                return (i, 'management queue not idle after 8 more cycles', 'idle')
            mid = _show_uploads({'uploads': o['mid'], 'flag': False}).split('|', 1)[1]
            if mid != first.split('|', 1)[1]:
                return (i, 'after the suspended cycle: ' + mid, first)
            for o2, w2, ob2 in zip(op[2], w['inner'], o['inner']):
                if w2 < 0:
                    if ob2.get('changed'):
                        return (i, 'settings changed', 'harness thought not')
                elif o2[0] in ('share', 'unshare', 'mode') and ob2['res'] != out[w2]:
                    return (i, ob2['res'], out[w2])
            s_ = _show_uploads(o)
            if s_ != last:
                return (i, 'settled: ' + s_, last)
            continue
        if w < 0:
            if o.get('changed'):
                return (i, 'settings changed', 'harness thought not')
            continue
        m = out[w] if w < len(out) else '<no output>'
        if k in ('friends', 'blocked', 'phrases'):
            if m != 'ok':
                return (i, 'ok', m)
        elif k in ('share', 'unshare', 'mode'):
            if o['res'] != m:
                return (i, o['res'], m)
        elif k == 'search':
            r = o['reply']
            if r is None or m == 'none':
                if not (r is None and m == 'none'):
                    return (i, r, m)
                continue
            if not m.startswith('n='):
                return (i, r, m)
            head, rest = m.split('|vis=', 1)
            fv, fl = rest.split('|locked=', 1)
            n = int(head[2:])
            fvis = set(fv.split(' ')) if fv else set()
            flock = set(fl.split(' ')) if fl else set()
            vis = [c07._item_key(*x) if x[0] is not None else f'?{x}' for x in r['vis']]
            lock = [c07._item_key(*x) if x[0] is not None else f'?{x}' for x in r['locked']]
            if r['to'] != USERS[op[1]] or r['n'] != 1 or not r['ticket_ok']:
                return (i, r, 'one reply to the asking user with its ticket')
            if len(vis) + len(lock) != n or len(set(vis)) != len(vis) or len(set(lock)) != len(lock):
                return (i, {'vis': vis, 'locked': lock}, m)
            if not set(vis) <= fvis or not set(lock) <= flock:
                return (i, {'vis': vis, 'locked': lock}, m)
            if len(fvis) + len(flock) <= case['cap'] and (set(vis) != fvis or set(lock) != flock):
                return (i, {'vis': vis, 'locked': lock}, m)
        elif k == 'shares':
            r = o['reply']
            s = 'none' if r is None else f'vis={_show_listing(r["vis"])}|locked={_show_listing(r["locked"])}'
            if s != m:
                return (i, s, m)
        elif k == 'dir':
            r = o['reply']
            if r is None:
                s = 'none'
            elif not r:
                s = 'empty'
            else:
                if len(r) != 1 or r[0][0] != o['req'] or o.get('echo') != o['req']:
                    return (i, r, 'one entry named like the request')
                s = ';'.join(sorted(_cps(f) for f in r[0][1]))
            if s != m:
                return (i, s, m)
        elif k in ('queue', 'treq'):
            r = o['reply']
            if r is None:
                rs = '-'
            else:
                want_kind = 'queue-failed' if k == 'queue' else 'transfer-reply'
                if r[0] != want_kind or not r[2] or o['nreplies'] != 1 or (k == 'treq' and r[3]):
                    return (i, r, f'one {want_kind} (not allowed) echoing the request')
                rs = _FAIL_NAME.get(r[1], repr(r[1]))
            s = f'reply={rs}|{_show_uploads(o)}'
            if s != m:
                return (i, s, m)
        elif k == 'cycle':
            s = _show_uploads(o)
            if s != m:
                return (i, s, m)
        elif k in ('meth', 'abort', 'requeue'):
            s = f'{o["res"]}|{_show_uploads(o)}'
            if s != m:
                return (i, s, m)
    return None


# ------------------------------------------------------------------------------------------------
# monitor: the property statement from the harness's own book-keeping
# ------------------------------------------------------------------------------------------------

class _Truth:
    """What the harness did: files on disk, settings applied, directories shared (with mode)."""

    def __init__(self, case, alias):
        self.files = list(case['files'])
        self.alias = alias
        self.friends: set = set()
        self.blocked: dict = {}
        self.shared: dict[str, tuple] = {}
        self.phrases: list[str] = []

    def is_blocked(self, u: int, flag: int) -> bool:
        return bool(self.blocked.get(u, 0) & flag)

    def owner(self, f: str) -> Optional[str]:
        return c07._innermost(list(self.shared), f)

    def locked(self, d: str, u: int) -> bool:
        m, us = self.shared[d]
        if m == 'friends':
            return u not in self.friends
        if m == 'users':
            return u not in us
        return False

    def remote_path(self, f: str) -> Optional[str]:
        d = self.owner(f)
        if d is None:
            return None
        rel = f if d == '.' else f[len(d) + 1:]
        return '\\'.join(['@@' + self.alias[d]] + rel.split('/'))

    def file_of(self, remote_path: str) -> Optional[str]:
        for f in self.files:
            if self.remote_path(f) == remote_path:
                return f
        return None

    def entitled(self, u: int, f: str) -> bool:
        d = self.owner(f)
        return d is not None and not self.locked(d, u)

    def permitted(self, u: int, remote_path: str) -> tuple[bool, str]:
        """may `u` be served `remote_path` now? (False, 'Blocked' | 'File not shared')"""
        if self.is_blocked(u, F_UPLOADS):
            return False, 'Blocked'
        f = self.file_of(remote_path)
        if f is None or not self.entitled(u, f):
            return False, 'File not shared'
        return True, ''


def _abs_file(t: _Truth, loc) -> Optional[str]:
    d, sub, name = loc
    if d is None:
        return None
    parts = ([] if d == '.' else [d]) + ([sub] if sub else []) + [name]
    return '/'.join(parts)


def _monitor(case: dict, impl: dict) -> list[Violation]:
    if 'SKIP' in impl:
        return []
    if 'EXC' in impl:
        return [Violation('C08-impl-error', 'a manager raised: ' + impl['EXC'], case, observed=impl.get('tb'))]
    vs: list[Violation] = []
    dir_vs: list[Violation] = []      # the known finding: recorded once, does not end the monitoring of the case
    t = _Truth(case, impl['alias'])
    obs = impl['obs']
    changed_since_cycle = False

    def uname(u):
        return USERS[u]

    def apply_truth(op, o) -> bool:
        """book-keeping of one configuration op; True when it changed something"""
        k = op[0]
        if k == 'friends':
            ch = set(op[1]) != t.friends
            t.friends = set(op[1])
            return ch
        if k == 'blocked':
            new = {int(u): int(b) for u, b in op[1].items()}
            ch = new != t.blocked
            t.blocked = new
            return ch
        if o['res'] != 'ok':
            return False
        if k == 'unshare':
            t.shared.pop(op[1], None)
        else:
            t.shared[op[1]] = (op[2], list(op[3]))
        return True

    def judge(tag, o):
        """clause (4) at a settled point: `o['before']` -> `o['uploads']` against the configuration now"""
        before = {(a, p): (st, r) for a, p, st, r in o['before']}
        for a, p, st, r in o['uploads']:
            bst, br = before.get((a, p), (None, None))
            if bst in ('COMPLETE', 'FAILED', 'VIRGIN', None):
                continue
            u = USERS.index(a)
            ok, why = t.permitted(u, p)
            if bst == 'ABORTED' and br == 'Requested':
                continue                                  # checked for every op
            if not ok:
                if st != 'ABORTED':
                    vs.append(Violation('C08-not-aborted',
                                        f'{tag}: after the management cycle the upload of {p!r} to {a} is {st} although: '
                                        f'{why}', case, observed=[a, p, st, r], required=[a, p, 'ABORTED', why]))
                elif r != why:
                    vs.append(Violation('C08-wrong-abort-reason',
                                        f'{tag}: the upload of {p!r} to {a} is ABORTED with reason {r!r}, expected {why!r}',
                                        case, observed=[a, p, st, r], required=[a, p, 'ABORTED', why]))
            elif bst == 'ABORTED':
                if st != 'QUEUED':
                    vs.append(Violation('C08-not-requeued',
                                        f'{tag}: the upload of {p!r} to {a} was aborted for {br!r}, is permitted again '
                                        f'and is {st} ({r!r}) after the management cycle', case,
                                        observed=[a, p, st, r], required=[a, p, 'QUEUED', None]))
            elif st == 'ABORTED':
                vs.append(Violation('C08-aborted-although-permitted',
                                    f'{tag}: the upload of {p!r} to {a} was {bst}, is permitted and was aborted ({r!r})',
                                    case, observed=[a, p, st, r], required=[a, p, bst, None]))
            if vs:
                break

    for i, op in enumerate(case['ops']):
        if vs:
            break
        o = obs[i] if i < len(obs) else None
        if o is None:
            break
        k = op[0]
        tag = f'op #{i} {json.dumps(op)[:120]}'
        # uploads aborted on the user's request stay aborted whatever anybody else does
        if 'before' in o and k != 'requeue':
            after = {(u, p): (st, r) for u, p, st, r in o['uploads']}
            for u, p, st, r in o['before']:
                if st == 'ABORTED' and r == 'Requested' and after.get((u, p)) != ('ABORTED', 'Requested'):
                    vs.append(Violation('C08-requested-not-sticky',
                                        f'{tag}: the upload of {p!r} to {u} was aborted on the user\'s request and is now '
                                        f'{after.get((u, p))}', case, observed=o['uploads'], required=[u, p, 'ABORTED', 'Requested']))
        if vs:
            break
        if k in CONFIG_OPS:
            if apply_truth(op, o):
                changed_since_cycle = True
        elif k == 'phrases':
            t.phrases = list(op[1])
        elif k == 'search':
            r = o['reply']
            if r is None:
                continue
            u = op[1]
            if t.is_blocked(u, F_SEARCHES):
                vs.append(Violation('C08-search-reply-to-blocked',
                                    f'{tag}: a search reply was sent although {uname(u)} is blocked for searches', case,
                                    observed=r))
                break
            if r['to'] != uname(u):
                vs.append(Violation('C08-search-reply-wrong-user', f'{tag}: the reply went to {r["to"]}', case, observed=r))
                break
            for part in ('vis', 'locked'):
                for loc in r[part]:
                    f = _abs_file(t, loc)
                    qp = '\\'.join(([loc[1].replace('/', '\\')] if loc[1] else []) + [loc[2]])
                    for ph in t.phrases:
                        if ph.lower() in qp.lower():
                            vs.append(Violation('C08-search-excluded-phrase',
                                                f'{tag}: the reply lists {qp!r} which contains the excluded phrase {ph!r}',
                                                case, observed=r, required=f'no path containing {ph.lower()!r}'))
                            break
                    if vs:
                        break
                    if part == 'vis' and (f is None or f not in t.files or not t.entitled(u, f)):
                        vs.append(Violation('C08-search-visible-locked',
                                            f'{tag}: {loc} is listed as a normal result for {uname(u)} who is not '
                                            f'entitled to it', case, observed=r))
                        break
                if vs:
                    break
        elif k == 'shares':
            r = o['reply']
            if r is None:
                continue
            u = op[1]
            by_alias = {a: d for d, a in t.alias.items()}
            for name, files in r['vis']:
                parts = name.split('\\')
                d = by_alias.get(parts[0][2:])
                for fn in files:
                    f = _abs_file(t, [d, '/'.join(parts[1:]), fn])
                    if f is None or f not in t.files or not t.entitled(u, f):
                        vs.append(Violation('C08-shares-visible-locked',
                                            f'{tag}: {name}\\{fn} is listed as a normal share for {uname(u)} who is not '
                                            f'entitled to it', case, observed=r['vis']))
                        break
                if vs:
                    break
        elif k == 'dir':
            r = o['reply']
            if not r:
                continue
            u = op[1]
            by_alias = {a: d for d, a in t.alias.items()}
            for name, files in r:
                parts = name.split('\\')
                d = by_alias.get(parts[0][2:]) if parts[0].startswith('@@') else None
                for fn in files:
                    f = _abs_file(t, [d, '/'.join(parts[1:]), fn])
                    if (f is None or f not in t.files or not t.entitled(u, f)) and not dir_vs:
                        dir_vs.append(Violation('C08-directory-reply-ignores-lock',
                                                f'{tag}: the directory listing sent to {uname(u)} names {name}\\{fn} as a '
                                                f'normal file although its directory is not shared with that user', case,
                                                observed=r))
        elif k in ('queue', 'treq'):
            u, path = op[1], o['path']
            before = {(a, p): st for a, p, st, _ in o['before']}
            for a, p, st, r in o['uploads']:
                if (a, p) != (uname(u), path):
                    continue
                was = before.get((a, p))
                if was is None or (st == 'QUEUED' and was != 'QUEUED'):
                    ok, why = t.permitted(u, path)
                    if not ok:
                        what = 'created' if was is None else f'put back from {was} to QUEUED'
                        vs.append(Violation('C08-upload-admitted-not-entitled',
                                            f'{tag}: an upload of {path!r} to {uname(u)} was {what} although: {why}',
                                            case, observed=o['uploads'], required='no such upload'))
        elif k == 'cycle':
            if not changed_since_cycle:
                continue
            # the settings / shares changed since the last cycle: every such change requests a cycle, so one ran now
            # (if none was requested the uploads are judged all the same — nothing will ever reconcile them)
            changed_since_cycle = False
            judge(tag, o)
        elif k == 'cycle*':
            # a cycle suspended at one of its awaits, configuration changes during the suspension, cycles until idle:
            # at this settled point clause (4) holds against the configuration as it is NOW
            for o2, ob2 in zip(op[2], o['inner']):
                if apply_truth(o2, ob2):
                    changed_since_cycle = True
            if not changed_since_cycle:
                continue
            changed_since_cycle = False
            judge(tag + (' [suspended]' if o['suspended'] else ''), o)
    return vs + dir_vs


# ------------------------------------------------------------------------------------------------
# witnesses
# ------------------------------------------------------------------------------------------------

# fixed by fixes/C08-excluded-phrase-case.patch: a phrase the server sends in upper case is never excluded
W_PHRASE = {'cap': 100, 'files': ['m/Simple Band - song.mp3', 'm/other song.mp3'],
            'ops': [['share', 'm', 'everyone', []], ['phrases', ['SIMPLE BAND']], ['search', 0, 'song', 'server'],
                    ['phrases', ['simple band']], ['search', 0, 'song', 'file']]}
# known finding: the directory listing of a friends-only directory is sent to anybody
W_DIRREPLY = {'cap': 100, 'files': ['priv/Live/secret song.mp3', 'pub/a.mp3'],
              'ops': [['friends', [0]], ['share', 'priv', 'friends', []], ['share', 'pub', 'everyone', []],
                      ['dir', 1, {'d': 'priv', 'f': 'Live', 'var': 'exact'}],
                      ['dir', 0, {'d': 'priv', 'f': 'Live', 'var': 'exact'}],
                      ['shares', 1]]}
W_RECONCILE = {'cap': 100, 'files': ['fr/x one.mp3', 'pub/y two.mp3'],
               'ops': [['friends', [0]], ['share', 'fr', 'friends', []], ['share', 'pub', 'everyone', []], ['cycle'],
                       ['queue', 0, {'d': 'fr', 'f': 'x one.mp3', 'var': 'exact'}],
                       ['queue', 1, {'d': 'fr', 'f': 'x one.mp3', 'var': 'exact'}],
                       ['treq', 1, {'d': 'pub', 'f': 'y two.mp3', 'var': 'exact'}],
                       ['queue', 2, {'d': 'pub', 'f': 'y two.mp3', 'var': 'upper'}],
                       ['meth', 0, 'initialize'], ['abort', 1],
                       ['friends', []], ['blocked', {'1': 32}], ['cycle'],
                       ['queue', 0, {'d': 'fr', 'f': 'x one.mp3', 'var': 'exact'}],
                       ['friends', [0]], ['blocked', {}], ['cycle'], ['requeue', 1], ['cycle']]}
# a second change raised while the cycle asked for by the first one is suspended must still be seen by a cycle
W_SUSPENDED = {'cap': 100, 'files': ['pub/a one.mp3', 'pub/b two.mp3'],
               'ops': [['share', 'pub', 'everyone', []], ['cycle'],
                       ['queue', 0, {'d': 'pub', 'f': 'a one.mp3', 'var': 'exact'}],
                       ['queue', 1, {'d': 'pub', 'f': 'b two.mp3', 'var': 'exact'}], ['cycle'],
                       ['blocked', {'0': 32}], ['cycle*', 'track', [['blocked', {'0': 32, '1': 32}]]],
                       ['blocked', {'1': 32}], ['cycle*', 'state', [['blocked', {}]]]]}
WITNESSES = [W_PHRASE, W_RECONCILE, W_SUSPENDED]


class C08(Property):
    id = 'C08'
    props_module = 'AioslskVerif.Props.C08'
    driver_module = 'AioslskVerif.Driver.C08'
    rule = ('real temp trees of 1..12 files (names as in C07: words in mixed case with accents / CJK joined by the '
            'property\'s separators), 1..3 shared directories (often nested) x share modes everyone / friends / users, '
            'friend / user / block lists over 3 users (+ a 4th asking user), blocking flags SEARCHES / SHARES / UPLOADS and '
            'combinations, excluded-phrase lists in any letter case built from the words and path slices present; '
            'histories of up to ~35 ops: <= 6 configuration changes (friends, block list, share mode / users, unshare, '
            'share) interleaved with search requests (server / user / distributed), PeerSharesRequest, '
            'PeerDirectoryContentsRequest, PeerTransferQueue / PeerTransferRequest for shared, locked, unshared, unknown '
            'paths and case / separator variants of them, repeated requests for existing uploads, state methods driving '
            'uploads through INITIALIZING / UPLOADING / PAUSED / COMPLETE / FAILED, user abort / re-queue, and management '
            'cycles — also cycles SUSPENDED at a real await of the management job (the user-tracking calls of '
            'manage_user_tracking, or a state transition gathered by manage_shares_changed) with further configuration '
            'changes applied during the suspension, then cycles until the queue is idle; all from VERIF_SEED. Non-trivial: an upload was created, a request was refused, and a management '
            'cycle aborted or re-queued an upload; distinct = distinct canonical case')
    assumptions = [
        'alphabet as in C07 (str.lower one-to-one, self-checked); user names are non-empty and distinct; no alias '
        'collision between shared directories; files do not vanish between the scan and a request',
        'the management task is not started: `cycle` ops run the real TransferManager._management_job() when a cycle is '
        'requested; upload_slots = 0, so uploads are never started by the manager (states are driven through the real '
        'state objects) — what is sent on file connections is not observed',
        'FriendListChangedEvent / BlockListChangedEvent are emitted by the harness the way UserManager._management_job '
        'does after it noticed the settings change (the polling delay itself is not part of the property)',
        'target tree = /repo + fixes/C08-excluded-phrase-case.patch',
    ]
    modelled = ('is_directory_locked, query (excluded phrases, visible/locked split) on the C07 query/index models, '
                'create_shares_reply, create_directory_reply, get_shared_item_cache, _query_shares_and_reply, '
                '_on_peer_shares_request, _on_peer_directory_contents_req, _on_peer_transfer_queue, '
                '_on_peer_transfer_request (upload direction), _add_upload, _evaluate_aborted_state, manage_shares_changed, '
                'the SHARES_CHANGE flag of _management_job; state methods through the generated transfer table; '
                'condition order, skipped / re-queued states, fail_reason_map, blocking flags per gate regenerated by AST. '
                'Not modelled: _initialize_upload/_upload_file (serving), file sizes/attributes, vanished files, '
                'alias collisions, the atomicity of _add_upload across its awaits')

    def regenerate(self):
        return [transfer_table.generate(common.REPO, common.LEAN), entitle_constants.generate(common.REPO, common.LEAN)]

    def _cases(self, seed, tier, widen):
        rng = random.Random(f'C08-{seed}')
        n = (1200 if tier == 'quick' else 12000) * widen
        cases = list(WITNESSES)
        for i in range(n):
            cases.append(_gen_states_case(rng) if i % 4 == 3 else _gen_case(rng))
        return cases

    def correspondence(self, seed, tier, model_ok, widen=1):
        res = KResult()
        cases = self._cases(seed, tier, widen)
        cdir = common.CORPUS / 'C08'
        for p in sorted(cdir.glob('*.json')) if cdir.exists() else []:
            cases.insert(0, json.loads(p.read_text()))
        impl = common.parallel_map(_eval_case, cases, chunksize=4)
        model_out = None
        spans = []
        if model_ok:
            lines: list[str] = []
            for c, io in zip(cases, impl):
                if 'EXC' in io or 'SKIP' in io:
                    spans.append(None)
                    continue
                ls, where = _model_lines(c, io['alias'])
                spans.append((len(lines), len(ls), where))
                lines += ls
            model_out = common.run_driver(self.driver_file, lines)
        else:
            res.model_available = False
        for i, c in enumerate(cases):
            res.evaluations += 1
            io = impl[i]
            exc = 'EXC' in io or 'SKIP' in io
            if 'SKIP' in io:
                res.count('skipped:' + io['SKIP'])
            res.count('ops', len(c['ops']))
            for op in c['ops']:
                res.count('op:' + op[0])
                if op[0] in ('queue', 'treq', 'dir'):
                    res.count(f'path:{op[2]["var"]}')
                if op[0] == 'phrases':
                    for ph in op[1]:
                        res.count('phrase:' + ('empty' if not ph else 'lower' if ph == ph.lower() else 'upper' if ph == ph.upper() else 'mixed'))
            if not exc:
                created = refused = cyc = 0
                for op, o in zip(c['ops'], io['obs']):
                    if op[0] in ('queue', 'treq'):
                        if len(o['uploads']) > len(o['before']):
                            created += 1
                            res.count('request:created')
                        elif o['reply'] is not None:
                            refused += 1
                            res.count('request:refused:' + str(o['reply'][1]))
                        else:
                            res.count('request:silent')
                    elif op[0] in ('cycle', 'cycle*'):
                        if op[0] == 'cycle*':
                            res.count('cycle*:' + (('suspended-at-' + op[1]) if o['suspended'] else 'not-suspended')
                                      + ('+change' if any(x.get('changed') or x.get('res') == 'ok' for x in o['inner']) else ''))
                        res.count('cycle:' + ('idle' if not o['ran'] else 'shares' if o['had_flag'] else 'transfers'))
                        b = {(u, p): (st, r) for u, p, st, r in o['before']}
                        for u, p, st, r in o['uploads']:
                            if b.get((u, p)) != (st, r):
                                cyc += 1
                                res.count(f'cycle-change:{b.get((u, p), ("?",))[0]}->{st}:{r}')
                    elif op[0] == 'search':
                        r = o['reply']
                        res.count('search:' + ('none' if r is None else 'vis+locked' if r['vis'] and r['locked']
                                               else 'vis' if r['vis'] else 'locked'))
                    elif op[0] == 'dir':
                        res.count('dir:' + ('none' if o['reply'] is None else 'files' if o['reply'] and o['reply'][0][1]
                                            else 'empty'))
                if created and refused and cyc:
                    res.nontrivial_keys.add(common.sha(c))
            if model_out is not None and not exc:
                a, k, where = spans[i]
                out = model_out[a:a + k]
                res.traces_validated += 1
                diff = _compare(c, io, out, where)
                if diff is not None:
                    j, x, y = diff
                    res.disagreements.append(Disagreement(c, x, y, f'op #{j} {c["ops"][j]}'))
            res.violations += _monitor(c, io)
            if len(res.samples) < 3 and 8 < len(c['ops']) < 22 and not exc and i >= len(WITNESSES):
                res.samples.append({'case': c, 'impl': [{k: v for k, v in o.items() if k not in ('before', 'mid')} for o in io['obs']]})
        return res

    def replay(self, case):
        return _monitor(case, _eval_case(case))

    def known_witnesses(self):
        return [('C08-directory-reply-ignores-lock', W_DIRREPLY)]


PROPERTY = C08()
