"""C11 — connecting to a peer succeeds iff a path works, and leaves nothing behind.

Correspondence K_C11 + monitor (DESIGN.md, C11).

A real `Network` + `SimServer` + scripted peer endpoints on `vlib.connharness.GatedNet` under `SimLoop`.
One request `create_peer_connection(username, typ[, ip, port, obfuscate])` per case, in fallback or race
mode; the schedule releases, in any order, the completions the two attempts wait for: the GetPeerAddress
reply (valid / 0.0.0.0 / no port), the connect outcome (ok with PeerInit written / PeerInit write fails /
refused / timeout / a non-OSError from open_connection), a peer piercing with the request's ticket, CannotConnect
from the server, the 60 s timer, cancellation of the request — also *after* the request has finished (late
pierce, late CannotConnect).

Suspended application listeners (`_ListenerGate`): an async listener on the event bus for
ConnectionStateChangedEvent, PeerInitializedEvent and MessageReceivedEvent.  The schedule names the notifications
whose listener invocations suspend (`hold`: CONNECTING / CONNECTED / PeerInitializedEvent / CLOSING / CLOSED of the
outgoing connection `d:`, of a connection being accepted `a:`, of the pierced connection the request closes `w:`;
a server message `m:`) and when each returns (`release`, `drain` = all of them); every other completion can be
delivered while an invocation is suspended.  The Lean model takes every notification as a step of its own
(`note <label>`): the harness sends a `note` for each invocation that returned (at once, or when released).

After each op the loop runs to quiescence and the harness records: what the request did, the registry,
the three waiter tables, open sockets, what the server and the peer have received, which listener invocations are
suspended.  The same ops go through `Driver/C11.lean` (`Model/PeerConnect.lean`).  `select_port` is compared on the
full availability x preference table.  The connect-back half of the property runs the `back` scenarios of K_C10
and checks the answer the asking peer / the server got.

The far end (`_far_end`): "initialised, usable" is judged where the peer sits.  Whatever the library writes on a
connection is decoded the way a peer that follows the protocol decodes it (docs/source/SOULSEEK.rst, "Obfuscation": on an
obfuscated port the peer-init messages are obfuscated; afterwards only a `P` connection stays obfuscated, `D` and `F` go on
in clear) — for the port that was really dialled / the listening port the peer really came in on (`pierce` on the clear
port, `pierce obfs` on the obfuscated one).  `probe`: the caller uses the connection it was given — the peer sends one
message (`P`: PeerUserInfoRequest, `D`: DistributedBranchLevel, `F`: a transfer ticket read with
`receive_transfer_ticket`) and is sent one, each encoded / decoded by the protocol's rule.  The `wireback` family does the
same for a connect-back (`ConnectToPeer` from the server → PeerPierceFirewall at the asking peer), from the message up:
type x port situation of the message (the 6 of the direct grid, the obfuscated-port fields absent, and NO usable port at
all: 0 / absent, 0 / 0) x outcome of the dial, every case compared with `connectBack` of the model (`backreq`).

case = {'kind', 'mode', 'lookup', 'srvFail', 'typ', 'prefer', 'ports': [clear, obfs], 'hold': [label...]?,
        'ops': [[name, arg?]...]}
"""
from __future__ import annotations

import asyncio
import logging
import random
from typing import Any, Optional

from vlib import common, simloop
from vlib.common import KResult, Violation, Disagreement, Property
from vlib.connharness import (GatedNet, SiteAudit, make_settings, start_network, fire_timer, fire_wait_timeout,
                              SERVER_ADDR, CLEAR_PORT, OBFS_PORT)
from vlib.simloop import settle
from props import c10 as _c10

TICKET = 4242
PEER_IP = '10.0.0.5'
USER = 'bob'


def _expected_port(prefer: bool, clear: int, obfs: int):
    """The property's reading of select_port: an available port; the preferred kind when both exist."""
    if clear and obfs:
        return (obfs, True) if prefer else (clear, False)
    return (clear, False) if clear else (obfs, True)

# --------------------------------------------------------------------------------------------
# the far end
# --------------------------------------------------------------------------------------------

def _split_frame(buf: bytes, obf: bool):
    """The first frame of `buf` as a reader that expects obfuscated / plain framing sees it: (the frame de-obfuscated, incl.
    its length prefix; the rest) — (None, buf) when there is no complete frame under that reading."""
    from aioslsk.protocol import obfuscation
    hs = 8 if obf else 4
    if len(buf) < hs:
        return None, buf
    hdr = obfuscation.decode(buf[:8]) if obf else buf[:4]
    n = int.from_bytes(hdr[:4], 'little')
    if len(buf) < hs + n:
        return None, buf
    frame = buf[:hs + n]
    return (obfuscation.decode(frame) if obf else frame), buf[hs + n:]


def _far_end(raw: bytes, port_obf: bool, typ_hint: str) -> dict:
    """What a peer that follows the protocol makes of everything we have written on one connection.

    The protocol (docs/source/SOULSEEK.rst, "Obfuscation"): on a connection made to an obfuscated port the peer
    initialisation message (PeerInit / PeerPierceFirewall) is obfuscated, on a clear port it is not; after it a `P`
    connection goes on as it started, `D` and `F` connections go on in clear; an `F` connection carries raw bytes.
    The type is the one PeerInit announces (`typ_hint` for PeerPierceFirewall: the asking peer knows what it asked for).

    -> {'init': the initialisation message the peer read (None: nothing readable), 'later': the messages after it (None
        for an unreadable one), 'tail': raw bytes after it (F), 'enc': how the first frame is in fact encoded — c | o | ? |
        - (nothing written) —, 'first': that frame decoded in its own encoding}"""
    from aioslsk.protocol.messages import PeerInitializationMessage, PeerInit, PeerMessage, DistributedMessage
    out = {'init': None, 'later': [], 'tail': b'', 'enc': '-', 'first': None}
    if not raw:
        return out
    out['enc'] = '?'
    for enc, o in (('c', False), ('o', True)):
        fr, _ = _split_frame(raw, o)
        if fr is None:
            continue
        try:
            out['first'] = PeerInitializationMessage.deserialize_request(fr)
            out['enc'] = enc
            break
        except Exception:
            pass
    fr, rest = _split_frame(raw, port_obf)
    if fr is None:
        return out
    try:
        m = PeerInitializationMessage.deserialize_request(fr)
    except Exception:
        return out
    out['init'] = m
    typ = m.typ if isinstance(m, PeerInit.Request) else typ_hint
    if typ == 'F':
        out['tail'] = rest
        return out
    later_obf = port_obf and typ == 'P'
    cls = PeerMessage if typ == 'P' else DistributedMessage
    guard = 0
    while rest and guard < 64:
        guard += 1
        fr, rest2 = _split_frame(rest, later_obf)
        if fr is None:
            out['later'].append(None)
            break
        try:
            out['later'].append(cls.deserialize_request(fr))
        except Exception:
            out['later'].append(None)
        rest = rest2
    return out


class _PeerTraffic:
    """messages the library has received on peer connections (what its reader tasks hand to the application)"""

    def __init__(self, bus):
        from aioslsk.events import MessageReceivedEvent
        self.got: list = []
        self._l = self.on_message          # the bus holds listeners weakly
        bus.register(MessageReceivedEvent, self._l)

    def on_message(self, ev):
        from aioslsk.network.connection import PeerConnection
        if isinstance(ev.connection, PeerConnection):
            self.got.append((ev.connection, ev.message))


async def _probe(conn, typ: str, port_obf: bool, known: bool, rem_writer, lib_writer, traffic, val: int):
    """The caller uses the connection: the far end sends one message and is sent one, each by the protocol's rule for a
    connection of this type on a port with this obfuscation.  -> (rx, tx): our side received the peer's message / the
    peer can read ours.  `known`: the peer has read the initialisation message (else it has no connection with us)."""
    from aioslsk.protocol import obfuscation
    from aioslsk.protocol.primitives import uint32
    from aioslsk.protocol.messages import PeerUserInfoRequest, DistributedBranchLevel, PeerMessage, DistributedMessage
    later_obf = port_obf and typ == 'P'
    rx = tx = 0
    # the peer -> us
    if known:
        if typ == 'F':
            t = asyncio.ensure_future(conn.receive_transfer_ticket())
            await settle()
            try:
                rem_writer.write(uint32(val).serialize())
            except ConnectionError:
                pass
            await settle()
            rx = int(t.done() and not t.cancelled() and t.exception() is None and t.result() == val)
            if not t.done():
                t.cancel()
                await settle()
        else:
            m = PeerUserInfoRequest.Request() if typ == 'P' else DistributedBranchLevel.Request(val)
            data = m.serialize()
            n0 = len(traffic.got)
            try:
                rem_writer.write(obfuscation.encode(data) if later_obf else data)
            except ConnectionError:
                pass
            await settle()
            rx = int(any(c is conn and mm == m for c, mm in traffic.got[n0:]))
    # us -> the peer
    if typ == 'F':
        out_msg = uint32(val + 1).serialize()
    else:
        out_msg = PeerUserInfoRequest.Request() if typ == 'P' else DistributedBranchLevel.Request(val + 1)
    n_sent = len(lib_writer.sent)
    t = asyncio.ensure_future(conn.send_message(out_msg))
    await settle()
    if not t.done():
        t.cancel()
        await settle()
    elif not t.cancelled():
        t.exception()
    new = bytes(lib_writer.sent[n_sent:])
    if known and new:
        if typ == 'F':
            tx = int(new == out_msg)
        else:
            fr, rest = _split_frame(new, later_obf)
            if fr is not None and not rest:
                try:
                    tx = int((PeerMessage if typ == 'P' else DistributedMessage).deserialize_request(fr) == out_msg)
                except Exception:
                    tx = 0
    return rx, tx


class _ListenerGate:
    """Application listeners on the event bus whose every invocation can be made to suspend.

    One async listener for ConnectionStateChangedEvent, PeerInitializedEvent and MessageReceivedEvent.  Each
    invocation gets a label:
      `d:<STATE>`, `d:INIT`   state notification / PeerInitializedEvent of the outgoing connection (direct attempt);
      `a:<STATE>`, `a:INIT`   … of an incoming connection, emitted by the task that accepts it;
      `w:<STATE>`             … of an incoming connection, emitted by any other task (the request closing the
                              connection it was given);
      `m:<Message>`           a server message (listeners run *before* the response waiters are completed).
    A label the schedule has armed (`hold`) parks the invocation on a future until the schedule releases it
    (`release`); everything else returns at once, as the library's own listeners do.  `log` records
    [kind, label, probe] with kind in pass | park | resume | cancel (the invocation was interrupted by
    CancelledError) and `probe()` sampled at that very moment."""

    def __init__(self, bus, loop, accept_tasks, probe):
        from aioslsk.events import ConnectionStateChangedEvent, PeerInitializedEvent, MessageReceivedEvent
        self.loop = loop
        self.accept_tasks = accept_tasks
        self.probe = probe
        self.armed: set = set()
        self.parked: list = []        # [label, future, connection] in arrival order
        self.log: list = []
        self._l = self.on_event       # the bus holds listeners weakly
        for cls in (ConnectionStateChangedEvent, PeerInitializedEvent, MessageReceivedEvent):
            bus.register(cls, self._l)

    def label(self, ev):
        from aioslsk.events import ConnectionStateChangedEvent, PeerInitializedEvent, MessageReceivedEvent
        from aioslsk.network.connection import PeerConnection, ServerConnection
        if isinstance(ev, (ConnectionStateChangedEvent, PeerInitializedEvent)):
            conn = ev.connection
            if not isinstance(conn, PeerConnection):
                return None, None
            what = 'INIT' if isinstance(ev, PeerInitializedEvent) else ev.state.name
            if not conn.incoming:
                return 'd:' + what, conn
            accepting = asyncio.current_task() in self.accept_tasks.values()
            return ('a:' if accepting else 'w:') + what, conn
        if isinstance(ev, MessageReceivedEvent) and isinstance(ev.connection, ServerConnection):
            return 'm:' + type(ev.message).__qualname__.split('.')[0], None
        return None, None

    async def on_event(self, ev):
        lab, conn = self.label(ev)
        if lab is None:
            return
        if lab not in self.armed:
            self.log.append(['pass', lab, self.probe()])
            return
        fut = self.loop.create_future()
        ent = [lab, fut, conn]
        self.parked.append(ent)
        self.log.append(['park', lab, self.probe()])
        try:
            await fut
            self.log.append(['resume', lab, self.probe()])
        except asyncio.CancelledError:
            self.log.append(['cancel', lab, self.probe()])
            raise
        finally:
            if ent in self.parked:
                self.parked.remove(ent)

    def release(self, lab) -> bool:
        for ent in self.parked:
            if ent[0] == lab and not ent[1].done():
                ent[1].set_result(None)
                return True
        return False

    def parked_labels(self) -> list:
        return [e[0] for e in self.parked if not e[1].done()]

    def inflight(self) -> list:
        """incoming connections whose acceptance is being held up by a parked listener"""
        return [e[2] for e in self.parked if not e[1].done() and e[0].startswith('a:')]


def _run_impl(case: dict) -> dict:
    from aioslsk.network.network import Network
    from aioslsk.network.connection import PeerConnection, ConnectionState, PeerConnectionState
    from aioslsk.exceptions import PeerConnectionError
    from aioslsk.protocol import obfuscation
    from aioslsk.protocol.messages import (PeerInit, PeerPierceFirewall, GetPeerAddress, ConnectToPeer, CannotConnect,
                                           PeerInitializationMessage)
    hang = {'hit': 0}

    async def main(loop):
        import signal

        # (the budget is CPU time of this process, not wall time: a loaded machine must not look like a busy loop)
        def on_alarm(signum, frame):
            hang['hit'] += 1
            signal.setitimer(signal.ITIMER_PROF, _c10.HANG_S)
            raise _c10._Hang()
        old_prof = None
        try:
            old_prof = signal.signal(signal.SIGPROF, on_alarm)
            signal.setitimer(signal.ITIMER_PROF, _c10.HANG_S)
        except ValueError:
            pass
        audit = SiteAudit(loop)
        fn = GatedNet().install()
        try:
            mode, lookup, srv_fail = case['mode'], case['lookup'], case['srvFail']
            clear, obfs = case['ports']
            prefer = bool(case['prefer'])
            typ = case['typ']
            bus, net, server, srv_task = await start_network(loop, fn, make_settings(mode, obfuscate=prefer))
            net._ticket_generator = iter([TICKET] + list(range(9000, 9100)))

            def probe():
                f = net._expected_connection_futures.get(TICKET)
                return {'tw': int(f is not None and not f.done()),
                        'aw': int(any(x.message_class is GetPeerAddress.Response and not x.done()
                                      for x in net._expected_response_futures))}
            gate = _ListenerGate(bus, loop, fn.accept_tasks, probe)
            gate.armed |= set(case.get('hold', []))
            traffic = _PeerTraffic(bus)
            in_obf: dict = {}            # remote address of an incoming connection -> it came in on the obfuscated port
            probes: list = []            # [rx, tx] per probe
            cancel_called = [False]
            msg_held: dict = {}          # 'm:<Message>' -> the op whose message the parked listener is holding up
            srv_w = fn.lib_writers[SERVER_ADDR]
            port, obf = _expected_port(prefer, clear, obfs)
            dkey = (PEER_IP, port)
            init_cfg = {'fail': False}

            def setup(w):
                if init_cfg['fail']:
                    w.fail_after = 0
            fn.writer_setup[dkey] = setup
            n_in = [0]
            in_keys: list = []

            def arm_srv_fail():
                srv_w.fail_after = len(srv_w.sent)

            if srv_fail and mode == 'race':
                arm_srv_fail()
            if lookup:
                req = asyncio.ensure_future(net.create_peer_connection(USER, typ))
            else:
                req = asyncio.ensure_future(net.create_peer_connection(USER, typ, ip=PEER_IP, port=port, obfuscate=obf))
            await settle()
            if srv_fail and mode == 'fallback':
                arm_srv_fail()

            def srv_open():
                return not srv_w._closed

            def listed(cls):
                return [f for f in net._expected_response_futures if f.message_class is cls]

            def indirect_task():
                if mode == 'fallback':
                    return req
                for t in asyncio.all_tasks(loop):
                    if t.get_name().startswith('indirect-connect-') and not t.done():
                        return t
                return None

            def dial_parked():
                return [k for k in fn.pending if k != SERVER_ADDR and fn.connect_parked(k)]

            def enabled(name, arg):
                if name in ('addrReply', 'cannotConnect') and any(l.startswith('m:') for l in gate.parked_labels()):
                    return False         # the server reader is inside a listener: later messages just queue up
                if name == 'addrReply':
                    return bool(listed(GetPeerAddress.Response)) and srv_open()
                if name in ('connectOk', 'connectRefused', 'connectTimeout', 'connectOverflow'):
                    return bool(dial_parked())
                if name == 'pierce':
                    # one incoming connection in flight at a time (the model's bound)
                    return bool(case.get('multiPierce')) or not any(l.startswith('a:') for l in gate.parked_labels())
                if name == 'cannotConnect':
                    return srv_open()
                if name == 'indirectTimeout':
                    t = indirect_task()
                    return t is not None and not t.done() and _indirect_parked(t)
                if name == 'cancelRequest':
                    return not req.done() and not cancel_called[0]
                if name in ('hold', 'unhold', 'drain'):
                    return True
                if name == 'probe':
                    # the caller has been given a connection (and it is alive: `C11-returned-not-live` otherwise)
                    if not (req.done() and not req.cancelled() and req.exception() is None):
                        return False
                    c = req.result()
                    k = (c.hostname, c.port)
                    return (isinstance(c, PeerConnection) and c in net.peer_connections and k in fn.lib_writers
                            and not fn.lib_writers[k]._closed)
                if name == 'release':
                    return arg in gate.parked_labels()
                raise ValueError(name)

            def _indirect_parked(t):
                """the indirect attempt waits for the peer / the server (not inside the ConnectToPeer send)"""
                from vlib.connharness import _frames_of
                names = [n for n, _ in _frames_of(t)]
                return ('_make_indirect_connection' in names
                        and 'send_message' not in names[names.index('_make_indirect_connection'):])

            def let_indirect_time_out():
                """"Nothing arrives within PEER_INDIRECT_CONNECT_TIMEOUT" — however the code implements the wait.
                When no other timer is due in that period the virtual clock simply jumps over it; otherwise (race mode,
                the direct attempt still has its connect timer) exactly the timers of the indirect attempt are made due."""
                import asyncio.timeouts as _at
                from aioslsk.constants import PEER_INDIRECT_CONNECT_TIMEOUT
                t = indirect_task()
                now = loop.time()
                horizon = now + PEER_INDIRECT_CONNECT_TIMEOUT + 0.001
                mine, foreign = [], []
                for h in list(loop._scheduled):
                    if h._cancelled or h._when > horizon:
                        continue
                    cb = h._callback
                    owner = getattr(cb, '__self__', None)
                    if (getattr(cb, '__name__', '') == '_release_waiter' and h._args
                            and h._args[0] is getattr(t, '_fut_waiter', None)):
                        mine.append(('wait', h))
                    elif isinstance(owner, _at.Timeout) and getattr(owner, '_task', None) is t:
                        mine.append(('timeout', owner))
                    else:
                        foreign.append(h)
                if not foreign:
                    loop._vt = horizon
                    return
                for kind, x in mine:
                    if kind == 'wait':
                        args = tuple(x._args)
                        cb = x._callback
                        x.cancel()
                        loop.call_soon(cb, *args)
                    else:
                        x.reschedule(now)

            def do_op(name, arg):
                if name == 'addrReply':
                    if arg == 'valid':
                        m = GetPeerAddress.Response(USER, PEER_IP, clear, obfuscated_port_amount=1 if obfs else 0,
                                                    obfuscated_port=obfs)
                    elif arg == 'noAddr':
                        m = GetPeerAddress.Response(USER, '0.0.0.0', 0, obfuscated_port_amount=0, obfuscated_port=0)
                    else:
                        m = GetPeerAddress.Response(USER, PEER_IP, 0, obfuscated_port_amount=0, obfuscated_port=0)
                    msg_held['m:GetPeerAddress'] = ['addrReply', arg]
                    server.send(m)
                elif name == 'connectOk':
                    init_cfg['fail'] = not arg
                    fn.release_connect(dial_parked()[0], 'ok')
                elif name == 'connectRefused':
                    fn.release_connect(dial_parked()[0], 'refuse')
                elif name == 'connectOverflow':
                    # what open_connection raises for a port > 65535 (the wire type is uint32): not an OSError
                    fn.release_connect(dial_parked()[0], 'overflow')
                elif name == 'connectTimeout':
                    c = next(c for c in net.peer_connections if not c.incoming)
                    assert fire_timer(loop, c, 'connect')
                elif name == 'pierce':
                    n_in[0] += 1
                    key = ('10.9.0.%d' % n_in[0], 4000 + n_in[0])
                    in_keys.append(key)
                    # the peer connects to one of our listening ports and writes what that port requires
                    in_obf[key] = arg == 'obfs'
                    rr, rw = fn.incoming(OBFS_PORT if in_obf[key] else CLEAR_PORT, key)
                    data = PeerPierceFirewall.Request(TICKET).serialize()
                    rw.write(obfuscation.encode(data) if in_obf[key] else data)
                elif name == 'cannotConnect':
                    msg_held['m:CannotConnect'] = ['cannotConnect']
                    server.send(CannotConnect.Response(TICKET))
                elif name == 'indirectTimeout':
                    let_indirect_time_out()
                elif name == 'cancelRequest':
                    cancel_called[0] = True
                    req.cancel()
                elif name == 'hold':
                    gate.armed.add(arg)
                elif name == 'unhold':
                    gate.armed.discard(arg)
                elif name == 'release':
                    assert gate.release(arg)

            dialed: list = []

            def port_obf_of(k) -> bool:
                """the peer's port `k` is its obfuscated one (outgoing) / the peer came in on our obfuscated port"""
                if k in in_obf:
                    return in_obf[k]
                return bool(obfs) and k[1] == obfs

            def is_our_init(m) -> bool:
                return isinstance(m, PeerInit.Request) and m.ticket == TICKET and m.typ == typ and m.username == 'me'

            def far_view():
                """what the peer we dialled has made of the bytes on the direct socket(s)"""
                views = []
                for k in fn.rem:
                    if k[0] == PEER_IP and k in fn.lib_writers:
                        views.append(_far_end(bytes(fn.lib_writers[k].sent), port_obf_of(k), typ))
                return views

            async def do_probe():
                c = req.result()
                k = (c.hostname, c.port)
                pobf = port_obf_of(k)
                lw = fn.lib_writers[k]
                known = c.incoming or is_our_init(_far_end(bytes(lw.sent), pobf, typ)['init'])
                rx, tx = await _probe(c, typ, pobf, known, fn.rem[k][1], lw, traffic, 7000 + 2 * len(probes))
                probes.append([rx, tx])

            def snapshot():
                # what the peer received on the direct socket: as it is in fact encoded (`init`, `enc`: compared with the
                # model), and as the peer reads it (`far_init`: the monitor)
                views = far_view()
                init_ok = int(any(v['enc'] in ('c', 'o') and is_our_init(v['first']) for v in views))
                enc = next((v['enc'] for v in views if v['enc'] != '-'), '-')
                far_init = int(any(is_our_init(v['init']) for v in views))
                if not req.done():
                    res = 'pending'
                    ret = None
                elif req.cancelled():
                    res, ret = 'cancelled', None
                elif req.exception() is not None:
                    res = 'raised' if isinstance(req.exception(), PeerConnectionError) else 'exc:' + type(req.exception()).__name__
                    ret = None
                else:
                    ret = req.result()
                    res = 'I' if ret.incoming else 'D'
                    usable = (isinstance(ret, PeerConnection) and ret.state == ConnectionState.CONNECTED
                              and ret.connection_state != PeerConnectionState.AWAITING_INIT
                              and ret.connection_type == typ and ret.username == USER)
                    if not usable:
                        res += '!unusable'
                reg = sorted(('i' if c.incoming else 'd') for c in net.peer_connections)
                inflight = gate.inflight()
                others = [c for c in net.peer_connections if ret is not None and c is not ret and c not in inflight]
                tw = int(TICKET in net._expected_connection_futures)
                extra_t = [t for t in net._expected_connection_futures if t != TICKET]
                rw_n = len(listed(CannotConnect.Response))
                aw_n = len(listed(GetPeerAddress.Response))
                op = []
                for k, w in fn.lib_writers.items():
                    if k == SERVER_ADDR or w._closed:
                        continue
                    op.append('i' if k in in_keys else 'd')
                ctp = int(any(isinstance(r, ConnectToPeer.Request) and r.ticket == TICKET and r.username == USER
                              and r.typ == typ for r in server.received))
                held = sorted(gate.parked_labels())
                line = (f"res={res} reg={','.join(reg)} tw={tw} rw={rw_n} aw={aw_n} open={','.join(sorted(op))} "
                        f"ctp={ctp} init={init_ok} enc={enc} "
                        f"held={','.join(l for l in held if not l.startswith('m:'))}")
                inflight_keys = [(c.hostname, c.port) for c in inflight]
                if extra_t:
                    line += f' EXTRA_TICKETS={extra_t}'
                acc_exc = sorted({type(t.exception()).__name__ for t in fn.accept_tasks.values()
                                  if t.done() and not t.cancelled() and t.exception() is not None})
                facts = {'res': res, 'reg': reg, 'tw': tw, 'rw': rw_n, 'aw': aw_n, 'open': sorted(op),
                         'held': held, 'far_init': far_init, 'enc': enc,
                         'dial_port_obf': [port_obf_of(k) for k in fn.rem if k[0] == PEER_IP],
                         'inflight_reg': sum(1 for c in inflight if c in net.peer_connections),
                         'inflight_open': sum(1 for k in inflight_keys if k in fn.lib_writers and not fn.lib_writers[k]._closed),
                         'reg_states': sorted(('i' if c.incoming else 'd') + ':' + c.state.name + ':' + c.connection_state.name for c in net.peer_connections),
                         'accept_exceptions': acc_exc,
                         'reg_initialised': all(c.connection_state != PeerConnectionState.AWAITING_INIT
                                                and c.state == ConnectionState.CONNECTED for c in net.peer_connections),
                         'other_registered': len(others), 'extra_tickets': extra_t,
                         'children_pending': sorted(t.get_name().split('-')[0] for t in asyncio.all_tasks(loop)
                                                    if not t.done() and (t.get_name().startswith('direct-connect-')
                                                                         or t.get_name().startswith('indirect-connect-')))}
                return line, facts

            executed, lines, facts_l, skipped, logs, mlines = [], [], [], [], [], []

            def model_lines_of(own: list, log: list) -> list:
                """the model ops one executed schedule op amounts to: the op itself (unless its server message is being
                held up by a listener), then one `note` per notification whose listeners returned (passed or resumed)"""
                out = list(own)
                for kind, lab, pr in log:
                    if lab.startswith('m:'):
                        held_op = msg_held.get(lab)
                        if kind == 'park' and held_op is not None:
                            # the message has not taken effect yet
                            out = [l for l in out if l != _fmt_op(held_op)]
                        elif kind == 'resume' and held_op is not None:
                            if held_op[0] != 'addrReply' or pr['aw']:
                                out.append(_fmt_op(held_op))
                    elif kind in ('pass', 'resume'):
                        out.append('note ' + lab)
                return out or ['show']

            line, facts = snapshot()
            lines.append(line)
            facts_l.append(facts)
            logs.append(list(gate.log))
            mlines.append(model_lines_of([], gate.log))
            exec_idx: list = []
            for j_, op in enumerate(case['ops']):
                name = op[0]
                arg = op[1] if len(op) > 1 else None
                n_log = len(gate.log)
                own = []
                if name == 'pair':
                    # two completions inside ONE settle: A, `gap` loop iterations, B  (coincidence family, monitor only)
                    _, a, b, gap = op
                    if not enabled(a[0], a[1] if len(a) > 1 else None):
                        skipped.append(op)
                        continue
                    do_op(a[0], a[1] if len(a) > 1 else None)
                    for _ in range(gap):
                        await asyncio.sleep(0)
                    if enabled(b[0], b[1] if len(b) > 1 else None):
                        do_op(b[0], b[1] if len(b) > 1 else None)
                    else:
                        op = ['pair', a, ['-'], gap]
                elif not enabled(name, arg):
                    skipped.append(op)
                    continue
                elif name == 'probe':
                    await do_probe()
                    own = ['probe']
                elif name == 'drain':
                    # every listener returns: nothing is armed any more, the parked invocations are released one by one
                    gate.armed.clear()
                    guard = 0
                    while gate.parked_labels() and guard < 64:
                        guard += 1
                        gate.release(gate.parked_labels()[0])
                        await settle()
                else:
                    do_op(name, arg)
                    if name not in ('hold', 'unhold', 'release'):
                        own = [_fmt_op(op)]
                await settle()
                for k in fn.attempts:
                    if k != SERVER_ADDR and k not in dialed:
                        dialed.append(k)
                line, facts = snapshot()
                if name == 'probe':
                    line += ' use=%d%d' % tuple(probes[-1])
                    facts['use'] = list(probes[-1])
                    facts['use_port_obf'] = port_obf_of((req.result().hostname, req.result().port))
                executed.append(op)
                exec_idx.append(j_)
                lines.append(line)
                facts_l.append(facts)
                logs.append(gate.log[n_log:])
                mlines.append(model_lines_of(own, gate.log[n_log:]))
            dconn = [c for c in [*net.peer_connections] if not c.incoming]
            keep = (bus, net, srv_task, gate, traffic)  # noqa: F841
            return {'executed': executed, 'exec_idx': exec_idx, 'lines': lines, 'facts': facts_l, 'skipped': skipped,
                    'logs': logs, 'mlines': mlines,
                    'dialed': [list(k) for k in dialed], 'expected_dial': [PEER_IP, port], 'hang': hang['hit'], 'sites': sorted(audit.sites),
                    'site_callers': {k: sorted(v) for k, v in getattr(audit, 'callers', {}).items()},
                    'dial_obfuscated': [bool(c.obfuscated) for c in dconn],
                    'loop_exceptions': [e for e in loop.exceptions if e.get('type') not in (None, 'CancelledError', '_Hang')]}
        finally:
            try:
                signal.setitimer(signal.ITIMER_PROF, 0)
                if old_prof is not None:
                    signal.signal(signal.SIGPROF, old_prof)
            except ValueError:
                pass
            fn.uninstall()
            audit.close()
            try:
                bus._events.clear()      # drop the bus' weak references now, not at interpreter exit
            except Exception:
                pass

    logging.disable(logging.CRITICAL)
    try:
        res, _loop = simloop.run(main)
    finally:
        logging.disable(logging.NOTSET)
    return res


def _fmt_op(op: list) -> str:
    if op[0] == 'connectOverflow':
        return 'connectRefused'          # the model has one op for "open_connection raises"
    if op[0] == 'connectOk':
        return f'connectOk {int(bool(op[1]))}'
    if op[0] == 'pierce':
        return f"pierce {int(len(op) > 1 and op[1] == 'obfs')}"
    if len(op) > 1:
        return f'{op[0]} {op[1]}'
    return op[0]


def _model_groups(case: dict, io: dict) -> list[list[str]]:
    """one group of driver lines per observed snapshot; the answer to the LAST line of a group is compared with the
    snapshot, no line of a group may be rejected"""
    groups = [list(g) for g in io['mlines']]
    _, dial_obf = _expected_port(bool(case['prefer']), *case['ports'])
    groups[0] = [f"new {case['mode']} {int(bool(case['lookup']))} {int(bool(case['srvFail']))} {case['typ']} "
                 f"{int(dial_obf)}"] + \
        [l for l in groups[0] if l != 'show']
    return groups


# --------------------------------------------------------------------------------------------
# monitor
# --------------------------------------------------------------------------------------------

def _offered(case: dict) -> list:
    """What the SCHEDULE offers the request, op by op — from the case alone, independent of the implementation and of
    the Lean model: which attempt is (still) able to succeed and what the request therefore has to do.
    Returns, per proposed op, (required outcome so far, which attempt succeeded): outcome in
    pending | returned | raised | cancelled.  Reading of the property: the direct attempt can succeed iff an address
    with a usable port is known and the connect + PeerInit write succeed; the indirect attempt can succeed iff
    ConnectToPeer can be written and the peer pierces before CannotConnect / the timeout; fallback mode makes the
    indirect attempt when the direct one has failed, race mode from the start; first success wins."""
    race = case['mode'] == 'race'
    srv_dead = bool(case['srvFail'])
    d = 'addr' if case['lookup'] else 'opening'
    i = ('dead' if srv_dead else 'waiting') if race else 'ns'
    fin, who = None, None
    out = []

    def direct_dead():
        nonlocal d, i, fin
        d = 'dead'
        if not race:
            i = 'dead' if srv_dead else 'waiting'
        if i == 'dead':
            fin = 'raised'

    for op in case['ops']:
        name = op[0]
        arg = op[1] if len(op) > 1 else None
        if fin is None:
            if name == 'addrReply' and d == 'addr':
                if arg == 'valid':
                    d = 'opening'
                else:
                    direct_dead()
            elif name == 'connectOk' and d == 'opening':
                if arg:
                    d, fin, who = 'ok', 'returned', 'direct'
                else:
                    direct_dead()
            elif name in ('connectRefused', 'connectTimeout', 'connectOverflow') and d == 'opening':
                direct_dead()
            elif name == 'pierce' and i == 'waiting':
                i, fin, who = 'ok', 'returned', 'indirect'
            elif name in ('cannotConnect', 'indirectTimeout') and i == 'waiting':
                i = 'dead'
                if not race or d == 'dead':
                    fin = 'raised'
            elif name == 'cancelRequest':
                fin = 'cancelled'
        out.append((fin or 'pending', who))
    return out


def _has_holds(case: dict) -> bool:
    return bool(case.get('hold')) or any(op[0] in ('hold', 'release', 'drain') for op in case['ops'])


def _monitor(case: dict, impl: dict) -> list[Violation]:
    vs: list[Violation] = []
    full_case = dict(case)
    full_case['ops'] = impl['executed']

    def add(sig, what, observed=None, required=None, upto=None):
        c = full_case
        if upto is not None:
            c = dict(case)
            c['ops'] = case['ops'][:upto + 1]
        vs.append(Violation(sig, what, c, observed=observed, required=required))

    # --- the request does what the schedule's offers require (not for the coincidence family: there either of two
    #     simultaneous outcomes may win)
    if not case['kind'].startswith('coincidence') and not _has_holds(case) and 'exec_idx' in impl:
        offered = _offered(case)
        final_req, final_who = offered[-1] if offered else ('pending', None)
        # result of the real call after proposal j = at the last executed op with proposal index <= j
        res_at, k = [], 0
        for j in range(len(case['ops'])):
            while k < len(impl['exec_idx']) and impl['exec_idx'][k] <= j:
                k += 1
            res_at.append(impl['facts'][k]['res'])        # facts[0] is the state before any op
        flagged = False
        for j, ((req_j, who_j), res) in enumerate(zip(offered, res_at)):
            if flagged:
                break
            got = 'returned' if res in ('D', 'I') else res
            if req_j == 'returned' and got != 'returned':
                flagged = True
                sig = (f'C11-raised-although-{who_j}-possible' if got == 'raised' else 'C11-not-returned')
                add(sig, f'{case["mode"]} mode, after {case["ops"][j]}: the {who_j} attempt succeeded according to the '
                    f'schedule (address usable / ConnectToPeer writable, the peer {"accepted the connection and PeerInit" if who_j == "direct" else "pierced before CannotConnect and the timeout"}), '
                    f'the request was not cancelled, but create_peer_connection is {res}', impl['lines'][min(k, len(impl['lines']) - 1)],
                    'returns an initialised, usable connection whenever the direct or the indirect attempt can succeed',
                    upto=j)
            elif req_j == 'pending' and got == 'raised' and final_req == 'returned':
                flagged = True
                jj = next(x for x, (r, _) in enumerate(offered) if r == 'returned')
                add(f'C11-raised-although-{final_who}-possible',
                    f'{case["mode"]} mode, after {case["ops"][j]}: create_peer_connection raised although the {final_who} '
                    f'attempt can still succeed (the schedule lets it succeed at {case["ops"][jj]}); '
                    + ('ConnectToPeer was never sent' if final_who == 'indirect' and 'ctp=0' in impl['lines'][-1] else
                       'it gave up early'), impl['lines'][-1],
                    'raises only when neither attempt can succeed', upto=jj)
            elif req_j == 'raised' and got == 'returned':
                flagged = True
                add('C11-returned-although-nothing-worked', f'after {case["ops"][j]}: both attempts failed according to the '
                    f'schedule but the request returned {res}', None, 'PeerConnectionError', upto=j)

    # what the environment offered while the request was pending (independent of the model)
    direct_ok = indirect_ok = False
    direct_dead = indirect_dead = False
    indirect_started = False
    wire_flagged = False
    ops = [None] + impl['executed']
    logs = impl.get('logs') or [[] for _ in ops]
    for n, (op, f) in enumerate(zip(ops, impl['facts'])):
        prev = impl['facts'][n - 1] if n else None
        pending_before = prev is None or prev['res'] == 'pending'
        ctp_seen = 'ctp=1' in impl['lines'][n]
        if pending_before:
            # an attempt has succeeded once the listeners of its PeerInitializedEvent have returned (direct), resp.
            # have returned while the request was still waiting for the ticket (indirect) — see DESIGN, C11
            for kind, lab, pr in logs[n]:
                if kind in ('pass', 'resume') and lab == 'd:INIT':
                    direct_ok = True
                if kind in ('pass', 'resume') and lab == 'a:INIT' and pr['tw']:
                    indirect_ok = True
        if op is not None and pending_before:
            name = op[0]
            if name in ('connectRefused', 'connectTimeout', 'connectOverflow') or (name == 'connectOk' and not op[1]) or \
                    (name == 'addrReply' and op[1] != 'valid'):
                direct_dead = True
            if name in ('cannotConnect', 'indirectTimeout') and prev is not None and prev['rw']:
                indirect_dead = True
        if ctp_seen:
            indirect_started = True
        res = f['res']
        if res.startswith('exc:'):
            add('C11-bad-result', f'after {op} ({case["mode"]} mode): create_peer_connection let {res[4:]} escape instead of '
                'raising PeerConnectionError (the only failure its callers handle)', impl['lines'][n],
                'an initialised, usable connection of the requested type, or PeerConnectionError')
        elif res.endswith('!unusable'):
            add('C11-bad-result', f'after {op}: create_peer_connection ended with {res}', impl['lines'][n],
                'an initialised, usable connection of the requested type, or PeerConnectionError')
        # --- the far end (docs/source/SOULSEEK.rst, "Obfuscation"): the connection the request returns is one the peer
        #     has, and one that carries messages both ways
        if res == 'D' and not f.get('far_init', 1) and not wire_flagged:
            wire_flagged = True
            pobf = (f.get('dial_port_obf') or [None])[0]
            add('C11-peer-cannot-read-init', f'after {op} ({case["mode"]} mode, type {case["typ"]}): create_peer_connection '
                f'returned the direct connection, but the peer — reached on its {"obfuscated" if pobf else "clear"} port, '
                f'where the peer-init message has to be {"obfuscated" if pobf else "in clear"} — has not been sent a '
                f'readable PeerInit(me, {case["typ"]}, ticket): what we wrote is '
                f'{ {"c": "in clear", "o": "obfuscated", "-": "nothing", "?": "not a peer-init message in either encoding"}[f.get("enc", "?")]}',
                impl['lines'][n], 'an initialised connection: the peer knows who connected, for what type and ticket')
        if 'use' in f and not wire_flagged and f['use'] != [1, 1]:
            wire_flagged = True
            rx, tx = f['use']
            pobf = f.get('use_port_obf')
            add('C11-connection-unusable', f'({case["mode"]} mode, type {case["typ"]}, the '
                f'{"pierced" if res.startswith("I") else "direct"} connection, made on a'
                f'{"n obfuscated" if pobf else " clear"} port) the caller used the connection it was given: '
                + '; '.join(([] if rx else ['a message the peer sent — encoded as the protocol says for this type and port — '
                                            'was not received']) +
                            ([] if tx else ['the message we sent cannot be read by a peer that decodes as the protocol says '
                                            'for this type and port'])),
                impl['lines'][n], 'a usable connection of the requested type')
        if res == 'raised' and (direct_ok or indirect_ok):
            add('C11-raised-though-path-worked', f'after {op}: PeerConnectionError although '
                f'{"the direct" if direct_ok else "the indirect"} attempt succeeded', impl['lines'][n], 'returns the connection')
        if res != 'pending':
            left = []
            if f['tw']:
                left.append('ticket waiter')
            if f['rw']:
                left.append('CannotConnect waiter')
            if f['aw']:
                left.append('GetPeerAddress waiter')
            if f['extra_tickets']:
                left.append('foreign ticket waiters')
            returned = 1 if res in ('D', 'I') else 0
            # an incoming connection whose acceptance an application listener is still holding up (`a:` parked) is not
            # the request's: it has not even been matched to a ticket, or is being closed as soon as the listener returns
            n_reg = len(f['reg']) - f.get('inflight_reg', 0)
            n_open = len(f['open']) - f.get('inflight_open', 0)
            if n_reg > returned or (returned and f['other_registered']):
                left.append(f"registered connections {f['reg']} besides the returned one")
            if n_open > returned:
                left.append(f"open sockets {f['open']} besides the returned one")
            if f['children_pending']:
                left.append(f"attempt tasks still running: {f['children_pending']}")
            if returned and (res.lower() not in f['reg'] or res.lower() not in f['open']):
                add('C11-returned-not-live', f'after {op}: the returned connection is not registered / not open',
                    impl['lines'][n])
            if left:
                sig = 'C11-leftover-' + ('waiter' if ('waiter' in left[0]) else 'connection' if 'registered' in left[0]
                                         or 'open' in left[0] else 'task')
                add(sig, f'after {op} (request {res}): left behind: ' + '; '.join(left), impl['lines'][n],
                    'exactly the returned connection remains')
    final = impl['facts'][-1]
    if final['res'] == 'pending' and not final.get('held'):
        srv_dead = case['srvFail']
        ind_dead = indirect_dead or srv_dead
        if direct_ok or indirect_ok:
            add('C11-not-returned', 'a path succeeded but the request is still pending at quiescence', impl['lines'][-1])
        elif direct_dead and ind_dead and (indirect_started or srv_dead):
            add('C11-not-raised', 'both attempts failed but the request is still pending at quiescence', impl['lines'][-1])
    # select_port: the address the library dialled
    if impl['dialed']:
        if impl['dialed'][0] != impl['expected_dial'] or len(impl['dialed']) > 1:
            add('C11-select-port', f"dialled {impl['dialed']}", impl['dialed'],
                f"{impl['expected_dial']} (an available port, the preferred kind when both exist)")
    acc = sorted({x for f in impl['facts'] for x in f.get('accept_exceptions', [])})
    if acc:
        add('C11-internal-error', f'the accept handler of a piercing connection died with {acc} (the connection stays '
            'initialised and registered, nobody owns it)', acc, 'a pierce nobody waits for any more is disconnected')
    if impl.get('hang'):
        add('C11-hang', 'the library spun without suspending', impl['lines'][-2:])
    for e in impl.get('loop_exceptions', []):
        add('C11-internal-error', 'exception reported to the loop exception handler', e)
    return vs


def _monitor_back(case: dict, io: dict) -> list[Violation]:
    """connect-back (K_C10 `back` scenarios): the asking peer got a pierce-firewall message or the server a
    CannotConnect, unless the connect-back task itself was cancelled."""
    vs = []
    toks = []
    for l in io['lines']:
        parts = dict(p.split('=', 1) for p in l.split(' ') if '=' in p)
        toks += [t for t in parts.get('ev', '').split(',') if t] + [t for t in parts.get('res', '').split(',') if t]
    over = any(t.startswith('att:') for t in toks)
    if case['kind'].startswith('back') and over and 'att:cancelled' not in toks and 'wrote' not in toks and 'cc' not in toks:
        vs.append(Violation('C11-connect-back-unanswered', 'the connect-back attempt ended, but neither a '
                            'PeerPierceFirewall reached the peer nor a CannotConnect the server',
                            {'kind': 'back:' + case['kind'], 'c10case': {'kind': case['kind'], 'server': False,
                                                                         'ops': io['executed']}}, toks))
    at = next((l for l in io['lines'] if 'att:cancelled' in l), None)
    if case['kind'].startswith('direct') and at is not None:
        # the quiescent point right after the cancellation was delivered
        parts = dict(p.split('=', 1) for p in at.split(' ') if '=' in p)
        if parts.get('st', '').split(',')[0] not in ('CLOSING', 'CLOSED'):
            vs.append(Violation('C11-leftover-connection', 'the direct attempt was cancelled (as the race does with the '
                                'loser) but its connection is neither closed nor closing: ' + at,
                                {'kind': 'direct:' + case['kind'], 'c10case': {'kind': case['kind'], 'server': False,
                                                                               'ops': io['executed']}}, toks,
                                "the losing attempt's socket is closed and unregistered"))
    return vs


def _run_back_wire(case: dict) -> dict:
    """Connect-back at wire level: the server passes on a ConnectToPeer of `bob` (type, clear / obfuscated port); the
    library dials the port `select_port` picks; the connect succeeds / is refused / the first write fails.  Observed: what
    the asking peer — decoding as the protocol says for the port that was dialled — has read, whether the server was told
    CannotConnect, and (when connected) one message each way on the new connection.
    case = {'kind': 'wireback:…', 'typ', 'prefer', 'ports': [clear, obfs], 'how': ok | refused | write-fails}
    `obfs` None = the message ends after `privileged` (no obfuscated-port fields); clear 0 and obfs 0 / None = the asking peer
    has no listening port the server knows of — whatever is dialled then (port 0) is refused at once by the OS (`how` is
    `refused`; a library that does not dial at all is fine too: line `dial=0`)."""
    from aioslsk.protocol.messages import ConnectToPeer, CannotConnect, PeerPierceFirewall

    async def main(loop):
        fn = GatedNet().install()
        try:
            clear, obfs = case['ports']
            typ, how = case['typ'], case['how']
            bus, net, server, srv_task = await start_network(loop, fn, make_settings('fallback', obfuscate=bool(case['prefer'])))
            traffic = _PeerTraffic(bus)
            port, obf = _expected_port(bool(case['prefer']), clear, obfs or 0)
            if how == 'write-fails':
                fn.writer_setup[(PEER_IP, port)] = lambda w: setattr(w, 'fail_after', 0)
            if obfs is None:
                server.send(ConnectToPeer.Response(USER, typ, PEER_IP, clear, TICKET, False))
            else:
                server.send(ConnectToPeer.Response(USER, typ, PEER_IP, clear, TICKET, False,
                                                   obfuscated_port_amount=1 if obfs else 0, obfuscated_port=obfs))
            await settle()
            dial = [k for k in fn.pending if k != SERVER_ADDR and fn.connect_parked(k)]
            if dial:
                fn.release_connect(dial[0], 'refuse' if how == 'refused' else 'ok')
                await settle()
            key = dial[0] if dial else None
            lw = fn.lib_writers.get(key) if key else None
            pobf = bool(obfs) and key is not None and key[1] == obfs
            view = _far_end(bytes(lw.sent) if lw is not None else b'', pobf, typ)
            pierced = int(isinstance(view['init'], PeerPierceFirewall.Request) and view['init'].ticket == TICKET)
            enc = view['enc'] if isinstance(view['first'], PeerPierceFirewall.Request) or view['enc'] in '-?' else '?'
            cc = int(any(isinstance(r, CannotConnect.Request) and r.ticket == TICKET and r.username == USER
                         for r in server.received))
            conn = next((c for c in net.peer_connections if not c.incoming), None)
            use = None
            if conn is not None and lw is not None and not lw._closed:
                use = list(await _probe(conn, typ, pobf, bool(pierced), fn.rem[key][1], lw, traffic, 7100))
            keep = (bus, net, srv_task, traffic)  # noqa: F841
            # canonical: port 0 / None is no port (`dial=0` also when nothing was dialled); `ans` = who was answered
            line = (f'dial={(key[1] or 0) if key else 0} obf={int(pobf)} ans={"p" if pierced else ""}{"s" if cc else ""} '
                    f'reg={len(net.peer_connections)} enc={enc}' + (' use=%d%d' % tuple(use) if use is not None else ''))
            return {'line': line, 'dialed': [list(k) for k in dial], 'expected_dial': [PEER_IP, port], 'port_obf': pobf,
                    'pierced': pierced, 'cc': cc, 'use': use, 'enc': enc,
                    'registered': len(net.peer_connections),
                    'loop_exceptions': [e for e in loop.exceptions if e.get('type') not in (None, 'CancelledError')]}
        finally:
            fn.uninstall()
            try:
                bus._events.clear()
            except Exception:
                pass

    logging.disable(logging.CRITICAL)
    try:
        res, _loop = simloop.run(main)
    finally:
        logging.disable(logging.NOTSET)
    return res


def _monitor_back_wire(case: dict, io: dict) -> list[Violation]:
    vs = []
    usable_port = bool(case['ports'][0] or case['ports'][1])
    if usable_port and io['dialed'] and io['dialed'][0] != io['expected_dial']:
        vs.append(Violation('C11-select-port', f"connect-back dialled {io['dialed']}", case, io['dialed'],
                            f"{io['expected_dial']} (an available port, the preferred kind when both exist)"))
    if not io['pierced'] and not io['cc']:
        how = {'c': 'in clear', 'o': 'obfuscated', '-': 'nothing', '?': 'not a peer-init message in either encoding'}[io['enc']]
        vs.append(Violation('C11-connect-back-unanswered',
                            f'the server passed on a ConnectToPeer (type {case["typ"]}, ports {case["ports"]}); we dialled '
                            + (f'the peer\'s {"obfuscated" if io["port_obf"] else "clear"} port' if usable_port else
                               f'{io["dialed"] or "nothing"} (the peer has no usable port)') +
                            f' (connect: {case["how"]}); the peer — decoding as '
                            f'the protocol says for that port — has not read a PeerPierceFirewall with the ticket (what we wrote: '
                            f'{how}) and the server was not sent CannotConnect', case, io['line'],
                            'a pierce-firewall message to the peer or a cannot-connect report to the server'))
    return vs


def _wireback_cases() -> list[dict]:
    """type x port situation of the ConnectToPeer x outcome of the dial.  Port situations: the 6 of the direct grid, the clear
    port alone with the obfuscated-port fields absent from the message, and NO usable port at all (0 / absent, 0 / 0: the
    server passes on what it knows of a peer that has not announced a listening port) — there the only outcome is the
    immediate refusal, and the asking peer must still be answered (CannotConnect)."""
    cs = [{'kind': f'wireback:{typ}:{how}', 'typ': typ, 'prefer': prefer, 'ports': [clear, obfs], 'how': how}
          for typ in TYPES for clear, obfs, prefer in PORT_CFGS + ABSENT_CFGS for how in ('ok', 'refused', 'write-fails')]
    cs += [{'kind': f'wireback:{typ}:no-port', 'typ': typ, 'prefer': prefer, 'ports': [clear, obfs], 'how': 'refused'}
           for typ in TYPES for clear, obfs, prefer in NOPORT_CFGS]
    return cs


# --------------------------------------------------------------------------------------------
# generator
# --------------------------------------------------------------------------------------------

DIRECT = {'ok': [['connectOk', 1]], 'refused': [['connectRefused']], 'timeout': [['connectTimeout']],
          'init-fails': [['connectOk', 0]], 'overflow': [['connectOverflow']], 'none': []}
INDIRECT = {'pierce': [['pierce']], 'cannot-connect': [['cannotConnect']], 'timeout': [['indirectTimeout']], 'none': []}
LATE = [['probe'], ['pierce'], ['cannotConnect'], ['pierce', 'obfs'], ['connectOk', 1], ['indirectTimeout'], ['cancelRequest'],
        ['probe']]
TYPES = 'PDF'
PORT_CFGS = [(2234, 0, 0), (0, 2235, 0), (2234, 2235, 0), (2234, 2235, 1), (2234, 0, 1), (0, 2235, 1)]
ABSENT_CFGS = [(2234, None, 0), (2234, None, 1)]                  # connect-back only: no obfuscated-port fields in the message
NOPORT_CFGS = [(0, None, 0), (0, None, 1), (0, 0, 0), (0, 0, 1)]  # connect-back only: nothing to dial


def _with_pierce_port(ops: list, obfs: bool) -> list:
    """the same schedule with the peer piercing on our obfuscated listening port"""
    return [['pierce', 'obfs'] if (obfs and o[0] == 'pierce' and len(o) == 1) else list(o) for o in ops]


def _interleavings(a: list, b: list) -> list[list]:
    if not a:
        return [list(b)]
    if not b:
        return [list(a)]
    return [[a[0]] + r for r in _interleavings(a[1:], b)] + [[b[0]] + r for r in _interleavings(a, b[1:])]


def _grid() -> list[dict]:
    cases = []
    port_cfgs = PORT_CFGS
    k = 0
    for mode in ('fallback', 'race'):
        for lookup in (0, 1):
            for srv_fail in (0, 1):
                if srv_fail and mode == 'race' and lookup:
                    continue     # the failing write would take the server connection down before the address reply
                for dname, dops in DIRECT.items():
                    for iname, iops in INDIRECT.items():
                        addr_variants = [[['addrReply', 'valid']]] if lookup else [[]]
                        if lookup and dname == 'none':
                            addr_variants = [[['addrReply', 'noAddr']], [['addrReply', 'noPort']], []]
                        for addr_ops in addr_variants:
                            for order in _interleavings(addr_ops + dops, iops):
                                for cancel_at in [None] + list(range(len(order) + 1)):
                                    ops = list(order)
                                    if cancel_at is not None:
                                        ops = ops[:cancel_at] + [['cancelRequest']] + ops[cancel_at:]
                                    # connection type x port situation x the listening port the peer pierces on rotate
                                    # through all 36 combinations (k mod 36), independently of one another
                                    clear, obfs, prefer = port_cfgs[k % 6]
                                    typ = TYPES[(k // 6) % 3]
                                    ops = _with_pierce_port(ops, (k // 18) % 2 == 1)
                                    k += 1
                                    cases.append({'kind': f'{mode}:{"lookup" if lookup else "given"}:'
                                                          f'{"srvfail:" if srv_fail else ""}d={dname}:i={iname}',
                                                  'mode': mode, 'lookup': lookup, 'srvFail': srv_fail,
                                                  'typ': typ, 'prefer': prefer, 'ports': [clear, obfs],
                                                  'ops': ops + LATE})
    return cases


def _wire_grid() -> list[dict]:
    """The full product mode x connection type P / D / F x the six port situations (which decide whether the dialled port
    is the peer's obfuscated one) x address given / looked up x who succeeds — the direct attempt; the peer piercing on
    our clear / on our obfuscated listening port (fallback: after the direct attempt was refused; race: while it is still
    dialling, and after the direct attempt has won) — each followed by the caller using the connection (`probe`), twice."""
    cases = []
    for mode in ('fallback', 'race'):
        for typ in TYPES:
            for clear, obfs, prefer in PORT_CFGS:
                for lookup in (0, 1):
                    head = [['addrReply', 'valid']] if lookup else []
                    lose = [['connectRefused']] if mode == 'fallback' else []
                    scen = {'direct': [['connectOk', 1]],
                            'pierce-clear': lose + [['pierce']],
                            'pierce-obfs': lose + [['pierce', 'obfs']],
                            'direct-then-pierce-obfs': [['connectOk', 1], ['pierce', 'obfs']],
                            'pierce-obfs-then-direct': lose + [['pierce', 'obfs'], ['connectOk', 1]]}
                    for name, ops in scen.items():
                        cases.append({'kind': f'wire:{mode}:{typ}:{name}', 'mode': mode, 'lookup': lookup, 'srvFail': 0,
                                      'typ': typ, 'prefer': prefer, 'ports': [clear, obfs],
                                      'ops': head + [list(o) for o in ops] + [['probe'], ['probe'], ['cannotConnect'], ['probe']]})
    return cases


def _coincidence() -> list[dict]:
    """Two completions inside ONE settle (A, gap loop iterations, B), both orders, gap 0..5: the windows between a
    waiter being completed / cancelled and its task waking / its removal callback running.  Monitor only — the model's
    step is one completion to quiescence."""
    cases = []
    for mode in ('fallback', 'race'):
        pres = [[['connectRefused']]] if mode == 'fallback' else [[], [['connectRefused']]]
        for pre in pres:
            partners = [['cannotConnect'], ['indirectTimeout'], ['cancelRequest']]
            if mode == 'race' and not pre:
                partners += [['connectOk', 1], ['connectOk', 0], ['connectRefused'], ['connectTimeout']]
            for partner in partners:
                for a, b in ((['pierce'], partner), (partner, ['pierce'])):
                    for gap in range(6):
                        for lookup in (0, 1):
                            if lookup and gap % 2:
                                continue
                            head = ([['addrReply', 'valid']] if lookup else []) + pre
                            tail = ([['connectRefused']] if mode == 'race' and not pre else []) + LATE
                            cases.append({'kind': f'coincidence:{mode}:{a[0]}+{b[0]}:gap{gap}', 'mode': mode,
                                          'lookup': lookup, 'srvFail': 0, 'typ': 'PFD'[gap % 3], 'prefer': gap % 2,
                                          'ports': [2234, 2235], 'ops': head + [['pair', a, b, gap]] + tail})
        # any completion and the cancellation of the request 0..9 loop iterations later: the request is cancelled in
        # the very iteration in which an attempt finished, while the race is gathering the loser, while it is
        # disconnecting a second winner (fixes/C11-race-cancel-orphan.md)
        for pre in ([[]] if mode == 'race' else [[], [['connectRefused']]]):
            for first in ENV_OPS[:-1]:
                for gap in range(10):
                    for lookup in ((0, 1) if gap < 3 else (0,)):
                        head = ([['addrReply', 'valid']] if lookup else []) + pre
                        cases.append({'kind': f'coincidence:{mode}:{first[0]}+cancelRequest:gap{gap}', 'mode': mode,
                                      'lookup': lookup, 'srvFail': 0, 'typ': 'PFD'[gap % 3], 'prefer': gap % 2,
                                      'ports': [2234, 2235], 'ops': head + [['pair', list(first), ['cancelRequest'], gap]] + LATE})
        # two outcomes of the same kind of waiter, and three-way: CannotConnect + timeout + pierce
        for gap in range(4):
            pre = [['connectRefused']] if mode == 'fallback' else []
            cases.append({'kind': f'coincidence:{mode}:cannotConnect+indirectTimeout:gap{gap}', 'mode': mode, 'lookup': 0,
                          'srvFail': 0, 'typ': 'P', 'prefer': 0, 'ports': [2234, 0],
                          'ops': pre + [['pair', ['cannotConnect'], ['indirectTimeout'], gap], ['pierce'], ['connectRefused']]})
    return cases


# ---- suspended listeners ---------------------------------------------------------------------

D_LABELS = ['d:CONNECTING', 'd:CONNECTED', 'd:INIT', 'd:CLOSING', 'd:CLOSED']
A_LABELS = ['a:CONNECTED', 'a:INIT', 'a:CLOSING', 'a:CLOSED']
W_LABELS = ['w:CLOSING', 'w:CLOSED']
M_LABELS = ['m:CannotConnect', 'm:GetPeerAddress']
HOLD_SETS = ([[l] for l in D_LABELS + A_LABELS + M_LABELS]
             + [['d:CLOSING', 'w:CLOSING'], ['d:CLOSED', 'w:CLOSING'], ['d:CLOSED', 'w:CLOSED'], ['d:CLOSING', 'd:CLOSED'],
                ['d:CONNECTED', 'd:CLOSING'], ['d:INIT', 'd:CLOSING'], ['d:INIT', 'a:INIT'], ['d:CONNECTED', 'a:INIT'],
                ['a:INIT', 'd:CLOSING'], ['a:INIT', 'a:CLOSING'], ['a:CONNECTED', 'm:CannotConnect'],
                ['d:CONNECTING', 'd:CLOSING'], ['a:CLOSING', 'a:CLOSED'], ['d:CONNECTED', 'd:INIT']])
ENV_OPS = [['connectOk', 1], ['connectOk', 0], ['connectRefused'], ['connectTimeout'], ['pierce'], ['cannotConnect'],
           ['indirectTimeout'], ['cancelRequest']]
LATE_HELD = [['drain'], ['probe'], ['pierce'], ['cannotConnect'], ['connectOk', 1], ['indirectTimeout'], ['cancelRequest'],
             ['drain'], ['probe']]


def _held_grid(depth: int, stride: int = 1, offset: int = 0) -> list[dict]:
    """Every sequence of `depth` distinct events — the completions of the two attempts, cancellation of the request,
    and `the listeners of notification L return` for each held L — in both modes, for each set of notifications whose
    listeners suspend: so each competing event is delivered while each listener invocation along the connect paths is
    suspended (events that are not enabled at their turn are skipped by the harness).  Then every listener returns
    (`drain`), late events, `drain`."""
    import itertools
    cases = []
    k = 0
    for mode in ('fallback', 'race'):
        for hs in HOLD_SETS:
            lookups = (0, 1) if ('d:CONNECTING' in hs or 'm:GetPeerAddress' in hs) else (0,)
            for lookup in lookups:
                alphabet = ENV_OPS + [['release', l] for l in hs]
                pre_variants = [[]]
                if lookup:
                    pre_variants = [[['addrReply', 'valid']]]
                    if 'm:GetPeerAddress' in hs:
                        pre_variants.append([['addrReply', 'noPort']])
                for pre in pre_variants:
                    for seq in itertools.permutations(range(len(alphabet)), depth):
                        k += 1
                        if (k + offset) % stride:
                            continue
                        # (type k mod 3, dialled port obfuscated k mod 2, pierced port obfuscated (k div 2) mod 2: all
                        # twelve combinations)
                        ops = _with_pierce_port([list(alphabet[x]) for x in seq], (k // 2) % 2 == 1)
                        cases.append({'kind': f'held:{mode}:{"+".join(hs)}', 'mode': mode, 'lookup': lookup, 'srvFail': 0,
                                      'typ': 'PFD'[k % 3], 'prefer': k % 2, 'ports': [2234, 2235] if k % 2 else [2234, 0],
                                      'hold': list(hs), 'ops': [list(o) for o in pre] + ops + [list(o) for o in LATE_HELD]})
    return cases


def _gen_random_held(rng: random.Random) -> dict:
    mode = rng.choice(['fallback', 'race'])
    lookup = rng.random() < 0.3
    clear, obfs = rng.choice([(2234, 0), (0, 2235), (2234, 2235)])
    labels = D_LABELS + A_LABELS + W_LABELS + M_LABELS
    hs = rng.sample(labels, rng.choice([1, 1, 2, 2, 3, 4, 6]))
    pool = ([['addrReply', 'valid']] * 3 + [['addrReply', 'noAddr'], ['addrReply', 'noPort']] + [['connectOk', 1]] * 4
            + [['connectOk', 0], ['connectRefused'], ['connectTimeout']] * 2 + [['connectOverflow']] + [['pierce']] * 2
            + [['pierce', 'obfs']] * 2 + [['probe']] * 2
            + [['cannotConnect']] * 2 + [['indirectTimeout']] * 2 + [['cancelRequest']] * 3 + [['release', l] for l in hs] * 3
            + [['hold', rng.choice(labels)], ['unhold', rng.choice(hs)], ['drain']])
    ops = [list(rng.choice(pool)) for _ in range(rng.randint(3, 12))]
    if lookup and rng.random() < 0.7:
        ops.insert(0, ['addrReply', 'valid'])
    return {'kind': 'held:random', 'mode': mode, 'lookup': int(lookup), 'srvFail': 0, 'typ': rng.choice('PFD'),
            'prefer': int(rng.random() < 0.5), 'ports': [clear, obfs], 'hold': hs, 'ops': ops + [['drain'], ['probe']]}


def _coincidence_held() -> list[dict]:
    """Two completions inside one settle while a listener is suspended (monitor only)."""
    cases = []
    for mode in ('fallback', 'race'):
        pre = [['connectRefused']] if mode == 'fallback' else []
        for hs in (['a:INIT'], ['a:CONNECTED'], ['d:INIT'], ['d:CONNECTED'], ['d:CLOSING'], ['w:CLOSING', 'd:CLOSING']):
            first = [['pierce']] if hs[0].startswith('a:') else ([['connectOk', 1]] if mode == 'race' else None)
            if first is None:
                continue
            for a, b in ((['cancelRequest'], ['release', hs[0]]), (['release', hs[0]], ['cancelRequest']),
                         (['release', hs[0]], ['cannotConnect']), (['release', hs[0]], ['indirectTimeout']),
                         (['indirectTimeout'], ['release', hs[0]]), (['pierce'], ['cancelRequest']),
                         (['pierce'], ['release', hs[0]])):
                for gap in range(4):
                    cases.append({'kind': f'coincidence:held:{mode}:{a[0]}+{b[0]}:gap{gap}', 'mode': mode, 'lookup': 0,
                                  'srvFail': 0, 'typ': 'P', 'prefer': 0, 'ports': [2234, 0], 'hold': list(hs),
                                  'ops': pre + first + [['pair', a, b, gap]] + [list(o) for o in LATE_HELD]})
        # two peers pierce with the same ticket while the listeners of the first are still suspended (monitor only: the
        # model handles one incoming connection at a time)
        for hs in (['a:INIT'], ['a:CONNECTED'], ['a:CONNECTED', 'a:INIT']):
            for mid in ([], [['release', hs[0]]], [['cancelRequest']], [['indirectTimeout']], [['cannotConnect']],
                        [['connectOk', 1]], [['release', hs[0]], ['release', hs[0]]], [['release', hs[0]], ['cancelRequest']]):
                cases.append({'kind': f'coincidence:multi-pierce:{mode}:{"+".join(hs)}', 'mode': mode, 'lookup': 0,
                              'srvFail': 0, 'typ': 'P', 'prefer': 0, 'ports': [2234, 0], 'hold': list(hs), 'multiPierce': 1,
                              'ops': pre + [['pierce'], ['pierce']] + mid + [list(o) for o in LATE_HELD]})
    return cases


def _gen_random(rng: random.Random) -> dict:
    mode = rng.choice(['fallback', 'race'])
    lookup = rng.random() < 0.5
    srv_fail = rng.random() < 0.15 and not (mode == 'race' and lookup)
    clear, obfs = rng.choice([(2234, 0), (0, 2235), (2234, 2235)])
    pool = ([['addrReply', 'valid']] * 4 + [['addrReply', 'noAddr'], ['addrReply', 'noPort']] + [['connectOk', 1]] * 4
            + [['connectOk', 0], ['connectRefused'], ['connectTimeout']] * 2 + [['connectOverflow']] + [['pierce']] * 2
            + [['pierce', 'obfs']] * 2 + [['probe']] * 2
            + [['cannotConnect']] * 3 + [['indirectTimeout']] * 2 + [['cancelRequest']] * 2)
    ops = [list(rng.choice(pool)) for _ in range(rng.randint(3, 12))]
    return {'kind': 'random', 'mode': mode, 'lookup': int(lookup), 'srvFail': int(srv_fail), 'typ': rng.choice('PFD'),
            'prefer': int(rng.random() < 0.5), 'ports': [clear, obfs], 'ops': ops + [['probe']]}


# Suspension points that exist only because an application listener suspends: the innermost frame of the anchored code
# is then the one that emitted the event.
LISTENER_SITES = frozenset([
    'network.py:on_state_changed>emit', 'network.py:_make_direct_connection>emit', 'network.py:on_peer_accepted>emit',
    'network.py:on_message_received>emit',
])


# `disconnect()` yields once between the CLOSING and the CLOSED notification when the transport is already gone
# (fixes/C16-closing-cancellation-arrives-before-closed.patch, if committed).  For this model that is the same position as
# `disconnect>wait_closed`: inside `disconnect()`, after the CLOSING listeners, before CLOSED — a cancellation there runs the
# `finally` to CLOSED (cancelDirect on fClosing / cClosing).  Exercised by the coincidence family (0 violations).
EXTRA_SITES = frozenset(['connection.py:disconnect>sleep',
                         # `probe` on an F connection: the harness, as the transfer code does, reads the transfer ticket itself
                         'connection.py:_read>readexactly', 'connection.py:receive_transfer_ticket>start'])


def site_breaks(cases: list, impl: list) -> list:
    """One Disagreement per await site that the models do not name (first case that shows it).
    A site inside a function the models do not know (`file:helper>X`) is the known site `file:caller>X` when a caller
    on the same await chain is known to suspend in `X`: code moved into a helper suspends where it did before."""
    out, seen = [], set()
    base = _c10.KNOWN_SITES | EXTRA_SITES
    known_fns = {k.split('>', 1)[0] for k in base | LISTENER_SITES}
    for c, io in zip(cases, impl):
        known = base | LISTENER_SITES if ('ops' in c and _has_holds(c)) else base
        for site in io.get('sites', []):
            if site in known or site in seen:
                continue
            fn, awaited = site.split('>', 1)
            if fn not in known_fns and any(f'{caller}>{awaited}' in known
                                           for caller in io.get('site_callers', {}).get(site, [])):
                continue
            seen.add(site)
            out.append(Disagreement(c, {'await_site': site}, {'known_sites': sorted(known)},
                                    'granularity: the anchored code suspends at a point the model does not name'))
    return out


def _eval_case(case):
    try:
        if 'c10case' in case:
            return _c10._run_impl(case['c10case'])
        if case.get('kind', '').startswith('wireback'):
            return _run_back_wire(case)
        return _run_impl(case)
    except AssertionError:
        raise
    except Exception as e:
        import traceback
        return {'harness_error': f'{type(e).__name__}: {e}', 'tb': traceback.format_exc()[-2500:]}


WITNESSES = [
    {'kind': 'witness:fallback-no-usable-port-then-pierce', 'mode': 'fallback', 'lookup': 1, 'srvFail': 0, 'typ': 'P',
     'prefer': 0, 'ports': [2234, 0], 'ops': [['addrReply', 'noPort'], ['pierce']]},
    {'kind': 'witness:fallback-no-address-then-pierce', 'mode': 'fallback', 'lookup': 1, 'srvFail': 0, 'typ': 'F',
     'prefer': 1, 'ports': [2234, 2235], 'ops': [['addrReply', 'noAddr'], ['pierce']]},
    {'kind': 'witness:race-no-usable-port-then-pierce', 'mode': 'race', 'lookup': 1, 'srvFail': 0, 'typ': 'P',
     'prefer': 0, 'ports': [0, 2235], 'ops': [['addrReply', 'noPort'], ['pierce']]},
    {'kind': 'witness:fallback-direct-refused-indirect-times-out', 'mode': 'fallback', 'lookup': 0, 'srvFail': 0,
     'typ': 'P', 'prefer': 0, 'ports': [2234, 0], 'ops': [['connectRefused'], ['indirectTimeout'], ['pierce']]},
    {'kind': 'witness:race-direct-refused-indirect-times-out', 'mode': 'race', 'lookup': 1, 'srvFail': 0,
     'typ': 'F', 'prefer': 1, 'ports': [2234, 2235], 'ops': [['addrReply', 'noPort'], ['indirectTimeout'], ['cannotConnect']]},
    {'kind': 'witness:race-direct-wins-late-pierce', 'mode': 'race', 'lookup': 0, 'srvFail': 0, 'typ': 'P', 'prefer': 0,
     'ports': [2234, 0], 'ops': [['connectOk', 1], ['pierce']]},
    {'kind': 'witness:race-indirect-wins-direct-parked', 'mode': 'race', 'lookup': 0, 'srvFail': 0, 'typ': 'P',
     'prefer': 0, 'ports': [2234, 0], 'ops': [['pierce']]},
    {'kind': 'witness:fallback-server-send-fails', 'mode': 'fallback', 'lookup': 0, 'srvFail': 1, 'typ': 'P',
     'prefer': 0, 'ports': [2234, 0], 'ops': [['connectRefused']]},
    {'kind': 'witness:race-request-cancelled', 'mode': 'race', 'lookup': 0, 'srvFail': 0, 'typ': 'P', 'prefer': 0,
     'ports': [2234, 0], 'ops': [['cancelRequest'], ['pierce']]},
]


WIRE_WITNESSES = [
    # the class of seeded/C11-k: a file / distributed connection to a peer reached on its obfuscated port
    {'kind': 'witness:wire:file-to-obfuscated-only-port', 'mode': 'fallback', 'lookup': 1, 'srvFail': 0, 'typ': 'F',
     'prefer': 0, 'ports': [0, 2235], 'ops': [['addrReply', 'valid'], ['connectOk', 1], ['probe']]},
    {'kind': 'witness:wire:distributed-prefer-obfuscated-race', 'mode': 'race', 'lookup': 0, 'srvFail': 0, 'typ': 'D',
     'prefer': 1, 'ports': [2234, 2235], 'ops': [['connectOk', 1], ['probe']]},
    {'kind': 'witness:wire:peer-on-obfuscated-port-stays-obfuscated', 'mode': 'fallback', 'lookup': 0, 'srvFail': 0, 'typ': 'P',
     'prefer': 1, 'ports': [2234, 2235], 'ops': [['connectOk', 1], ['probe'], ['probe']]},
    {'kind': 'witness:wire:file-pierced-on-obfuscated-listening-port', 'mode': 'fallback', 'lookup': 0, 'srvFail': 0, 'typ': 'F',
     'prefer': 0, 'ports': [2234, 0], 'ops': [['connectRefused'], ['pierce', 'obfs'], ['probe']]},
]


CO_WITNESSES = [
    {'kind': 'coincidence:witness:cannot-connect-and-pierce', 'mode': 'fallback', 'lookup': 0, 'srvFail': 0, 'typ': 'P',
     'prefer': 0, 'ports': [2234, 0], 'ops': [['connectRefused'], ['pair', ['cannotConnect'], ['pierce'], 1]]},
    {'kind': 'coincidence:witness:pierce-on-cancelled-waiter', 'mode': 'fallback', 'lookup': 0, 'srvFail': 0, 'typ': 'P',
     'prefer': 0, 'ports': [2234, 0], 'ops': [['connectRefused'], ['pair', ['indirectTimeout'], ['pierce'], 1]]},
    {'kind': 'coincidence:witness:race-won-while-peer-pierces', 'mode': 'race', 'lookup': 0, 'srvFail': 0, 'typ': 'P',
     'prefer': 0, 'ports': [2234, 0], 'ops': [['pair', ['connectOk', 1], ['pierce'], 0]]},
]

HELD_WITNESSES = [
    # the class of seeded/C11-f: the other attempt wins / the request is cancelled while listeners are being told CONNECTED
    {'kind': 'held:witness:race-pierce-while-told-connected', 'mode': 'race', 'lookup': 0, 'srvFail': 0, 'typ': 'P',
     'prefer': 0, 'ports': [2234, 0], 'hold': ['d:CONNECTED'], 'ops': [['connectOk', 1], ['pierce'], ['drain']]},
    {'kind': 'held:witness:fallback-cancelled-while-told-connected', 'mode': 'fallback', 'lookup': 0, 'srvFail': 0,
     'typ': 'P', 'prefer': 0, 'ports': [2234, 0], 'hold': ['d:CONNECTED'], 'ops': [['connectOk', 1], ['cancelRequest'], ['drain']]},
    # fixes/C11-listener-windows: … while listeners are being told PeerInitializedEvent (direct / pierced connection)
    {'kind': 'held:witness:race-pierce-while-told-initialized', 'mode': 'race', 'lookup': 0, 'srvFail': 0, 'typ': 'P',
     'prefer': 0, 'ports': [2234, 0], 'hold': ['d:INIT'], 'ops': [['connectOk', 1], ['pierce'], ['drain']]},
    {'kind': 'held:witness:timeout-while-pierce-announced', 'mode': 'fallback', 'lookup': 0, 'srvFail': 0, 'typ': 'P',
     'prefer': 0, 'ports': [2234, 0], 'hold': ['a:INIT'],
     'ops': [['connectRefused'], ['pierce'], ['indirectTimeout'], ['drain']]},
    {'kind': 'held:witness:race-direct-wins-while-pierce-announced', 'mode': 'race', 'lookup': 0, 'srvFail': 0, 'typ': 'F',
     'prefer': 0, 'ports': [2234, 0], 'hold': ['a:INIT'], 'ops': [['pierce'], ['connectOk', 1], ['drain']]},
    # fixes/C11-disconnect-cancel-safe: cancelled while listeners are being told CLOSING
    {'kind': 'held:witness:race-pierce-while-failed-direct-closing', 'mode': 'race', 'lookup': 0, 'srvFail': 0, 'typ': 'P',
     'prefer': 0, 'ports': [2234, 0], 'hold': ['d:CLOSING'], 'ops': [['connectRefused'], ['pierce'], ['drain']]},
    # fixes/C11-race-cancel-orphan: cancelled while the loser is cleaned up
    {'kind': 'held:witness:race-cancelled-while-gathering-loser', 'mode': 'race', 'lookup': 0, 'srvFail': 0, 'typ': 'P',
     'prefer': 0, 'ports': [2234, 0], 'hold': ['d:CONNECTED', 'd:CLOSING'],
     'ops': [['connectOk', 1], ['pierce'], ['cancelRequest'], ['drain']]},
]


class C11(Property):
    id = 'C11'
    props_module = 'AioslskVerif.Props.C11'
    driver_module = 'AioslskVerif.Driver.C11'
    rule = ('the full grid mode {fallback, race} x address {given, looked up: valid / 0.0.0.0 / no port} x ConnectToPeer '
            'write {ok, fails} x direct {connects + PeerInit written, PeerInit write fails, refused, connect timeout, '
            'open_connection raises a non-OSError, never completes} x indirect {peer pierces, CannotConnect, 60 s timeout, '
            'nothing} x every relative order of the two outcomes x cancellation of the request at every position (or not at '
            'all), each followed by late events (pierce, CannotConnect, connect completion, timer, cancel) after the request '
            'finished; connection type P / D / F x clear/obfuscated port availability x preference x the listening port '
            '(clear / obfuscated) the peer pierces on rotated independently over the grid (all 36 combinations), select_port '
            'compared exhaustively; THE FAR END: every byte the library writes on a connection of the request is decoded as a '
            'peer that follows the protocol decodes it for the port really dialled / pierced on; `probe` (the caller uses the '
            'returned connection: one message each way, P PeerUserInfoRequest / D DistributedBranchLevel / F transfer ticket) '
            'after the request finished and again after the late events; the full product mode x type x 6 port situations x '
            'address given / looked up x {direct wins, pierce on the clear port, pierce on the obfuscated port, direct then '
            'late pierce, pierce then late connect} (360 cases) + probes; connect-back at wire level: ConnectToPeer from the '
            'server for type x 8 port situations (incl. obfuscated-port fields absent) x {connect ok, refused, first write '
            'fails} + type x 4 situations with no usable port at all (clear 0 and obfuscated absent / 0, either preference; the '
            'dial of port 0 is refused at once) (84 cases, each through the model); '
            'random op sequences from VERIF_SEED; SUSPENDED LISTENERS: for 25 sets of notifications whose '
            'listeners suspend (each single one of CONNECTING / CONNECTED / PeerInitializedEvent / CLOSING / CLOSED of the '
            'outgoing connection, CONNECTED / PeerInitializedEvent / CLOSING / CLOSED of a connection being accepted, the '
            'CannotConnect / GetPeerAddress message events, and 14 pairs incl. the winner being closed) x both modes: every '
            'sequence of 2 (quick: + a VERIF_SEED-dependent twelfth of those of 3; thorough: all of 3 + a ninth of those of 4) '
            'distinct events out of {the 8 completions incl. cancellation, "the listeners of L return" for each held L}, then '
            'all listeners return, late events, all listeners return; random sequences with random hold sets and hold / '
            'unhold / release / drain ops; monitor only: two completions inside one settle 0..5 (0..9 for completion + '
            'cancellation) loop iterations apart, also with a suspended listener; plus the connect-back scenarios of K_C10. '
            'Non-trivial: the request finished and at least one later op was executed, or both attempts were started; '
            'distinct = distinct (config, hold set, executed ops)')
    assumptions = [
        'without the coincidence family each completion is processed to quiescence (or to a suspended listener) before '
        'the next; the coincidence family (two completions 0..9 loop iterations apart) is checked by the monitor only',
        'the server answers the address look-up (valid, 0.0.0.0 or no usable port); no reply at all is outside the '
        'property (the code waits without timeout)',
        'one incoming connection is being accepted at a time (a second pierce is only delivered when the listeners of the '
        'first have returned)',
        'a server message whose listener is suspended holds up the server reader: later server messages are delivered '
        'after it (the harness does not send them meanwhile); in the model such a message takes effect when its '
        'listeners return',
        'a cancelled request is cancelled once',
        'the far end follows docs/source/SOULSEEK.rst ("Obfuscation"): peer-init messages are obfuscated exactly on '
        'obfuscated ports; afterwards only P connections stay obfuscated, D and F connections go on in clear; a peer that '
        'cannot read the peer-init message has no connection with us (it neither sends nor reads anything)',
        'the caller passes obfuscate=True exactly when the port it gives is the peer\'s obfuscated port',
    ]
    modelled = ('create_peer_connection, _create_peer_connection_fallback/_race (incl. gather of the loser, closing the '
                'winner when cancelled meanwhile), _get_peer_address, select_port, _make_direct_connection, '
                '_make_indirect_connection, ListeningConnection.accept + the PeerPierceFirewall arm of on_peer_accepted, '
                'completion of the CannotConnect waiter, and every listener notification on these paths (CONNECTING / '
                'CONNECTED / PeerInitializedEvent / CLOSING / CLOSED) as a suspension point of its own, with '
                'DataConnection.disconnect running to CLOSED when cancelled inside one; the wire-level state of each '
                'connection object of the request (PeerConnection.obfuscated, connection_state, reader task) as '
                '_make_direct_connection / ListeningConnection.accept / on_peer_accepted / _finalize_peer_connection / '
                'set_connection_state set it, the encoding PeerInit goes out in, and the outcome of one message each way on '
                'the returned connection; connect-back (_handle_connect_to_peer) through Model/Conn.lean, from the message '
                'up (select_port over present / 0 / absent ports, registration, connect / write outcome, who is answered) '
                'through connectBack, its wire level (PeerPierceFirewall, then finalise) through connectBackWire. '
                'Exercised only: codec, obfuscation, '
                'asyncio.wait/gather/Task.cancel, connection internals (C10), a suspended PeerInit drain (K_C10 direct '
                'scenarios), two pierces in flight at once (monitor only)')

    def correspondence(self, seed, tier, model_ok, widen=1):
        res = KResult()
        rng = random.Random(f'C11-{seed}')
        quick = tier == 'quick'
        n = (6000 if quick else 120000) * widen
        cases = list(WITNESSES) + list(WIRE_WITNESSES) + _grid() + _wire_grid() + [_gen_random(rng) for _ in range(n)]
        # suspended listeners: depth-2 sequences in full, depth 3 sampled (quick: a VERIF_SEED-dependent 1/12th) / in full
        cases += list(HELD_WITNESSES) + _held_grid(2)
        cases += _held_grid(3, stride=max(1, 12 // widen), offset=rng.randrange(12)) if quick else _held_grid(3)
        if not quick:
            cases += _held_grid(4, stride=9, offset=rng.randrange(9))
        cases += [_gen_random_held(rng) for _ in range((4000 if quick else 60000) * widen)]
        n_model = len(cases)
        cases += CO_WITNESSES + _coincidence() + _coincidence_held()          # monitor only
        back = [{'kind': c['kind'], 'c10case': c} for c in _c10._grid()
                if c['kind'].startswith('back') or (c['kind'].startswith('direct') and any(
                    o[0] == 'at' and o[2] == 'cancelAttempt' for o in c['ops']))]
        wback = _wireback_cases()
        impl = common.parallel_map(_eval_case, cases + back + wback)
        for c, io in zip(cases + back + wback, impl):
            if io.get('harness_error'):
                raise RuntimeError(f'C11 harness error: {io["harness_error"]}\n{io.get("tb")}\ncase={c}')
        model = None
        sel_lines = [f'selectPort {p} {a} {b}' for p in (0, 1) for a in (0, 2234) for b in (0, 2235) if a or b]
        # every connect-back case goes through the model from the message up (`backreq`): port situation incl. absent
        # fields / no port at all, preference, type, outcome of the dial
        wb_model = wback
        wb_lines = [f"backreq {c['typ']} {int(bool(c['prefer']))} {c['ports'][0]} "
                    f"{'-' if c['ports'][1] is None else c['ports'][1]} {c['how']}" for c in wb_model]
        if model_ok:
            lines, spans = [], []
            for c, io in zip(cases[:n_model], impl):
                groups = _model_groups(c, io)
                spans.append((len(lines), [len(g) for g in groups]))
                for g in groups:
                    lines += g
            out = common.run_driver(self.driver_file, lines + sel_lines + wb_lines)
            model = []
            for a, sizes in spans:
                per, pos = [], a
                for k in sizes:
                    grp = out[pos:pos + k]
                    pos += k
                    bad = next((x for x in grp if x in ('rejected', 'bad-op')), None)
                    per.append(bad if bad is not None else grp[-1])
                model.append(per)
            sel_out = out[len(lines):len(lines) + len(sel_lines)]
            wb_out = out[len(lines) + len(sel_lines):]
            by_case = {id(c): io for c, io in zip(wback, impl[len(cases) + len(back):])}
            for c, l, o in zip(wb_model, wb_lines, wb_out):
                res.evaluations += 1
                res.traces_validated += 1
                if by_case[id(c)]['line'] != o:
                    res.disagreements.append(Disagreement(c, by_case[id(c)]['line'], o, f'connect-back at wire level ({l})'))
            for l, o in zip(sel_lines, sel_out):
                _, p, a, b = l.split()
                ep, eo = _expected_port(bool(int(p)), int(a), int(b))
                res.evaluations += 1
                if o != f'{ep} {int(eo)}':
                    res.disagreements.append(Disagreement({'selectPort': l}, f'{ep} {int(eo)}', o, 'select_port table'))
        else:
            res.model_available = False
        res.disagreements += site_breaks(cases + back, impl[:len(cases) + len(back)])
        res.count('await-sites-seen', len({x for io in impl for x in io.get('sites', [])}))
        for i, c in enumerate(cases):
            io = impl[i]
            res.evaluations += 1
            res.count('kind:' + ':'.join(c['kind'].split(':')[:2]))
            res.count('ops-executed', len(io['executed']))
            res.count('ops-skipped(not enabled)', len(io['skipped']))
            for op in io['executed']:
                res.count('op:' + op[0])
                if op[0] == 'pair':
                    res.count(f'pair:{op[1][0]}+{op[2][0]}')
            for n_op, lg in enumerate(io.get('logs', [])):
                for kind, lab, _pr in lg:
                    if kind == 'park':
                        res.count('listener-suspended-at:' + lab)
                    elif kind == 'cancel':
                        res.count('listener-interrupted-by-cancellation-at:' + lab)
                if n_op and io['facts'][n_op - 1].get('held'):
                    op = io['executed'][n_op - 1]
                    if op[0] not in ('release', 'drain', 'hold', 'unhold'):
                        for lab in io['facts'][n_op - 1]['held']:
                            res.count(f'delivered-while-suspended:{lab}<-{op[0]}')
            finals = [f['res'] for f in io['facts']]
            res.count('result:' + finals[-1])
            res.count(f"ports:clear={int(bool(c['ports'][0]))},obfs={int(bool(c['ports'][1]))},prefer={c['prefer']}")
            for f_ in io['facts']:
                if 'use' in f_:
                    res.count(f"probe:{c['typ']}:{'pierced' if f_['res'].startswith('I') else 'direct'}:"
                              f"{'obfuscated' if f_.get('use_port_obf') else 'clear'}-port:rx{f_['use'][0]}tx{f_['use'][1]}")
            fin_ = io['facts'][-1]
            if fin_['res'] == 'D':
                res.count(f"returned-direct:{c['typ']}:{'obfuscated' if (fin_.get('dial_port_obf') or [0])[0] else 'clear'}-port:"
                          f"init-enc={fin_.get('enc')}")
            done_at = next((j for j, r in enumerate(finals) if r != 'pending'), None)
            if (done_at is not None and len(finals) > done_at + 1) or 'ctp=1' in io['lines'][-1]:
                res.nontrivial_keys.add(common.sha([c['mode'], c['lookup'], c['srvFail'], sorted(c.get('hold', [])),
                                                    io['executed']]))
            if model is not None and i < n_model:
                res.traces_validated += 1
                if model[i] != io['lines']:
                    k = next((j for j, (a, b) in enumerate(zip(model[i], io['lines'])) if a != b),
                             min(len(model[i]), len(io['lines'])))
                    cc = dict(c)
                    cc['ops'] = io['executed']
                    res.disagreements.append(Disagreement(
                        cc, io['lines'][k] if k < len(io['lines']) else None, model[i][k] if k < len(model[i]) else None,
                        f'after op #{k - 1}: {io["executed"][k - 1] if 0 < k <= len(io["executed"]) else "new"}'
                        f' (model ops: {io["mlines"][k] if k < len(io["mlines"]) else None})'))
            res.violations += _monitor(c, io)
            if len(res.samples) < 3 and 'witness' in c['kind']:
                res.samples.append({'case': c, 'impl': io['lines']})
        for j, c in enumerate(back):
            io = impl[len(cases) + j]
            res.evaluations += 1
            res.count('kind:connect-back' if c['kind'].startswith('back') else 'kind:direct-attempt-cancelled')
            res.violations += _monitor_back(c, io)
        for j, c in enumerate(wback):
            io = impl[len(cases) + len(back) + j]
            res.evaluations += 1
            res.count('kind:connect-back-wire')
            res.count(f"connect-back-wire:{c['typ']}:{'obfuscated' if io['port_obf'] else 'clear'}-port:{c['how']}"
                      if c['ports'][0] or c['ports'][1] else
                      f"connect-back-wire:{c['typ']}:no-port(obfuscated-port-{'absent' if c['ports'][1] is None else '0'})")
            res.count(f"connect-back-answer:{ {'p': 'pierce-firewall', 's': 'cannot-connect', '': 'NONE'}.get(io['line'].split(' ans=')[1].split(' ')[0], 'both') }")
            res.nontrivial_keys.add(common.sha(c))
            res.violations += _monitor_back_wire(c, io)
            for e in io.get('loop_exceptions', []):
                res.violations.append(Violation('C11-internal-error', 'exception reported to the loop exception handler '
                                                '(connect-back)', c, e))
        return res

    def replay(self, case):
        io = _eval_case(case)
        if io.get('harness_error'):
            raise RuntimeError(io['harness_error'] + '\n' + io.get('tb', ''))
        if 'c10case' in case:
            return _monitor_back({'kind': case['c10case'].get('kind', '')}, io)
        if case.get('kind', '').startswith('wireback'):
            return _monitor_back_wire(case, io)
        return _monitor(case, io)

    def known_witnesses(self):
        return []


PROPERTY = C11()
