"""C19 — room and user views equal the fold of what the server announced.

Correspondence K_C19: the real RoomManager + UserManager (one shared EventBus, real message objects that went
through the wire codec, dispatched as `MessageReceivedEvent` like `Network` does) against the Lean model
`Rooms.handle` (Driver/C19.lean) — exact agreement, after every message, of the error class, the events and
the whole observable state.  Monitor: the specification fold (join adds, leave removes, grant adds, revoke
removes, lists replace) written here in plain Python, independent of the Lean model, compared with the
managers' state after every message; plus the event / block-filter statements.
"""
from __future__ import annotations

import logging
import random
import types
from typing import Any, Optional

from vlib import common
from vlib.common import KResult, Violation, Disagreement, Property

N_ROOMS = 2
N_USERS = 3          # user 0 is the logged-in user
MAX_LEN = 12

# op kind -> (family, message class name, Request/Response)
KINDS = {
    'roomChat': ('server', 'RoomChatMessage'), 'publicChat': ('server', 'PublicChatMessage'),
    'userJoined': ('server', 'UserJoinedRoom'), 'userLeft': ('server', 'UserLeftRoom'),
    'joinRoom': ('server', 'JoinRoom'), 'leaveRoom': ('server', 'LeaveRoom'),
    'tickers': ('server', 'RoomTickers'), 'tickerAdded': ('server', 'RoomTickerAdded'),
    'tickerRemoved': ('server', 'RoomTickerRemoved'), 'toggleInvites': ('server', 'TogglePrivateRoomInvites'),
    'grantMembership': ('server', 'PrivateRoomGrantMembership'),
    'membershipGranted': ('server', 'PrivateRoomMembershipGranted'),
    'revokeMembership': ('server', 'PrivateRoomRevokeMembership'),
    'membershipRevoked': ('server', 'PrivateRoomMembershipRevoked'),
    'members': ('server', 'PrivateRoomMembers'), 'operators': ('server', 'PrivateRoomOperators'),
    'operatorGranted': ('server', 'PrivateRoomOperatorGranted'),
    'operatorRevoked': ('server', 'PrivateRoomOperatorRevoked'),
    'grantOperator': ('server', 'PrivateRoomGrantOperator'), 'revokeOperator': ('server', 'PrivateRoomRevokeOperator'),
    'roomList': ('server', 'RoomList'), 'admin': ('server', 'AdminMessage'), 'kicked': ('server', 'Kicked'),
    'privateChat': ('server', 'PrivateChatMessage'), 'checkPrivileges': ('server', 'CheckPrivileges'),
    'privilegedUsers': ('server', 'PrivilegedUsers'), 'addPrivileged': ('server', 'AddPrivilegedUser'),
    'addUser': ('server', 'AddUser'), 'userStatus': ('server', 'GetUserStatus'), 'userStats': ('server', 'GetUserStats'),
    'peerInfo': ('peer', 'PeerUserInfoReply'), 'peerSearch': ('peer', 'PeerSearchReply'),
}
PRE_HOLD = ('privilegedUsers', 'checkPrivileges', 'admin', 'kicked', 'toggleInvites', 'addPrivileged', 'addPrivileged')

USER_FIELDS = ['status', 'privileged', 'country', 'avg_speed', 'uploads', 'shared_file_count', 'shared_folder_count',
               'slots_free', 'has_slots_free', 'upload_slots', 'queue_length', 'upload_permissions', 'description',
               'picture']


def R(i): return f'room{i}'
def U(i): return f'user{i}'
def T(i): return '' if i == 0 else f'text{i}'      # text 0 is the EMPTY string (legal on the wire for every text field)
def C(i): return f'c{i}'
def P(i): return b'pic%d' % i


def _unid(s: Any, prefix: str):
    """inverse of R/U/T/C: the id, or the raw value when it is not one of ours"""
    if isinstance(s, bytes):
        s = s.decode('latin1')
    if prefix == 'text' and s == '':
        return 0
    if isinstance(s, str) and s.startswith(prefix) and s[len(prefix):].isdigit():
        return int(s[len(prefix):])
    return s


# --------------------------------------------------------------------------------------------
# real messages
# --------------------------------------------------------------------------------------------

def _mk_message(op: list):
    from aioslsk.protocol import messages as M
    from aioslsk.protocol.primitives import UserStats, RoomTicker
    k = op[0]
    a = op[1:]
    st = lambda s: UserStats(avg_speed=s[0], uploads=s[1], shared_file_count=s[2], shared_folder_count=s[3])
    if k == 'roomChat':
        m = M.RoomChatMessage.Response(room=R(a[0]), username=U(a[1]), message=T(a[2]))
    elif k == 'publicChat':
        m = M.PublicChatMessage.Response(room=R(a[0]), username=U(a[1]), message=T(a[2]))
    elif k == 'userJoined':
        m = M.UserJoinedRoom.Response(room=R(a[0]), username=U(a[1]), status=a[2], user_stats=st(a[3]),
                                      slots_free=a[4], country_code=C(a[5]))
    elif k == 'userLeft':
        m = M.UserLeftRoom.Response(room=R(a[0]), username=U(a[1]))
    elif k == 'joinRoom':
        es = a[1]
        m = M.JoinRoom.Response(
            room=R(a[0]), users=[U(e[0]) for e in es], users_status=[e[1] for e in es],
            users_stats=[st(e[2]) for e in es], users_slots_free=[e[3] for e in es],
            users_countries=[C(e[4]) for e in es],
            owner=None if a[2] is None else U(a[2]),
            operators=None if a[2] is None else [U(x) for x in a[3]])
    elif k == 'leaveRoom':
        m = M.LeaveRoom.Response(room=R(a[0]))
    elif k == 'tickers':
        m = M.RoomTickers.Response(room=R(a[0]), tickers=[RoomTicker(U(u), T(t)) for u, t in a[1]])
    elif k == 'tickerAdded':
        m = M.RoomTickerAdded.Response(room=R(a[0]), username=U(a[1]), ticker=T(a[2]))
    elif k == 'tickerRemoved':
        m = M.RoomTickerRemoved.Response(room=R(a[0]), username=U(a[1]))
    elif k == 'toggleInvites':
        m = M.TogglePrivateRoomInvites.Response(enabled=bool(a[0]))
    elif k == 'grantMembership':
        m = M.PrivateRoomGrantMembership.Response(room=R(a[0]), username=U(a[1]))
    elif k == 'membershipGranted':
        m = M.PrivateRoomMembershipGranted.Response(room=R(a[0]))
    elif k == 'revokeMembership':
        m = M.PrivateRoomRevokeMembership.Response(room=R(a[0]), username=U(a[1]))
    elif k == 'membershipRevoked':
        m = M.PrivateRoomMembershipRevoked.Response(room=R(a[0]))
    elif k == 'members':
        m = M.PrivateRoomMembers.Response(room=R(a[0]), usernames=[U(x) for x in a[1]])
    elif k == 'operators':
        m = M.PrivateRoomOperators.Response(room=R(a[0]), usernames=[U(x) for x in a[1]])
    elif k == 'operatorGranted':
        m = M.PrivateRoomOperatorGranted.Response(room=R(a[0]))
    elif k == 'operatorRevoked':
        m = M.PrivateRoomOperatorRevoked.Response(room=R(a[0]))
    elif k == 'grantOperator':
        m = M.PrivateRoomGrantOperator.Response(room=R(a[0]), username=U(a[1]))
    elif k == 'revokeOperator':
        m = M.PrivateRoomRevokeOperator.Response(room=R(a[0]), username=U(a[1]))
    elif k == 'roomList':
        pub, owned, priv, oper = a
        m = M.RoomList.Response(
            rooms=[R(x) for x in pub], rooms_user_count=[3 + x for x in pub],
            rooms_private_owned=[R(x) for x in owned], rooms_private_owned_user_count=[5 + x for x in owned],
            rooms_private=[R(x) for x in priv], rooms_private_user_count=[7 + x for x in priv],
            rooms_private_operated=[R(x) for x in oper])
    elif k == 'admin':
        m = M.AdminMessage.Response(message=T(a[0]))
    elif k == 'kicked':
        m = M.Kicked.Response()
    elif k == 'privateChat':
        m = M.PrivateChatMessage.Response(chat_id=a[0], timestamp=a[1], username=U(a[2]), message=T(a[3]),
                                          is_direct=bool(a[4]))
    elif k == 'checkPrivileges':
        m = M.CheckPrivileges.Response(time_left=a[0])
    elif k == 'privilegedUsers':
        m = M.PrivilegedUsers.Response(users=[U(x) for x in a[0]])
    elif k == 'addPrivileged':
        m = M.AddPrivilegedUser.Response(username=U(a[0]))
    elif k == 'addUser':
        u, ex, status, stats, country = a
        if not ex:
            m = M.AddUser.Response(username=U(u), exists=False)
        else:
            m = M.AddUser.Response(username=U(u), exists=True, status=status, user_stats=st(stats),
                                   country_code=None if country is None else C(country))
    elif k == 'userStatus':
        m = M.GetUserStatus.Response(username=U(a[0]), status=a[1], privileged=bool(a[2]))
    elif k == 'userStats':
        m = M.GetUserStats.Response(username=U(a[0]), user_stats=st(a[1]))
    elif k == 'peerInfo':
        conn, descr, pic, slots, queue, free, perms = a
        m = M.PeerUserInfoReply.Request(description=T(descr), has_picture=pic is not None,
                                        picture=None if pic is None else P(pic), upload_slots=slots,
                                        queue_size=queue, has_slots_free=bool(free), upload_permissions=perms)
    elif k == 'peerSearch':
        m = M.PeerSearchReply.Request(username=U(a[0]), ticket=1, results=[], has_slots_free=bool(a[1]),
                                      avg_speed=a[2], queue_size=a[3])
    else:
        raise ValueError(f'unknown op {k}')
    # through the wire codec, as the network delivers it
    data = m.serialize()
    if KINDS[k][0] == 'server':
        return M.ServerMessage.deserialize_response(data)
    return M.PeerMessage.deserialize_request(data)


def _handler_classes():
    """message classes the two real managers listen to (read from their message maps)"""
    from aioslsk.events import EventBus
    from aioslsk.room.manager import RoomManager
    from aioslsk.user.manager import UserManager
    from aioslsk.settings import Settings
    s = Settings(credentials={'username': U(0), 'password': 'p'})
    bus = EventBus()
    um = UserManager(s, bus, _Net())
    rm = RoomManager(s, bus, um, _Net())
    return ({c.__qualname__ for c in rm._MESSAGE_MAP}, {c.__qualname__ for c in um._MESSAGE_MAP})


def _kind_class(kind: str) -> str:
    fam, name = KINDS[kind]
    return f'{name}.Response' if fam == 'server' else f'{name}.Request'


# --------------------------------------------------------------------------------------------
# running the real managers
# --------------------------------------------------------------------------------------------

LOCAL_OPS = ('track', 'untrack')      # the application's own calls: they must not change what the server announced


class _Net:
    def __init__(self):
        self.sent = []
        self.server = object()
        self.waiters = []               # (message class, fields, future): `wait_for_server_message` calls in flight

    async def send_server_messages(self, *messages):
        self.sent.extend(messages)
        return []

    async def wait_for_server_message(self, message_class, fields=None, timeout=None):
        import asyncio
        fut = asyncio.get_running_loop().create_future()
        self.waiters.append((message_class, dict(fields or {}), fut))
        return await fut

    def deliver(self, message):
        """what Network.on_message_received does after the handlers ran: complete the matching waiters"""
        for w in list(self.waiters):
            cls, fields, fut = w
            if isinstance(message, cls) and all(getattr(message, k, None) == v for k, v in fields.items()):
                self.waiters.remove(w)
                if not fut.done():
                    fut.set_result(message)


class _LogCatch(logging.Handler):
    def __init__(self):
        super().__init__(level=logging.ERROR)
        self.errors = []

    def emit(self, record):
        exc = record.exc_info[1] if record.exc_info else None
        if exc is None:
            self.errors.append('log-error')
        elif isinstance(exc, ValueError) and 'UserStatus' in str(exc):
            self.errors.append('bad-status')
        elif isinstance(exc, ValueError) and 'UploadPermissions' in str(exc):
            self.errors.append('bad-perms')
        else:
            self.errors.append(f'EXC-{type(exc).__name__}')


def _user_obs(u) -> dict:
    from aioslsk.user.model import UserStatus, UploadPermissions
    return {
        'status': None if u.status == UserStatus.UNKNOWN else u.status.value,
        'privileged': bool(u.privileged),
        'country': None if u.country is None else _unid(u.country, 'c'),
        'avg_speed': u.avg_speed, 'uploads': u.uploads, 'shared_file_count': u.shared_file_count,
        'shared_folder_count': u.shared_folder_count, 'slots_free': u.slots_free,
        'has_slots_free': u.has_slots_free, 'upload_slots': u.upload_slots, 'queue_length': u.queue_length,
        'upload_permissions': None if u.upload_permissions == UploadPermissions.UNKNOWN else u.upload_permissions.value,
        'description': None if u.description is None else _unid(u.description, 'text'),
        'picture': None if u.picture is None else _unid(u.picture, 'pic'),
    }


def _uname(u):
    return None if u is None else _unid(u.name, 'user')


def _event_obs(ev) -> dict:
    """canonical (kind, room, user, payload) of a real event — names only, nothing is kept alive"""
    from aioslsk import events as E
    n = type(ev).__name__
    rn = lambda room: _unid(room.name, 'room')
    if isinstance(ev, E.RoomMessageEvent):
        return {'kind': 'roomMessage', 'room': rn(ev.message.room), 'user': _uname(ev.message.user),
                'args': [_unid(ev.message.message, 'text')]}
    if isinstance(ev, E.PublicMessageEvent):
        return {'kind': 'publicMessage', 'room': rn(ev.room), 'user': _uname(ev.user), 'args': [_unid(ev.message, 'text')]}
    if isinstance(ev, E.RoomJoinedEvent):
        return {'kind': 'roomJoined', 'room': rn(ev.room), 'user': _uname(ev.user), 'args': []}
    if isinstance(ev, E.RoomLeftEvent):
        return {'kind': 'roomLeft', 'room': rn(ev.room), 'user': _uname(ev.user), 'args': []}
    if isinstance(ev, E.RoomTickersEvent):
        return {'kind': 'tickers', 'room': rn(ev.room), 'user': None,
                'args': [sorted([_unid(k, 'user'), _unid(v, 'text')] for k, v in ev.tickers.items())]}
    if isinstance(ev, E.RoomTickerAddedEvent):
        return {'kind': 'tickerAdded', 'room': rn(ev.room), 'user': _uname(ev.user), 'args': [_unid(ev.ticker, 'text')]}
    if isinstance(ev, E.RoomTickerRemovedEvent):
        return {'kind': 'tickerRemoved', 'room': rn(ev.room), 'user': _uname(ev.user), 'args': []}
    if isinstance(ev, E.RoomMembershipGrantedEvent):
        return {'kind': 'membershipGranted', 'room': rn(ev.room), 'user': _uname(ev.member), 'args': []}
    if isinstance(ev, E.RoomMembershipRevokedEvent):
        return {'kind': 'membershipRevoked', 'room': rn(ev.room), 'user': _uname(ev.member), 'args': []}
    if isinstance(ev, E.RoomMembersEvent):
        return {'kind': 'members', 'room': rn(ev.room), 'user': None, 'args': [sorted({_uname(u) for u in ev.members})]}
    if isinstance(ev, E.RoomOperatorsEvent):
        return {'kind': 'operators', 'room': rn(ev.room), 'user': None, 'args': [sorted({_uname(u) for u in ev.operators})]}
    if isinstance(ev, E.RoomOperatorGrantedEvent):
        return {'kind': 'operatorGranted', 'room': rn(ev.room), 'user': _uname(ev.member), 'args': []}
    if isinstance(ev, E.RoomOperatorRevokedEvent):
        return {'kind': 'operatorRevoked', 'room': rn(ev.room), 'user': _uname(ev.member), 'args': []}
    if isinstance(ev, E.RoomListEvent):
        return {'kind': 'roomList', 'room': None, 'user': None, 'args': [sorted(rn(r) for r in ev.rooms)]}
    if isinstance(ev, E.AdminMessageEvent):
        return {'kind': 'admin', 'room': None, 'user': None, 'args': [_unid(ev.message, 'text')]}
    if isinstance(ev, E.KickedEvent):
        return {'kind': 'kicked', 'room': None, 'user': None, 'args': []}
    if isinstance(ev, E.PrivateMessageEvent):
        c = ev.message
        return {'kind': 'privateMessage', 'room': None, 'user': _uname(c.user),
                'args': [c.id, c.timestamp, _unid(c.message, 'text'), bool(c.is_direct)]}
    if isinstance(ev, E.PrivilegesUpdateEvent):
        return {'kind': 'privilegesUpdate', 'room': None, 'user': None, 'args': [ev.time_left]}
    if isinstance(ev, E.PrivilegedUsersEvent):
        return {'kind': 'privilegedUsers', 'room': None, 'user': None, 'args': [sorted({_uname(u) for u in ev.users})]}
    if isinstance(ev, E.PrivilegedUserAddedEvent):
        return {'kind': 'privilegedUserAdded', 'room': None, 'user': _uname(ev.user), 'args': []}
    for cls, kind in ((E.UserStatusUpdateEvent, 'userStatusUpdate'), (E.UserStatsUpdateEvent, 'userStatsUpdate'),
                      (E.UserInfoUpdateEvent, 'userInfoUpdate')):
        if isinstance(ev, cls):
            return {'kind': kind, 'room': None, 'user': _uname(ev.current), 'args': [_user_obs(ev.before), _user_obs(ev.current)],
                    'before_name': _uname(ev.before)}
    return {'kind': f'unknown-{n}', 'room': None, 'user': None, 'args': []}


def _public_event_classes():
    from aioslsk import events as E
    out = []
    todo = list(E.Event.__subclasses__())
    while todo:
        c = todo.pop()
        if c is E.InternalEvent or issubclass(c, E.InternalEvent):
            continue
        out.append(c)
        todo += c.__subclasses__()
    return out


def _run_impl(case: dict) -> list:
    """One observation per op: {'err', 'events', 'rooms', 'users', 'ps', 'tl'} (users: held ones only)."""
    import asyncio
    from aioslsk.events import EventBus, MessageReceivedEvent
    from aioslsk.room.manager import RoomManager
    from aioslsk.user.manager import UserManager
    from aioslsk.user.model import User, BlockingFlag
    from aioslsk.protocol.messages import PrivateChatMessageAck
    from aioslsk.session import Session
    from aioslsk.settings import Settings
    from vlib.simloop import SimLoop

    blocked = {}
    for u in case['blocked_room']:
        blocked[U(u)] = blocked.get(U(u), BlockingFlag.NONE) | BlockingFlag.ROOM_MESSAGES
    for u in case['blocked_priv']:
        blocked[U(u)] = blocked.get(U(u), BlockingFlag.NONE) | BlockingFlag.PRIVATE_MESSAGES
    settings = Settings(credentials={'username': U(case['me']), 'password': 'p'}, users={'blocked': blocked})
    bus = EventBus()
    net = _Net()
    um = UserManager(settings, bus, net)
    rm = RoomManager(settings, bus, um, net)
    session = Session(User(U(case['me'])), ip_address='1.2.3.4', greeting='', client_version=157, minor_version=100)
    um._session = session
    events: list = []

    def recorder(ev):                  # strong reference kept in this frame (EventBus holds listeners weakly)
        events.append(_event_obs(ev))

    for cls in _public_event_classes():
        bus.register(cls, recorder)
    catch = _LogCatch()
    lg = logging.getLogger('aioslsk')
    old_level, old_prop = lg.level, lg.propagate
    lg.addHandler(catch)
    lg.propagate = False
    held: dict = {}
    server_conn = types.SimpleNamespace(username=None)
    obs = []

    def state():
        rooms = {}
        for name, room in rm.rooms.items():
            rooms[_unid(name, 'room')] = {
                'name_ok': room.name == name,
                'joined': bool(room.joined), 'private': bool(room.private),
                'users': [_uname(u) for u in room.users],
                'owner': None if room.owner is None else _unid(room.owner, 'user'),
                'members': sorted(_unid(x, 'user') for x in room.members),
                'operators': sorted(_unid(x, 'user') for x in room.operators),
                'tickers': sorted([_unid(k, 'user'), _unid(v, 'text')] for k, v in room.tickers.items()),
            }
        return {'rooms': rooms, 'users': {i: _user_obs(u) for i, u in held.items()},
                'ps': sorted(_unid(x, 'user') for x in um.privileged_users), 'tl': session.privileges_time_left}

    async def go():
        for op in case['ops']:
            del events[:]
            del catch.errors[:]
            del net.sent[:]
            if op[0] == 'hold':
                for i in range(N_USERS):
                    held[i] = um.get_user_object(U(i))
                o = {'err': 'ok', 'events': []}
            elif op[0] in LOCAL_OPS:
                from vlib import simloop as _sl
                await (um.track_user if op[0] == 'track' else um.untrack_user)(U(op[1]))
                await _sl.settle()
                err = 'ok' if not catch.errors else catch.errors[0]
                o = {'err': err, 'events': [e for e in events if not e['kind'].startswith('unknown-')]}
            else:
                msg = _mk_message(op)
                if KINDS[op[0]][0] == 'peer':
                    conn = types.SimpleNamespace(username=None if op[1] is None else U(op[1])) \
                        if op[0] == 'peerInfo' else types.SimpleNamespace(username=U(op[1]))
                else:
                    conn = server_conn
                await bus.emit(MessageReceivedEvent(msg, conn))
                if net.waiters:
                    from vlib import simloop as _sl
                    net.deliver(msg)
                    await _sl.settle()
                    if case.get('focus') == 'local':        # tracking-state events are not what this property is about
                        events[:] = [e for e in events if not e['kind'].startswith('unknown-')]
                        net.sent[:] = [m for m in net.sent if isinstance(m, PrivateChatMessageAck.Request)]
                acks = [{'kind': 'ack', 'room': None, 'user': None, 'args': [m.chat_id]}
                        for m in net.sent if isinstance(m, PrivateChatMessageAck.Request)]
                other = [type(m).__qualname__ for m in net.sent if not isinstance(m, PrivateChatMessageAck.Request)]
                err = 'ok' if not catch.errors else catch.errors[0]
                if other:
                    err = 'sent-' + ','.join(other)
                o = {'err': err, 'events': acks + list(events)}
            o.update(state())
            if case.get('focus') == 'evict':
                # nobody but the rooms holds user objects in this family: whoever is no longer in any room's user list is
                # dropped by the weak dictionary (CPython frees an unreferenced object at once; a full collection per step
                # would only matter for objects caught in reference cycles, and costs more than the rest of the case)
                flags: dict = {}
                for room in rm.rooms.values():
                    for u in room.users:
                        flags.setdefault(_uname(u), set()).add(bool(u.privileged))
                o['room_priv'] = {k: sorted(v) for k, v in flags.items()}
            obs.append(o)

    loop = SimLoop()
    try:
        loop.run_until_complete(go())
    finally:
        loop.close()
        lg.removeHandler(catch)
        lg.propagate = old_prop
        lg.setLevel(old_level)
    return obs


def _eval_case(case):
    try:
        return _run_impl(case)
    except Exception as e:       # the harness itself failed on this case
        return [{'err': f'HARNESS-{type(e).__name__}: {e}', 'events': [], 'rooms': {}, 'users': {}, 'ps': [], 'tl': 0}]


# --------------------------------------------------------------------------------------------
# canonical text (same format as Driver/C19.lean)
# --------------------------------------------------------------------------------------------

def _s_opt(v):
    if v is None:
        return '-'
    if v is True:
        return '1'
    if v is False:
        return '0'
    return str(v)


def _s_list(l):
    return '[' + ','.join(str(x) for x in l) + ']'


def _s_pairs(l):
    return '[' + ','.join(f'{k}={v}' for k, v in l) + ']'


def _s_user(u: dict):
    return ','.join(_s_opt(u[f]) if f != 'privileged' else ('1' if u[f] else '0') for f in USER_FIELDS)


def _s_event(e: dict) -> str:
    k, r, u, a = e['kind'], e['room'], e['user'], e['args']
    if k in ('roomMessage', 'publicMessage', 'tickerAdded'):
        return f'{k}:{r},{u},{a[0]}'
    if k in ('roomJoined', 'roomLeft', 'membershipGranted', 'membershipRevoked', 'operatorGranted', 'operatorRevoked'):
        return f'{k}:{r},{_s_opt(u)}'
    if k == 'tickers':
        return f'{k}:{r},{_s_pairs(a[0])}'
    if k == 'tickerRemoved':
        return f'{k}:{r},{u}'
    if k in ('members', 'operators'):
        return f'{k}:{r},{_s_list(a[0])}'
    if k in ('roomList', 'privilegedUsers'):
        return f'{k}:{_s_list(a[0])}'
    if k in ('admin', 'privilegesUpdate', 'ack'):
        return f'{k}:{a[0]}'
    if k == 'kicked':
        return 'kicked:'
    if k == 'privateMessage':
        return f'{k}:{a[0]},{a[1]},{u},{a[2]},{"1" if a[3] else "0"}'
    if k == 'privilegedUserAdded':
        return f'{k}:{u}'
    if k in ('userStatusUpdate', 'userStatsUpdate', 'userInfoUpdate'):
        return f'{k}:{u};{_s_user(a[0])};{_s_user(a[1])}'
    return k


def _s_state(o: dict) -> str:
    parts = []
    for rid in sorted(o['rooms'], key=lambda x: (isinstance(x, str), x)):
        x = o['rooms'][rid]
        parts.append(f"R{rid}:j{int(x['joined'])}p{int(x['private'])}u{_s_list(sorted(x['users'], key=str))}"
                     f"o{_s_opt(x['owner'])}m{_s_list(x['members'])}op{_s_list(x['operators'])}t{_s_pairs(x['tickers'])}"
                     + ('' if x['name_ok'] else '!name'))
    for uid in sorted(o['users']):
        parts.append(f"U{uid}:{_s_user(o['users'][uid])}")
    parts.append(f"PS{_s_list(o['ps'])}")
    parts.append(f"TL{o['tl']}")
    return ' '.join(parts)


def _impl_lines(case: dict, obs: list) -> list[str]:
    out = ['ok']
    for op, o in zip(case['ops'], obs):
        if op[0] == 'hold':
            out.append(_s_state(o))
        else:
            out.append(f"{o['err']} | {';'.join(_s_event(e) for e in o['events'])} | {_s_state(o)}")
    if len(obs) != len(case['ops']):
        out.append('HARNESS ' + (obs[-1]['err'] if obs else 'no observation'))
    return out


def _l(l):
    return ','.join(str(x) for x in l) if l else '-'


def _model_lines(case: dict) -> list[str]:
    out = [f"env {case['me']} {_l(case['blocked_room'])} {_l(case['blocked_priv'])}"]
    for op in case['ops']:
        k, a = op[0], op[1:]
        if k == 'hold':
            out.append('hold ' + _l(range(N_USERS)))
        elif k == 'userJoined':
            out.append(f"{k} {a[0]} {a[1]} {a[2]} {' '.join(map(str, a[3]))} {a[4]} {a[5]}")
        elif k == 'joinRoom':
            es = ','.join(':'.join(map(str, [e[0], e[1], *e[2], e[3], e[4]])) for e in a[1]) or '-'
            out.append(f"{k} {a[0]} {es} {_s_opt(a[2])} {_l(a[3])}")
        elif k == 'tickers':
            out.append(f"{k} {a[0]} {','.join(f'{u}={t}' for u, t in a[1]) or '-'}")
        elif k in ('members', 'operators'):
            out.append(f"{k} {a[0]} {_l(a[1])}")
        elif k == 'roomList':
            out.append(f"{k} {_l(a[0])} {_l(a[1])} {_l(a[2])} {_l(a[3])}")
        elif k == 'privilegedUsers':
            out.append(f"{k} {_l(a[0])}")
        elif k == 'addUser':
            u, ex, status, stats, country = a
            if not ex:
                out.append(f'{k} {u} 0')
            else:
                out.append(f"{k} {u} 1 {_s_opt(status)} {' '.join(map(str, stats))} {_s_opt(country)}")
        elif k == 'userStats':
            out.append(f"{k} {a[0]} {' '.join(map(str, a[1]))}")
        elif k == 'peerInfo':
            out.append(f"{k} {_s_opt(a[0])} {a[1]} {_s_opt(a[2])} {a[3]} {a[4]} {int(a[5])} {_s_opt(a[6])}")
        else:
            out.append(' '.join([k] + [str(int(x)) if isinstance(x, bool) else str(x) for x in a]))
    return out


# --------------------------------------------------------------------------------------------
# monitor: the specification fold, in plain Python, against the real trace
# --------------------------------------------------------------------------------------------

def _new_room(private: bool) -> dict:
    return {'joined': False, 'private': private, 'users': set(), 'owner': None, 'members': set(),
            'operators': set(), 'tickers': {}}


def _new_user() -> dict:
    return {f: None for f in USER_FIELDS} | {'privileged': False}


def _wellformed(op: list) -> bool:
    k, a = op[0], op[1:]
    if k == 'userJoined':
        return a[2] in (0, 1, 2)
    if k == 'joinRoom':
        return all(e[1] in (0, 1, 2) for e in a[1])
    if k == 'addUser':
        return (not a[1]) or a[2] in (0, 1, 2)
    if k == 'userStatus':
        return a[1] in (0, 1, 2)
    if k == 'peerInfo':
        return a[6] is None or a[6] in (0, 1, 2, 3)
    return True


def _spec_apply(spec: dict, case: dict, op: list):
    """what one notification implies: join adds, leave removes, grant adds, revoke removes, lists replace"""
    me = case['me']
    rooms, users = spec['rooms'], spec['users']
    k, a = op[0], op[1:]

    def room(r, private=False):
        if r not in rooms:
            rooms[r] = _new_room(private)
        return rooms[r]

    def stats(u, s):
        users[u].update(avg_speed=s[0], uploads=s[1], shared_file_count=s[2], shared_folder_count=s[3])

    if k in ('roomChat', 'publicChat'):
        if a[1] not in case['blocked_room']:
            room(a[0])
    elif k == 'userJoined':
        r, u, status, st, slots, country = a
        users[u].update(status=status, slots_free=slots, country=country)
        stats(u, st)
        room(r)['users'].add(u)
    elif k == 'userLeft':
        room(a[0])['users'].discard(a[1])
    elif k == 'joinRoom':
        r, es, owner, ops = a
        x = room(r)
        x['joined'] = True
        x['private'] = owner is not None
        x['users'] = {e[0] for e in es}
        x['owner'] = owner
        x['operators'] = set(ops)
        for e in es:
            users[e[0]].update(status=e[1], slots_free=e[3], country=e[4])
            stats(e[0], e[2])
    elif k == 'leaveRoom':
        x = room(a[0])
        x['joined'] = False
        x['users'] = set()
    elif k == 'tickers':
        room(a[0])['tickers'] = {u: t for u, t in a[1]}
    elif k == 'tickerAdded':
        room(a[0])['tickers'][a[1]] = a[2]
    elif k == 'tickerRemoved':
        room(a[0])['tickers'].pop(a[1], None)
    elif k == 'grantMembership':
        room(a[0], True)['members'].add(a[1])
    elif k == 'membershipGranted':
        room(a[0], True)['members'].add(me)
    elif k == 'revokeMembership':
        x = room(a[0], True)
        x['members'].discard(a[1])
        x['operators'].discard(a[1])
    elif k == 'membershipRevoked':
        x = room(a[0], True)
        x['members'].discard(me)
        x['operators'].discard(me)
    elif k == 'members':
        room(a[0], True)['members'] = set(a[1])
    elif k == 'operators':
        room(a[0], True)['operators'] = set(a[1])
    elif k == 'operatorGranted':
        room(a[0], True)['operators'].add(me)
    elif k == 'operatorRevoked':
        room(a[0], True)['operators'].discard(me)
    elif k == 'grantOperator':
        room(a[0], True)['operators'].add(a[1])
    elif k == 'revokeOperator':
        room(a[0], True)['operators'].discard(a[1])
    elif k == 'roomList':
        pub, owned, priv, oper = a
        listed = set(pub) | set(priv) | set(owned)
        for r in list(rooms):
            if r not in listed:
                del rooms[r]
        for r in listed:
            x = room(r)
            if r in owned:
                x['owner'] = me
            elif x['owner'] == me:
                x['owner'] = None
            (x['operators'].add if r in oper else x['operators'].discard)(me)
            (x['members'].add if r in priv else x['members'].discard)(me)
            x['private'] = r not in pub
    elif k == 'checkPrivileges':
        spec['tl'] = a[0]
    elif k == 'privilegedUsers':
        for u in users:
            users[u]['privileged'] = u in a[0]
    elif k == 'addPrivileged':
        users[a[0]]['privileged'] = True
    elif k == 'addUser':
        u, ex, status, st, country = a
        if ex:
            users[u].update(status=status, country=country)
            stats(u, st)
    elif k == 'userStatus':
        users[a[0]].update(status=a[1], privileged=bool(a[2]))
    elif k == 'userStats':
        stats(a[0], a[1])
    elif k == 'peerInfo':
        conn, descr, pic, slots, queue, free, perms = a
        if conn is not None:
            users[conn].update(description=descr, picture=pic, upload_slots=slots, queue_length=queue,
                               has_slots_free=bool(free), upload_permissions=perms)
    elif k == 'peerSearch':
        users[a[0]].update(has_slots_free=bool(a[1]), avg_speed=a[2], queue_length=a[3])
    elif k in ('toggleInvites', 'admin', 'kicked', 'privateChat'):
        pass
    else:
        raise ValueError(k)


# kind of event, room, user a notification is reported as (None: nothing is reported)
def _announces(op: list, case: dict) -> Optional[tuple]:
    k, a = op[0], op[1:]
    table = {
        'roomChat': ('roomMessage', 0, 1), 'publicChat': ('publicMessage', 0, 1), 'userJoined': ('roomJoined', 0, 1),
        'userLeft': ('roomLeft', 0, 1), 'joinRoom': ('roomJoined', 0, None), 'leaveRoom': ('roomLeft', 0, None),
        'tickers': ('tickers', 0, None), 'tickerAdded': ('tickerAdded', 0, 1), 'tickerRemoved': ('tickerRemoved', 0, 1),
        'grantMembership': ('membershipGranted', 0, 1), 'membershipGranted': ('membershipGranted', 0, None),
        'revokeMembership': ('membershipRevoked', 0, 1), 'membershipRevoked': ('membershipRevoked', 0, None),
        'members': ('members', 0, None), 'operators': ('operators', 0, None),
        'operatorGranted': ('operatorGranted', 0, None), 'operatorRevoked': ('operatorRevoked', 0, None),
        'grantOperator': ('operatorGranted', 0, 1), 'revokeOperator': ('operatorRevoked', 0, 1),
        'roomList': ('roomList', None, None), 'admin': ('admin', None, None), 'kicked': ('kicked', None, None),
        'privateChat': ('privateMessage', None, 2), 'checkPrivileges': ('privilegesUpdate', None, None),
        'privilegedUsers': ('privilegedUsers', None, None), 'addPrivileged': ('privilegedUserAdded', None, 0),
        'userStatus': ('userStatusUpdate', None, 0), 'userStats': ('userStatsUpdate', None, 0),
        'peerInfo': ('userInfoUpdate', None, 0),
    }
    if k not in table:
        return None
    kind, ri, ui = table[k]
    if k == 'peerInfo' and a[0] is None:
        return None
    return (kind, None if ri is None else a[ri], None if ui is None else a[ui])


def _is_blocked(op: list, case: dict) -> bool:
    if op[0] in ('roomChat', 'publicChat'):
        return op[2] in case['blocked_room']
    if op[0] == 'privateChat':
        return op[3] in case['blocked_priv']
    return False


def _monitor(case: dict, obs: list) -> list[Violation]:
    vs: list[Violation] = []
    spec = {'rooms': {}, 'users': {i: _new_user() for i in range(N_USERS)}, 'tl': 0}
    held = False
    for idx, (op, o) in enumerate(zip(case['ops'], obs)):
        if str(o['err']).startswith('HARNESS'):
            break
        where = f'op #{idx} {op[0]}'
        if op[0] == 'hold':
            held = True
        elif op[0] in LOCAL_OPS:
            # a local call announces nothing: every view must stay what the notifications so far imply
            if o['err'] != 'ok':
                vs.append(Violation(f'C19-handler-raised-{op[0]}', f'{where}: the call raised / logged an error', case,
                                    observed=o['err']))
                break
            reports = [(e['kind'], e['room'], e['user']) for e in o['events'] if e['kind'] != 'ack']
            if reports:
                vs.append(Violation(f'C19-event-{op[0]}', f'{where}: a local call was reported as a server notification',
                                    case, observed=reports, required=[]))
        else:
            if not _wellformed(op):
                break                   # a half-applied notification implies nothing the property speaks about
            if o['err'] != 'ok':
                vs.append(Violation(f'C19-handler-raised-{op[0]}', f'{where}: handler raised on a well-formed message',
                                    case, observed=o['err']))
                break
            _spec_apply(spec, case, op)
            # events: kind / room / user of the notification; nothing from blocked senders; private chat acked
            reports = [(e['kind'], e['room'], e['user']) for e in o['events'] if e['kind'] != 'ack']
            acks = [e['args'][0] for e in o['events'] if e['kind'] == 'ack']
            if op[0] == 'privateChat' and acks != [op[1]]:
                vs.append(Violation('C19-private-ack', f'{where}: private message not acknowledged exactly once',
                                    case, observed=acks, required=[op[1]]))
            if _is_blocked(op, case):
                if reports:
                    vs.append(Violation(f'C19-block-filter-{op[0]}', f'{where}: message from a blocked user was reported',
                                        case, observed=reports, required=[]))
            else:
                exp = _announces(op, case)
                want = [] if exp is None else [exp]
                if reports != want:
                    vs.append(Violation(f'C19-event-{op[0]}', f'{where}: reported events do not carry the kind/room/user '
                                        'of the notification', case, observed=reports, required=want))
                for e in o['events']:
                    if 'before_name' in e and e['before_name'] != e['user']:
                        vs.append(Violation(f'C19-event-{op[0]}', f'{where}: before/current name differ', case,
                                            observed=[e['before_name'], e['user']]))
        # state: rooms
        if set(o['rooms']) != set(spec['rooms']):
            vs.append(Violation(f'C19-replica-{op[0]}-roomset', f'{where}: known rooms differ from what was announced',
                                case, observed=sorted(map(str, o['rooms'])), required=sorted(spec['rooms'])))
            break
        bad = False
        for r, x in o['rooms'].items():
            s = spec['rooms'][r]
            got = {'joined': x['joined'], 'private': x['private'], 'users': sorted(x['users'], key=str), 'owner': x['owner'],
                   'members': x['members'], 'operators': x['operators'], 'tickers': x['tickers']}
            want = {'joined': s['joined'], 'private': s['private'], 'users': sorted(s['users']), 'owner': s['owner'],
                    'members': sorted(s['members']), 'operators': sorted(s['operators']),
                    'tickers': sorted([u, t] for u, t in s['tickers'].items())}
            for f in got:
                if got[f] != want[f]:
                    dup = f == 'users' and len(set(map(str, got[f]))) != len(got[f])
                    vs.append(Violation(f'C19-replica-{op[0]}-{f}' + ('-duplicate' if dup else ''),
                                        f'{where}: room {r} {f} differs from the fold of the notifications',
                                        case, observed=got[f], required=want[f]))
                    bad = True
            if not x['name_ok']:
                vs.append(Violation(f'C19-replica-{op[0]}-name', f'{where}: room object registered under another name', case))
                bad = True
        if held:
            for u, x in o['users'].items():
                for f in USER_FIELDS:
                    if x[f] != spec['users'][u][f]:
                        vs.append(Violation(f'C19-replica-{op[0]}-user-{f}',
                                            f'{where}: user {u} {f} differs from the fold of the notifications',
                                            case, observed=x[f], required=spec['users'][u][f]))
                        bad = True
        if o['tl'] != spec['tl']:
            vs.append(Violation(f'C19-replica-{op[0]}-timeleft', f'{where}: privilege time differs', case,
                                observed=o['tl'], required=spec['tl']))
            bad = True
        if bad:
            break                       # later states inherit the divergence
    return vs


# --------------------------------------------------------------------------------------------
# generator
# --------------------------------------------------------------------------------------------

def _stats(rng):
    return [rng.choice([0, 1, 7, 100, 2 ** 32 - 1]), rng.randint(0, 9), rng.randint(0, 9), rng.randint(0, 9)]


def _status(rng, bad):
    return rng.choice([3, 4, 7, 2 ** 31]) if bad else rng.choice([0, 1, 2, 2])


def _sub(rng, n, allow_dup=False):
    l = [i for i in range(n) if rng.random() < 0.5]
    if allow_dup and l and rng.random() < 0.15:
        l.append(rng.choice(l))
    rng.shuffle(l)
    return l


def _gen_op(rng: random.Random, kind: str, bad: bool = False) -> list:
    r = rng.randrange(N_ROOMS)
    u = rng.randrange(N_USERS)
    t = rng.randint(0, 5)
    if kind in ('roomChat', 'publicChat', 'tickerAdded'):
        return [kind, r, u, t]
    if kind == 'userJoined':
        return [kind, r, u, _status(rng, bad), _stats(rng), rng.randint(0, 3), rng.randint(0, 3)]
    if kind in ('userLeft', 'tickerRemoved', 'grantMembership', 'revokeMembership', 'grantOperator', 'revokeOperator'):
        return [kind, r, u]
    if kind == 'joinRoom':
        names = _sub(rng, N_USERS, allow_dup=True)
        if rng.random() < 0.6 and 0 not in names:
            names.append(0)
        es = [[n, _status(rng, False), _stats(rng), rng.randint(0, 3), rng.randint(0, 3)] for n in names]
        if bad and es:
            es[rng.randrange(len(es))][1] = _status(rng, True)
        owner = rng.choice([None, None, 0, 1, 2])
        return [kind, r, es, owner, _sub(rng, N_USERS, True) if owner is not None else []]
    if kind in ('leaveRoom', 'membershipGranted', 'membershipRevoked', 'operatorGranted', 'operatorRevoked'):
        return [kind, r]
    if kind == 'tickers':
        us = _sub(rng, N_USERS, allow_dup=True)
        return [kind, r, [[x, rng.randint(0, 5)] for x in us]]
    if kind == 'toggleInvites':
        return [kind, rng.random() < 0.5]
    if kind in ('members', 'operators'):
        return [kind, r, _sub(rng, N_USERS, True)]
    if kind == 'roomList':
        return [kind, _sub(rng, N_ROOMS, True), _sub(rng, N_ROOMS), _sub(rng, N_ROOMS), _sub(rng, N_ROOMS)]
    if kind == 'admin':
        return [kind, t]
    if kind == 'kicked':
        return [kind]
    if kind == 'privateChat':
        return [kind, rng.randint(0, 99), rng.randint(0, 99), u, t, rng.random() < 0.5]
    if kind == 'checkPrivileges':
        return [kind, rng.choice([0, 1, 3600, 2 ** 32 - 1])]
    if kind == 'privilegedUsers':
        return [kind, _sub(rng, N_USERS, True)]
    if kind == 'addPrivileged':
        return [kind, u]
    if kind == 'addUser':
        if rng.random() < 0.25 and not bad:
            return [kind, u, False, None, None, None]
        return [kind, u, True, _status(rng, bad), _stats(rng), rng.choice([None, 0, 1, 2])]
    if kind == 'userStatus':
        return [kind, u, _status(rng, bad), rng.random() < 0.5]
    if kind == 'userStats':
        return [kind, u, _stats(rng)]
    if kind == 'peerInfo':
        conn = None if rng.random() < 0.1 else u
        perms = rng.choice([4, 9]) if bad else rng.choice([None, 0, 1, 2, 3])
        return [kind, conn, t, rng.choice([None, 0, 1]), rng.randint(0, 5), rng.randint(0, 5), rng.random() < 0.5, perms]
    if kind == 'peerSearch':
        return [kind, u, rng.random() < 0.5, rng.randint(0, 9), rng.randint(0, 9)]
    raise ValueError(kind)


FOCUS = {
    'any': list(KINDS),
    'presence': ['joinRoom', 'leaveRoom', 'userJoined', 'userLeft', 'joinRoom', 'userJoined', 'roomList', 'roomChat'],
    'private': ['grantMembership', 'membershipGranted', 'revokeMembership', 'membershipRevoked', 'members', 'operators',
                'operatorGranted', 'operatorRevoked', 'grantOperator', 'revokeOperator', 'roomList', 'joinRoom'],
    'tickers': ['tickers', 'tickerAdded', 'tickerRemoved', 'tickerAdded', 'leaveRoom', 'joinRoom', 'roomList'],
    'users': ['userStatus', 'userStats', 'addUser', 'privilegedUsers', 'addPrivileged', 'checkPrivileges', 'peerInfo',
              'peerSearch', 'userJoined', 'joinRoom'],
    'chat': ['roomChat', 'publicChat', 'privateChat', 'admin', 'kicked', 'toggleInvites', 'roomList'],
}
CAN_BE_BAD = ('userJoined', 'joinRoom', 'addUser', 'userStatus', 'peerInfo')


def _gen_local_case(rng: random.Random) -> dict:
    """monitor-only: the notifications about users and presence, interleaved with the application's own track / untrack
    calls (the server's answer to a track request is an ordinary `addUser` notification, delivered to handlers and waiters)"""
    kinds = FOCUS['users'] + FOCUS['presence'] + ['addUser', 'addUser', 'userStatus']
    ops = []
    for _ in range(rng.choice([3, 5, 8, 12])):
        r = rng.random()
        if r < 0.2:
            ops.append(['track', rng.randrange(N_USERS)])
        elif r < 0.4:
            ops.append(['untrack', rng.randrange(N_USERS)])
        else:
            ops.append(_gen_op(rng, rng.choice(kinds)))
    return {'me': 0, 'blocked_room': [], 'blocked_priv': [], 'ops': [['hold']] + ops[:MAX_LEN], 'focus': 'local', 'model': False}


def _gen_evict_case(rng: random.Random) -> dict:
    """monitor-only: the application holds NO user object (no `hold`): a user exists only while a room's user list holds
    it, is dropped when it leaves the last room and is created afresh when it is referenced again — with what the server
    said about its privileges meanwhile (lists, additions, status updates) in between"""
    kinds = ['userJoined', 'userJoined', 'userLeft', 'userLeft', 'joinRoom', 'leaveRoom', 'userStatus', 'userStatus',
             'userStatus', 'privilegedUsers', 'addPrivileged', 'userStats', 'roomChat']
    ops = [_gen_op(rng, rng.choice(kinds)) for _ in range(rng.choice([4, 6, 8, 12]))]
    return {'me': 0, 'blocked_room': [], 'blocked_priv': [], 'ops': ops[:MAX_LEN], 'focus': 'evict', 'model': False}


def _monitor_evict(case: dict, obs: list) -> list[Violation]:
    """What the notifications imply about a user's privileges when the user object did not live through all of them: the
    flag of a referenced user is the LAST word of the server about that user (a list it is / is not in, an addition, a
    status update) — or, for an object created after that word was spoken, membership of the privileged-users set as the
    lists and additions define it (the library keeps no per-user memory beyond that set). Anything else is a flag no
    notification implies."""
    vs: list[Violation] = []
    last_word: dict = {}
    set_a: set = set()
    for idx, (op, o) in enumerate(zip(case['ops'], obs)):
        if str(o['err']).startswith('HARNESS') or not _wellformed(op):
            break
        if o['err'] != 'ok':
            vs.append(Violation(f'C19-handler-raised-{op[0]}', f'op #{idx} {op[0]}: handler raised on a well-formed message',
                                case, observed=o['err']))
            break
        if op[0] == 'privilegedUsers':
            set_a = set(op[1])
            for u in range(N_USERS):
                last_word[u] = u in set_a
        elif op[0] == 'addPrivileged':
            set_a.add(op[1])
            last_word[op[1]] = True
        elif op[0] == 'userStatus':
            last_word[op[1]] = bool(op[3])
        for name, flags in (o.get('room_priv') or {}).items():
            u = name
            allowed = {u in set_a}
            if u in last_word:
                allowed.add(last_word[u])
            if len(flags) != 1 or flags[0] not in allowed:
                vs.append(Violation(
                    'C19-replica-privileges-after-eviction',
                    f'op #{idx} {op[0]}: user {u} referenced by a room has privileged={flags} but the last word of the server '
                    f'about this user is {last_word.get(u, "nothing")} and the privileged-users lists / additions '
                    f'{"contain" if u in set_a else "do not contain"} it', case, observed=flags, required=sorted(allowed)))
                return vs
    return vs


def _gen_case(rng: random.Random) -> dict:
    r0 = rng.random()
    if r0 < 0.08:
        return _gen_local_case(rng)
    if r0 < 0.16:
        return _gen_evict_case(rng)
    focus = rng.choice(['any', 'any', 'any', 'presence', 'private', 'private', 'tickers', 'users', 'chat', 'malformed'])
    kinds = FOCUS['any' if focus == 'malformed' else focus]
    n = rng.choice([1, 2, 3, 5, 8, 12, 12, rng.randint(1, MAX_LEN)])
    ops = [_gen_op(rng, rng.choice(kinds)) for _ in range(n)]
    if focus == 'malformed':
        k = rng.choice(CAN_BE_BAD)
        ops[rng.randrange(len(ops))] = _gen_op(rng, k, bad=True)
    pre = []
    if rng.random() < 0.2:
        pre = [_gen_op(rng, rng.choice(PRE_HOLD + ('privilegedUsers', 'privilegedUsers'))) for _ in range(rng.randint(1, 2))]
    return {'me': 0, 'blocked_room': _sub(rng, N_USERS) if focus in ('chat', 'any') and rng.random() < 0.7 else [],
            'blocked_priv': _sub(rng, N_USERS) if focus in ('chat', 'any') and rng.random() < 0.7 else [],
            'ops': pre + [['hold']] + ops[:MAX_LEN - len(pre)], 'focus': focus}


def _case(ops, **kw):
    return {'me': 0, 'blocked_room': [], 'blocked_priv': [], 'ops': [['hold']] + ops, 'focus': 'witness'} | kw


ENTRY = lambda u: [u, 2, [1, 2, 3, 4], 1, 1]
# the inputs that exposed the two defects repaired by fixes/C19-*.patch
W_OPERATOR = _case([['operators', 1, [1]], ['operatorGranted', 1]])
W_JOIN = _case([['joinRoom', 0, [ENTRY(0), ENTRY(1)], None, []], ['leaveRoom', 0],
                ['userJoined', 0, 2, 2, [9, 9, 9, 9], 1, 1], ['joinRoom', 0, [ENTRY(0), ENTRY(1)], None, []]])
FIXED_CASES = [
    W_OPERATOR, W_JOIN,
    _case([['joinRoom', 0, [ENTRY(0), ENTRY(1)], None, []], ['joinRoom', 0, [ENTRY(0)], None, []]]),
    _case([['roomList', [0], [1], [], [1]], ['roomList', [0, 1], [], [], []], ['roomList', [], [0], [1], [0, 1]]]),
    _case([['grantOperator', 0, 1], ['revokeMembership', 0, 1], ['members', 0, [1, 2]], ['membershipRevoked', 0]]),
    _case([['roomChat', 0, 1, 1], ['publicChat', 1, 2, 2], ['privateChat', 7, 8, 1, 3, True], ['privateChat', 9, 8, 2, 3, False]],
          blocked_room=[1], blocked_priv=[2]),
    {'me': 0, 'blocked_room': [], 'blocked_priv': [], 'focus': 'witness',
     'ops': [['privilegedUsers', [1, 2]], ['hold'], ['userStatus', 1, 2, False], ['privilegedUsers', [0]], ['addPrivileged', 2]]},
]


USER_KINDS = {'addPrivileged': 1, 'addUser': 1, 'userStatus': 1, 'userStats': 1, 'peerInfo': 1, 'peerSearch': 1,
              'privateChat': 3}
NO_TARGET = ('hold', 'toggleInvites', 'admin', 'kicked', 'checkPrivileges')


def _corpus() -> list:
    """minimised past violations (corpus/C19/*.json), always run first"""
    import json
    out = []
    d = common.CORPUS / 'C19'
    if d.is_dir():
        for f in sorted(d.glob('*.json')):
            c = json.loads(f.read_text())['case']
            out.append(dict(c, focus='witness'))
    return out


def _nontrivial(case: dict) -> bool:
    """two different notification kinds addressed the same room or the same user"""
    by_room, by_user = {}, {}
    for op in case['ops']:
        k = op[0]
        if k in NO_TARGET:
            continue
        if k in LOCAL_OPS:
            by_user.setdefault(op[1], set()).add(k)
            continue
        if k == 'roomList':
            for r in set(op[1]) | set(op[2]) | set(op[3]):
                by_room.setdefault(r, set()).add(k)
        elif k == 'privilegedUsers':
            for u in op[1]:
                by_user.setdefault(u, set()).add(k)
        elif k in USER_KINDS:
            by_user.setdefault(op[USER_KINDS[k]], set()).add(k)
        else:
            by_room.setdefault(op[1], set()).add(k)
            if k in ('userJoined',):
                by_user.setdefault(op[2], set()).add(k)
            if k == 'joinRoom':
                for e in op[2]:
                    by_user.setdefault(e[0], set()).add(k)
    return any(len(v) >= 2 for v in by_room.values()) or any(len(v) >= 2 for v in by_user.values())


class C19(Property):
    id = 'C19'
    props_module = 'AioslskVerif.Props.C19'
    driver_module = 'AioslskVerif.Driver.C19'
    rule = ('histories of <= 12 notifications (all 32 message classes the two managers listen to, drawn by focus: any / '
            'presence / private-room roles / tickers / user data / chat with block lists / one malformed enum value) over '
            '2 rooms x 3 users incl. the logged-in user, optionally preceded by privilege lists received before the '
            'application references any user; derived from VERIF_SEED; a case is non-trivial when two different kinds of '
            'notification addressed the same room or the same user; distinct = distinct canonical case')
    assumptions = [
        'the application keeps a reference to every user it observes (the harness holds the three User objects from the '
        '`hold` op on); eviction of unreferenced users from the WeakValueDictionary is outside the modelled alphabet — a '
        'monitor-only family (`evict`: nobody but the rooms holds users) judges the privilege flag of users that were dropped '
        'and referenced again: it must be the last word of the server about the user or membership of the announced set',
        'messages carry enum values in enum fields (status 0..2, upload permissions 0..3) — on other values a handler '
        'dies half-way with ValueError: modelled and compared, but outside the replica theorem and the monitor',
        'RoomList user counts (Room.user_count) are exercised, not modelled',
    ]
    modelled = ('room/manager.py: all 21 message handlers, get_or_create_room; room/model.py add_user/remove_user; '
                'user/manager.py: the 11 message handlers, get_user_object, _privileged_users; settings.users.is_blocked; '
                'the events emitted and the PrivateChatMessageAck sent. Not modelled: weak-reference eviction of users, '
                'Room.user_count, timestamps, reset on disconnect, auto-join (C16), tracking (C15)')

    def correspondence(self, seed, tier, model_ok, widen=1):
        res = KResult()
        rng = random.Random(f'C19-{seed}')
        n = (12000 if tier == "quick" else 150000) * widen
        cases = list(FIXED_CASES) + _corpus() + [_gen_case(rng) for _ in range(n)]
        # handler set of the real managers, read now
        room_h, user_h = _handler_classes()
        known = {_kind_class(k) for k in KINDS}
        hit: dict = {}
        for c in cases:
            for op in c['ops']:
                if op[0] != 'hold' and op[0] not in LOCAL_OPS:
                    hit[_kind_class(op[0])] = hit.get(_kind_class(op[0]), 0) + 1
        for cls in sorted((room_h | user_h) - known):
            res.disagreements.append(Disagreement(None, f'handler registered for {cls}', 'no model of this handler',
                                                  'handler set read from the managers'))
        for cls in sorted(known - (room_h | user_h)):
            res.disagreements.append(Disagreement(None, f'no handler registered for {cls}', 'model has one',
                                                  'handler set read from the managers'))
        missed = sorted(c for c in (room_h | user_h) & known if not hit.get(c))
        res.notes.append(f'handlers read from the managers: {len(room_h)} room + {len(user_h)} user; '
                         f'hit by generated cases: {len((room_h | user_h) & set(hit))}/{len(room_h | user_h)}'
                         + (f'; NOT hit: {missed}' if missed else ''))
        for cls, k in sorted(hit.items()):
            res.count('handler:' + cls, k)
        if missed:
            res.disagreements.append(Disagreement(None, missed, None, 'generated cases do not reach every handler'))

        if not model_ok:
            res.model_available = False
        BATCH = 10000                   # bounded memory: run, compare and drop one batch at a time
        for b0 in range(0, len(cases), BATCH):
            batch = cases[b0:b0 + BATCH]
            impl = common.parallel_map(_eval_case, batch, chunksize=32)
            model = None
            if model_ok:
                lines, spans = [], []
                for c in batch:
                    ls = _model_lines(c) if c.get('model', True) else []
                    spans.append((len(lines), len(ls)))
                    lines += ls
                out = common.run_driver(self.driver_file, lines)
                model = [out[a:a + k] for a, k in spans]
            for i, c in enumerate(batch):
                res.evaluations += 1
                res.count('focus:' + c['focus'])
                res.count('ops', len(c['ops']) - 1)
                obs = impl[i]
                if obs and str(obs[-1]['err']).startswith('HARNESS'):
                    res.violations.append(Violation('C19-impl-error', 'the managers could not be driven on this case', c,
                                                    observed=obs[-1]['err']))
                    continue
                if any(o['err'] != 'ok' for o in obs):
                    res.count('cases with a handler exception')
                if _nontrivial(c):
                    res.nontrivial_keys.add(common.sha([c['blocked_room'], c['blocked_priv'], c['ops']]))
                if model is not None and c.get('model', True):
                    res.traces_validated += 1
                    il = _impl_lines(c, obs)
                    if model[i] != il and len(res.disagreements) < 2000:
                        k = next((j for j, (a, b) in enumerate(zip(model[i], il)) if a != b), min(len(model[i]), len(il)))
                        res.disagreements.append(Disagreement(
                            c, il[k] if k < len(il) else None, model[i][k] if k < len(model[i]) else None,
                            f'line #{k} {c["ops"][k - 1] if 0 < k <= len(c["ops"]) else ""}'))
                if len(res.violations) < 2000:
                    res.violations += (_monitor_evict if c['focus'] == 'evict' else _monitor)(c, obs)
                if len(res.samples) < 3 and 3 <= len(c['ops']) <= 6 and c['focus'] not in ('witness', 'local', 'evict'):
                    res.samples.append({'case': c, 'impl': _impl_lines(c, obs)[1:]})
        return res

    def replay(self, case):
        return (_monitor_evict if case.get('focus') == 'evict' else _monitor)(case, _eval_case(case))

    def known_witnesses(self):
        return [('C19-replica-operatorGranted-operators', W_OPERATOR), ('C19-replica-joinRoom-users', W_JOIN)]


PROPERTY = C19()
