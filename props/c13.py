"""C13 — distributed tree: one parent, bounded live children, truthful advertised place.

Correspondence K_C13 + monitor (see DESIGN.md, C13).

The REAL `DistributedNetwork` runs on a REAL `Network` (real `ServerConnection`, `ListeningConnection`,
`PeerConnection`, reader loops, `EventBus`); only the sockets are in-memory (`vlib/fakenet.py`) and the clock is
virtual (`vlib/simloop.py`). The remote ends (server, 3..4 peers) are scripted by the op list and record every
frame they receive. After every op the loop is run to quiescence, then

* the canonical state line (parent, children, registered distributed peers with the level/root they announced
  and the level/root WE last wrote to them, potential-parent cache, admission limits, last values told to the
  server, frame counters) is compared with the Lean model's line (exact agreement), and
* the monitor evaluates the property statement on the implementation alone.

Ops (JSON lists), names are small integers (0 = the logged-in user, 1..4 remote peers, 5.. other root names):
  ["session"]            connect the server connection (if closed), SessionInitializedEvent, start server reader
  ["session", "blocked"] the same, but the new server socket does not drain from the start (monitor only: the Network's
                         own session listener is suspended in its send first, the manager's comes after it)
  ["lost"]               the server closes its socket -> server connection CLOSED -> SessionDestroyedEvent
                         (what client.py:367-373 does is done by a listener registered after the manager's)
  ["pp", [n, ...]]       server sends PotentialParents; every entry is reachable, so one outgoing distributed
                         connection per entry is established (PeerInitializedEvent requested=True), in list order
  ["ppe", n, [["level", v] | ["root", r], ...], delay]
                         EAGER CANDIDATE: as ["pp", [n]], but the remote end announces the listed branch values by itself,
                         `delay` loop iterations after it has read the library's PeerInit (-1: at accept, before it) —
                         i.e. while the library's connection request may still be wrapping up (direct attempt done,
                         indirect attempt being cancelled). For the model this is `pp n` followed by the announcements in
                         order (the request task is runtime glue the model does not have)
  ["in", n]              peer n connects to the listening port and sends PeerInit(n, 'D') (requested=False)
  ["ine", n, [["level", v] | ["root", r], ...]]
                         the same, and the peer writes the listed announcements right behind its PeerInit (they are in the
                         socket before the library has looked at the connection); for the model: `in n`, then the
                         announcements in order
  ["level", c, v]        the remote end of connection c sends DistributedBranchLevel(v)
  ["root", c, n]         ... DistributedBranchRoot(name n)
  ["close", c]           the remote end of connection c closes its socket
  ["minspeed", v] ["ratio", v] ["stats", n, speed] ["reset"]    server messages
  ["burst", [op, op...]] the listed ops are issued back to back WITHOUT running the loop in between
                         (monitor only: the model is atomic per op)
  ["gate", target, trigger, [op, ...]]
                         SUSPENDED SEND (monitor only). `drain()` of the library-side socket of `target` blocks
                         (and returns normally after release, also when the socket was closed cleanly meanwhile,
                         as asyncio's flow control does): target = "new" (the connection created by trigger, an "in" op),
                         a connection id, or "server". Then `trigger` is issued and the loop run to quiescence
                         (the handler now hangs in its `await send_message(...)` to the target), each listed op
                         is issued and the loop run to quiescence with the send still suspended, finally the
                         gate is released and the loop run to quiescence. One snapshot at the end.
  ["sblock"] / ["srelease"]
                         the library-side socket of the SERVER connection stops draining / drains again: every send
                         to the server (BranchLevel/BranchRoot/ToggleParentSearch, AcceptChildren, GetUserStats) is
                         written and then suspends its handler until the release (modelled: `Model/DistSusp.lean`)
  ["cblock", c] / ["crelease", c]
                         the same for the library-side socket of distributed connection c (a child: writes to
                         children are fire-and-forget tasks, nobody waits — a no-op in the model)
  ["arm", c]             the library-side socket of connection c is dead without the library knowing: its next write
                         raises ConnectionResetError (the write task disconnects the connection)
Unlike `gate`, these are ordinary ops: the loop is run to quiescence and a snapshot is taken after each of them, with
the gates still in force. A case with `"strict": true` is compared with the model step by step; there an op whose
source (the server connection / distributed connection c) is still inside a suspended handler is not issued
(status `busy`: the connection's reader task is not waiting for data) — the model answers `busy` in the same
situations. Without `strict` everything is issued (queued behind the suspended handler by the library) and only
the monitor judges. `lost` also lets the old server socket go (after the close has been handled).
Connection ids are creation order (0, 1, ...), identical on both sides.
"""
from __future__ import annotations

import asyncio
import random
from typing import Any, Optional

from vlib import common
from vlib.common import KResult, Violation, Disagreement, Property

ME = 0
SERVER_ADDR = ('10.9.9.9', 2416)
LISTEN_PORT = 60000


def uname(n: int) -> str:
    return 'me' if n == ME else f'u{n}'


def unum(s: Optional[str]):
    if s is None:
        return None
    if s == 'me':
        return ME
    if s.startswith('u') and s[1:].isdigit():
        return int(s[1:])
    return f'?{s}'


def peer_addr(n: int):
    return (f'10.0.1.{n}', 2234)


# ------------------------------------------------------------------------------------------------
# Implementation side
# ------------------------------------------------------------------------------------------------

class _Remote:
    """Remote end of one distributed connection."""

    def __init__(self, cid, name, requested):
        self.cid = cid
        self.name = name
        self.requested = requested
        self.reader = None
        self.writer = None
        self.lib_conn = None          # the library's PeerConnection object (found after initialisation)
        self.frames: list = []        # decoded DistributedMessage requests received from the library
        self.task = None
        self.eager = None             # (frames, delay): written by the remote end on its own, see op `ppe`

    async def announce_eagerly(self):
        frames, delay = self.eager
        self.eager = None
        for _ in range(max(0, delay)):
            await asyncio.sleep(0)
        if not self.writer._closed:
            for f in frames:
                if self.writer._closed:
                    break
                self.writer.write(f)

    async def pump(self):
        from vlib.simserver import read_frame
        from aioslsk.protocol import messages as m
        first = self.requested        # outgoing connections start with the library's PeerInit
        while True:
            frame = await read_frame(self.reader)
            if frame is None:
                return
            if first:
                first = False
                try:
                    m.PeerInitializationMessage.deserialize_request(frame)
                    if self.eager is not None:
                        # (as its own task: what the library writes meanwhile is still read and recorded)
                        self.eager_task = asyncio.ensure_future(self.announce_eagerly())
                    continue
                except Exception:
                    pass
            try:
                self.frames.append(m.DistributedMessage.deserialize_request(frame))
            except Exception:
                self.frames.append(('undecodable', frame))


class _World:
    def __init__(self):
        self.remotes: list[_Remote] = []
        self.keep: list = []          # strong refs (EventBus holds listeners weakly)
        self.session_count = 0


def _fmt_opt(v):
    return '-' if v is None else str(v)


def _ghost_stats(g: dict, speed: int):
    """The child admission limits as the property reads them (DESIGN.md C13): a function of the statistics of the
    own user handled last and of the ParentMinSpeed / ParentSpeedRatio in force at that moment (defaults when the
    server has not sent them on this connection): acceptance is on iff speed >= min_speed * 1024; the maximum is
    floor(speed * 10 / (ratio * 1024)) (0 when acceptance is off). A ratio of 0 leaves the maximum undefined
    (nothing is judged until the next statistics)."""
    ms = g['dms'] if g['ms'] is None else g['ms']
    ratio = g['dratio'] if g['ratio'] is None else g['ratio']
    if speed < ms * 1024:
        g['accept'], g['max'], g['defined'] = False, 0, True
    elif ratio == 0:
        g['accept'], g['defined'] = True, False
    else:
        g['accept'], g['max'], g['defined'] = True, speed * 10 // (ratio * 1024), True


async def _scenario(loop, case: dict):
    from vlib.simloop import settle
    from vlib.fakenet import FakeNet, Endpoint
    from vlib.simserver import SimServer
    from aioslsk.settings import Settings
    from aioslsk.events import (EventBus, SessionInitializedEvent, SessionDestroyedEvent,
                                ConnectionStateChangedEvent)
    from aioslsk.network.network import Network
    from aioslsk.network.connection import ConnectionState, ServerConnection, PeerConnectionType
    from aioslsk.distributed import DistributedNetwork
    from aioslsk.session import Session
    from aioslsk.user.model import User
    from aioslsk.protocol import messages as m
    from aioslsk.protocol.primitives import PotentialParent, UserStats

    w = _World()
    fn = FakeNet().install()
    try:
        server = SimServer()
        fn.endpoints[SERVER_ADDR] = Endpoint('accept', server.handler)
        settings = Settings(
            credentials={'username': uname(ME), 'password': 'pw'},
            network={'server': {'hostname': SERVER_ADDR[0], 'port': SERVER_ADDR[1]},
                     'listening': {'port': LISTEN_PORT, 'obfuscated_port': 0},
                     'upnp': {'enabled': False}})
        bus = EventBus()
        net = Network(settings, bus)
        # ---- probe: what the DistributedNetwork is handed, in the order in which it is handed it.
        # Plain functions registered (default priority) after the Network's own listeners and before the manager is
        # constructed: `EventBus.emit` calls listeners of equal priority in registration order, so they run right
        # before the manager's listener for the same event — also when an earlier listener (the Network advertising
        # its ports at session start) was suspended in a send — and they add no suspension point. They keep the monitor's
        # own record of (a) the names the server proposed as potential parents and (b) the child admission limits
        # that follow from the own-user statistics handled so far (`_ghost_stats`), and note for every incoming
        # distributed connection the limits in force and the children present when the manager is told of it.
        from aioslsk import constants as _k
        from aioslsk.events import PeerInitializedEvent, MessageReceivedEvent
        ghost = {'session': False, 'ms': None, 'ratio': None, 'accept': True, 'max': 0, 'defined': False, 'proposed': [],
                 'dms': int(_k.DEFAULT_PARENT_MIN_SPEED), 'dratio': int(_k.DEFAULT_PARENT_SPEED_RATIO)}
        probe_log: list = []

        def _cid_of_conn(conn):
            for r in w.remotes:
                if r.lib_conn is conn or (conn._writer is not None and conn._writer is r.writer.peer):
                    return r.cid
            return f'?{conn.username}'

        def _limits():
            return {'accept': ghost['accept'], 'max': ghost['max'], 'defined': ghost['defined']}

        # (c) the branch position every distributed connection has ANNOUNCED so far, by the protocol's own rule
        # (docs/source/SOULSEEK.rst / DESIGN.rst: a DistributedBranchLevel sets the level, level 0 means "I am the root
        # of my branch" — the root is then the peer's own name and need not be sent; a DistributedBranchRoot sets the
        # root), applied to the messages in the order in which they are handed over. This — not the library's own
        # bookkeeping (`DistributedPeer.branch_level / branch_root`) — is the monitor's truth for "the parent's level
        # and root".
        announced: dict = {}          # connection id -> [level, root]

        def probe_message(event: MessageReceivedEvent):
            msg = event.message
            if not isinstance(event.connection, ServerConnection):
                if isinstance(msg, (m.DistributedBranchLevel.Request, m.DistributedBranchRoot.Request)):
                    a = announced.setdefault(_cid_of_conn(event.connection), [None, None])
                    if isinstance(msg, m.DistributedBranchLevel.Request):
                        a[0] = msg.level
                        if msg.level == 0:
                            a[1] = unum(event.connection.username)
                    else:
                        a[1] = unum(msg.username)
                return
            if isinstance(msg, m.ParentMinSpeed.Response):
                ghost['ms'] = msg.speed
            elif isinstance(msg, m.ParentSpeedRatio.Response):
                ghost['ratio'] = msg.ratio
            elif isinstance(msg, m.PotentialParents.Response):
                ghost['proposed'] += [unum(e.username) for e in msg.entries]
                probe_log.append({'kind': 'pp', 'names': [unum(e.username) for e in msg.entries]})
            elif isinstance(msg, m.GetUserStats.Response):
                if ghost['session'] and msg.username == uname(ME):
                    _ghost_stats(ghost, msg.user_stats.avg_speed)
                    probe_log.append({'kind': 'stats', 'speed': msg.user_stats.avg_speed, 'limits': _limits(),
                                      'ms': ghost['ms'], 'ratio': ghost['ratio'],
                                      'attr_before': [bool(dn._accept_children), dn._max_children]})

        def probe_init(event: PeerInitializedEvent):
            if event.connection.connection_type != PeerConnectionType.DISTRIBUTED:
                return
            probe_log.append({'kind': 'init', 'user': unum(event.connection.username),
                              'requested': bool(event.requested), 'c': _cid_of_conn(event.connection),
                              'limits': _limits(),
                              'children': [_cid_of_conn(p.connection) for p in dn.children],
                              'proposed': list(ghost['proposed'][-_cache_size():]),
                              'parent_name': None if dn.parent is None else unum(dn.parent.username),
                              'attr': [bool(dn._accept_children), dn._max_children]})

        def probe_state(event: ConnectionStateChangedEvent):
            if isinstance(event.connection, ServerConnection):
                ghost['ms'] = None
                ghost['ratio'] = None

        def probe_sess_on(event: SessionInitializedEvent):
            ghost['session'] = True

        def probe_sess_off(event: SessionDestroyedEvent):
            ghost['session'] = False
        w.keep += [probe_message, probe_init, probe_state, probe_sess_on, probe_sess_off]
        bus.register(MessageReceivedEvent, probe_message)
        bus.register(PeerInitializedEvent, probe_init)
        bus.register(ConnectionStateChangedEvent, probe_state)
        bus.register(SessionInitializedEvent, probe_sess_on)
        bus.register(SessionDestroyedEvent, probe_sess_off)
        dn = DistributedNetwork(settings, bus, net)
        ghost.update(accept=bool(dn._accept_children), max=int(dn._max_children), defined=True)   # initial limits
        state = {'session': None}

        # what SoulSeekClient._on_connection_state_changed does (client.py:367-373)
        async def client_like(event: ConnectionStateChangedEvent):
            if isinstance(event.connection, ServerConnection) and event.state == ConnectionState.CLOSED:
                if state['session'] is not None:
                    ev = SessionDestroyedEvent(state['session'])
                    state['session'] = None
                    await bus.emit(ev)
        w.keep.append(client_like)
        bus.register(ConnectionStateChangedEvent, client_like)


        # outgoing distributed connections: one endpoint per peer name
        eager: dict = {}        # peer name -> [(frames, delay)] for the next outgoing connections to it (op `ppe`)

        def make_out_handler(n):
            async def handler(reader, writer):
                r = _Remote(len(w.remotes), n, True)
                r.reader, r.writer = reader, writer
                w.remotes.append(r)
                if eager.get(n):
                    r.eager = eager[n].pop(0)
                    if r.eager[1] < 0:               # at once, before the library's PeerInit has been read
                        await r.announce_eagerly()
                r.task = asyncio.ensure_future(r.pump())
            return handler
        for n in range(1, 9):
            fn.endpoints[peer_addr(n)] = Endpoint('accept', make_out_handler(n))

        await net.connect_listening_ports()
        await settle()

        def bind_lib_conns():
            # associate library PeerConnection objects with remotes through the fake socket pair
            for r in w.remotes:
                if r.lib_conn is None:
                    extra = [p.connection for p in dn.children] + ([dn.parent.connection] if dn.parent else [])
                    for pc in list(net.peer_connections) + [p.connection for p in dn.distributed_peers] + extra:
                        if pc._writer is not None and pc._writer is r.writer.peer:
                            r.lib_conn = pc
                            break

        def remote_open(r: _Remote) -> bool:
            return not r.writer._closed and not r.writer.peer._closed

        trace = []          # per op: dict for the monitor
        lines = []          # per op: canonical line for the correspondence

        def server_frames(cls):
            return server.requests_of(cls)

        # frames of the *current* server connection start here
        sess_mark = {'idx': 0}

        # ---- persistent gates (ops sblock / cblock): key 'server' or a connection id -> (library-side writer, event)
        pgates: dict = {}
        strict = bool(case.get('strict'))

        def gate_on(key, wr):
            """drain() of this library-side socket blocks until released (then returns normally, also when the socket
            was closed meanwhile: a transport whose buffer cannot be flushed reports the loss only later)."""
            if key in pgates:
                return
            ev = asyncio.Event()

            async def gated_drain():
                await ev.wait()
            wr.drain = gated_drain
            pgates[key] = (wr, ev)

        def gate_off(key) -> bool:
            if key not in pgates:
                return False
            wr, ev = pgates.pop(key)
            ev.set()
            try:
                del wr.drain
            except AttributeError:
                pass
            return True

        def reader_idle(lib_writer) -> bool:
            """the library's reader task of this socket is waiting for data (not inside a handler)"""
            return lib_writer.own_reader._waiter is not None

        def snapshot(status: str):
            bind_lib_conns()
            cid_of = {}
            for r in w.remotes:
                if r.lib_conn is not None:
                    cid_of[id(r.lib_conn)] = r.cid

            def cid(peer):
                return cid_of.get(id(peer.connection), f'?{peer.username}')
            peers = []
            for p in dn.distributed_peers:
                c = cid(p)
                r = w.remotes[c] if isinstance(c, int) else None
                fl = [f.level for f in (r.frames if r else []) if isinstance(f, m.DistributedBranchLevel.Request)]
                fr = [f.username for f in (r.frames if r else []) if isinstance(f, m.DistributedBranchRoot.Request)]
                peers.append({'c': c, 'name': unum(p.username), 'level': p.branch_level,
                              'root': unum(p.branch_root),
                              'ann': list(announced.get(c, [None, None])),
                              'toldL': fl[-1] if fl else None, 'toldR': unum(fr[-1]) if fr else None,
                              'nL': len(fl), 'nR': len(fr),
                              'state': p.connection.state.name,
                              'registered': p.connection in net.peer_connections,
                              'ctype': p.connection.connection_type,
                              'remote_open': bool(r and remote_open(r)),
                              # the connection's reader task is inside a handler (it cannot have seen an EOF)
                              'reader_busy': bool(r and r.writer.peer.own_reader._waiter is None),
                              'other': sum(1 for f in (r.frames if r else []) if not isinstance(
                                  f, (m.DistributedBranchLevel.Request, m.DistributedBranchRoot.Request)))})
            cur = server.received[sess_mark['idx']:] if state['session'] is not None else []
            bl = [x.level for x in cur if isinstance(x, m.BranchLevel.Request)]
            br = [x.username for x in cur if isinstance(x, m.BranchRoot.Request)]
            tp = [x.enable for x in cur if isinstance(x, m.ToggleParentSearch.Request)]
            ac = [x.accept for x in cur if isinstance(x, m.AcceptChildren.Request)]
            snap = {
                'status': status,
                'session': state['session'] is not None,
                'dn_session': dn._session is not None,
                'parent': None if dn.parent is None else cid(dn.parent),
                'parent_name': None if dn.parent is None else unum(dn.parent.username),
                'parent_level': None if dn.parent is None else dn.parent.branch_level,
                'parent_root': None if dn.parent is None else unum(dn.parent.branch_root),
                # what the parent's connection has announced, by the protocol rule (independent of the library's books)
                'parent_ann': None if dn.parent is None else list(announced.get(cid(dn.parent), [None, None])),
                'parent_state': None if dn.parent is None else dn.parent.connection.state.name,
                'parent_in_peers': None if dn.parent is None else any(p is dn.parent for p in dn.distributed_peers),
                'children': [cid(p) for p in dn.children],
                'children_names': [unum(p.username) for p in dn.children],
                'children_in_peers': [any(q is p for q in dn.distributed_peers) for p in dn.children],
                'children_state': [p.connection.state.name for p in dn.children],
                'peers': peers,
                'potential': [unum(x) for x in dn.potential_parents],
                'accept': bool(dn._accept_children), 'max': dn._max_children,
                'minspeed': dn.parent_min_speed, 'ratio': dn.parent_speed_ratio,
                'srv_level': bl[-1] if bl else None, 'srv_root': unum(br[-1]) if br else None,
                'srv_search': (bool(tp[-1]) if tp else None),
                'srv_accept': (bool(ac[-1]) if ac else None),
                'n_bl': len(server_frames(m.BranchLevel.Request)),
                'n_br': len(server_frames(m.BranchRoot.Request)),
                'n_tp': len(server_frames(m.ToggleParentSearch.Request)),
                'n_ac': len(server_frames(m.AcceptChildren.Request)),
                'n_gus': len(server_frames(m.GetUserStats.Request)),
                'exceptions': len(loop.exceptions),
                'gates': sorted(map(str, pgates)),
                'probe': probe_log[:],
            }
            del probe_log[:]
            return snap

        def server_up() -> bool:
            return (net.server_connection.state == ConnectionState.CONNECTED and bool(server.sessions)
                    and not server.sessions[-1][1]._closed)

        async def issue(op) -> str:
            """Start one op (does not wait for quiescence). Returns a status word."""
            k = op[0]
            if k == 'session':
                if state['session'] is not None:
                    return 'already'
                if net.server_connection.state != ConnectionState.CONNECTED:
                    sess_mark['idx'] = len(server.received)
                    n0 = len(server.sessions)
                    await net.connect_server()
                    for _ in range(20):                       # (the simulated server has accepted the connection)
                        if len(server.sessions) > n0:
                            break
                        await asyncio.sleep(0)
                if op[1:] == ['blocked'] and server_up():
                    gate_on('server', server.sessions[-1][1].peer)     # congested from the first write on
                sess = Session(user=User(name=uname(ME)), ip_address='1.2.3.4', greeting='',
                               client_version=157, minor_version=100)
                state['session'] = sess
                # (as its own task: a listener that gets suspended must not suspend the schedule)
                w.keep.append(asyncio.ensure_future(bus.emit(SessionInitializedEvent(session=sess, raw_message=None))))
                await asyncio.sleep(0)
                net.server_connection.start_reader_task()
                return 'ok'
            if k == 'lost':
                if state['session'] is None or not server_up():
                    return 'no-server'
                if strict and not reader_idle(server.sessions[-1][1].peer):
                    return 'busy'
                server.close()
                return 'ok'
            if k == 'sblock':
                if state['session'] is None or not server_up():
                    return 'no-server'
                gate_on('server', server.sessions[-1][1].peer)
                return 'ok'
            if k == 'srelease':
                return 'ok' if gate_off('server') else 'no-gate'
            if k in ('cblock', 'crelease', 'arm'):
                c = op[1]
                if not isinstance(c, int) or c < 0 or c >= len(w.remotes) or not remote_open(w.remotes[c]):
                    return 'no-conn'
                wr = w.remotes[c].writer.peer
                if k == 'cblock':
                    gate_on(c, wr)
                elif k == 'crelease':
                    gate_off(c)
                else:
                    wr.fail_after = len(wr.sent)
                return 'ok'
            if k in ('pp', 'ppe', 'minspeed', 'ratio', 'stats', 'reset'):
                if state['session'] is None or not server_up():
                    return 'no-server'
                if strict and not reader_idle(server.sessions[-1][1].peer):
                    return 'busy'
                if k == 'ppe':
                    _, n, anns, delay = op
                    frames = [(m.DistributedBranchLevel.Request(a[1]) if a[0] == 'level'
                               else m.DistributedBranchRoot.Request(uname(a[1]))).serialize() for a in anns]
                    eager.setdefault(n, []).append((frames, delay))
                    msg = m.PotentialParents.Response([PotentialParent(uname(n), peer_addr(n)[0], peer_addr(n)[1])])
                elif k == 'pp':
                    msg = m.PotentialParents.Response(
                        [PotentialParent(uname(n), peer_addr(n)[0], peer_addr(n)[1]) for n in op[1]])
                elif k == 'minspeed':
                    msg = m.ParentMinSpeed.Response(op[1])
                elif k == 'ratio':
                    msg = m.ParentSpeedRatio.Response(op[1])
                elif k == 'stats':
                    msg = m.GetUserStats.Response(uname(op[1]), UserStats(op[2], 1, 1, 1))
                else:
                    msg = m.ResetDistributed.Response()
                server.send(msg)
                return 'ok'
            if k in ('in', 'ine'):
                n = op[1]
                rd, wr = await fn.connect_in(LISTEN_PORT, remote_addr=(peer_addr(n)[0], 40000 + len(w.remotes)))
                if state.get('gate_next_in') is not None:
                    state['gate_next_in'](wr.peer)       # wr.peer = the library-side writer of this pair
                    state['gate_next_in'] = None
                r = _Remote(len(w.remotes), n, False)
                r.reader, r.writer = rd, wr
                w.remotes.append(r)
                r.task = asyncio.ensure_future(r.pump())
                wr.write(m.PeerInit.Request(uname(n), PeerConnectionType.DISTRIBUTED, 0).serialize())
                if k == 'ine':                      # the peer announces branch values right behind its PeerInit
                    for a in op[2]:
                        wr.write((m.DistributedBranchLevel.Request(a[1]) if a[0] == 'level'
                                  else m.DistributedBranchRoot.Request(uname(a[1]))).serialize())
                return 'ok'
            if k in ('level', 'root', 'close'):
                c = op[1]
                if not isinstance(c, int) or c < 0 or c >= len(w.remotes) or not remote_open(w.remotes[c]):
                    return 'no-conn'
                r = w.remotes[c]
                if strict and not reader_idle(r.writer.peer):
                    return 'busy'
                if k == 'level':
                    r.writer.write(m.DistributedBranchLevel.Request(op[2]).serialize())
                elif k == 'root':
                    r.writer.write(m.DistributedBranchRoot.Request(uname(op[2])).serialize())
                else:
                    r.writer.close()
                return 'ok'
            raise ValueError(f'unknown op {op!r}')

        for op in case['ops']:
            before = snapshot('before')
            if op[0] == 'burst':
                sts = []
                for sub in op[1]:
                    sts.append(await issue(sub))
                status = 'burst:' + ','.join(sts)
            elif op[0] == 'gate':
                _, target, trigger, during = op
                gates = []

                def gate_writer(wr):
                    # drain() of this library-side socket blocks until released. asyncio semantics
                    # (FlowControlMixin.connection_lost): a drain waiter blocked by flow control is woken with
                    # result None when the connection is closed cleanly meanwhile (no exception) — unlike
                    # FakeWriter.drain_gate, which raises after the gate when the socket was closed; so the
                    # instance's drain is overridden for the duration of the gate.
                    ev = asyncio.Event()

                    async def gated_drain():
                        await ev.wait()
                    wr.drain = gated_drain
                    gates.append((wr, ev))
                try:
                    if target == 'server':
                        if server_up():
                            gate_writer(server.sessions[-1][1].peer)
                    elif target == 'new':
                        state['gate_next_in'] = gate_writer
                    elif isinstance(target, int) and 0 <= target < len(w.remotes) and remote_open(w.remotes[target]):
                        gate_writer(w.remotes[target].writer.peer)
                    sts = [await issue(trigger)]
                    state['gate_next_in'] = None
                    await settle()
                    bind_lib_conns()
                    for sub in during:
                        sts.append(await issue(sub))
                        await settle()
                        bind_lib_conns()
                finally:
                    state['gate_next_in'] = None
                    for wr, ev in gates:
                        ev.set()
                        try:
                            del wr.drain
                        except AttributeError:
                            pass
                status = 'gate:' + ','.join(sts) + ('' if gates else ':ungated')
            else:
                status = await issue(op)
                if op[0] == 'lost' and status == 'ok':
                    await settle()
                    gate_off('server')           # the old server socket lets go of what was suspended in it
            await settle()
            snap = snapshot(status)
            snap['before'] = {k: before[k] for k in ('accept', 'max', 'children', 'potential', 'parent_name')}
            trace.append(snap)
        # tidy up: close everything so that no task leaks into the next case
        for key in list(pgates):
            gate_off(key)
        for r in w.remotes:
            if r.task:
                r.task.cancel()
        try:
            await net.disconnect()
        except Exception:
            pass
        return trace
    finally:
        fn.uninstall()


def _run_impl(case: dict) -> list:
    from vlib import simloop
    import logging
    logging.disable(logging.CRITICAL)
    trace, _loop = simloop.run(_scenario, case, wall_timeout=60.0)
    return trace


def _canon_line(s: dict) -> str:
    """Canonical observation line; MUST match `Driver/C13.lean` `render`."""
    peers = sorted(s['peers'], key=lambda p: (str(type(p['c'])), p['c']))
    ps = ' '.join(f"{p['c']}:{p['name']}:{_fmt_opt(p['level'])}:{_fmt_opt(p['root'])}:"
                  f"{_fmt_opt(p['toldL'])}:{_fmt_opt(p['toldR'])}:{p['nL']}:{p['nR']}" for p in peers)
    st = s['status'].split(':')[0] if s['status'].startswith(('burst', 'gate')) else s['status']
    b = lambda v: '-' if v is None else ('1' if v else '0')
    return (f"{st} S={b(s['dn_session'])} P={_fmt_opt(s['parent'])} C=[{','.join(map(str, s['children']))}] "
            f"D=[{ps}] pot=[{','.join(map(str, s['potential']))}] A={b(s['accept'])} M={s['max']} "
            f"ms={_fmt_opt(s['minspeed'])} r={_fmt_opt(s['ratio'])} "
            f"TS={_fmt_opt(s['srv_level'])},{_fmt_opt(s['srv_root'])},{b(s['srv_search'])} "
            f"nN={s['n_bl']},{s['n_br']},{s['n_tp']} AC={b(s['srv_accept'])} nAC={s['n_ac']} nGUS={s['n_gus']}")


# ------------------------------------------------------------------------------------------------
# Monitor: the property statement on the implementation trace (independent of the model)
# ------------------------------------------------------------------------------------------------

CACHE = 20      # re-read from the source by the translator; the monitor uses the source's value (see _cache_size)


def _cache_size() -> int:
    try:
        from aioslsk.constants import POTENTIAL_PARENTS_CACHE_SIZE
        return int(POTENTIAL_PARENTS_CACHE_SIZE)
    except Exception:
        return CACHE


def _flat_ops(op):
    if op[0] == 'burst':
        return list(op[1])
    if op[0] == 'gate':
        return [op[2]] + list(op[3])
    return [op]


def _monitor(case: dict, trace: list) -> list[Violation]:
    vs: list[Violation] = []
    pending: list = []             # incoming connections the manager was told of, not yet admitted or gone

    def add(sig, what, k, observed=None, required=None):
        vs.append(Violation(sig, f'after op #{k} {case["ops"][k]}: {what}', case, observed=observed, required=required))

    for k, (op, s) in enumerate(zip(case['ops'], trace)):
        b = s['before']
        subs = _flat_ops(op)
        # --- one parent, not a child
        if s['parent'] is not None and s['parent_name'] in s['children_names']:
            add('C13-parent-is-child', f'parent {s["parent_name"]} (connection {s["parent"]}) is among the children '
                f'{s["children_names"]}', k, observed={'parent': s['parent'], 'children': s['children']})
        # --- live
        by_c = {p['c']: p for p in s['peers']}
        if s['parent'] is not None:
            p = by_c.get(s['parent'])
            if (not s['parent_in_peers'] or p is None or s['parent_state'] != 'CONNECTED' or not p['registered']
                    or p['ctype'] != 'D' or not (p['remote_open'] or p.get('reader_busy'))):
                add('C13-dead-parent', f'parent connection {s["parent"]} is not a live registered distributed '
                    f'connection (state {s["parent_state"]})', k, observed=p)
        for c, inp, stt in zip(s['children'], s['children_in_peers'], s['children_state']):
            p = by_c.get(c)
            if (not inp or p is None or stt != 'CONNECTED' or not p['registered'] or p['ctype'] != 'D'
                    or not (p['remote_open'] or p.get('reader_busy'))):
                add('C13-dead-child', f'child connection {c} is not a live registered distributed connection '
                    f'(state {stt}, in distributed_peers: {inp}, in the network registry: '
                    f'{None if p is None else p["registered"]}, socket open: '
                    f'{None if p is None else p["remote_open"]})', k, observed=p)
        if len(set(map(str, s['children']))) != len(s['children']):
            add('C13-dead-child', 'a connection is listed twice as child', k, observed=s['children'])
        # --- admission
        new = [(c, n) for c, n in zip(s['children'], s['children_names']) if c not in b['children']]
        kinds = {x[0] for x in subs}
        if 'ine' in kinds:
            kinds = kinds | {'in'}
        if new:
            if 'in' not in kinds:
                add('C13-child-admission', f'child {new} appeared without an incoming connection', k)
            elif len(subs) == 1:
                if not b['accept']:
                    add('C13-child-admission', f'child {new} accepted while child acceptance is off', k,
                        observed={'accept': b['accept'], 'max': b['max'], 'children_before': b['children']})
                if len(b['children']) + len(new) > b['max']:
                    add('C13-child-admission', f'child {new} accepted with {len(b["children"])} children and '
                        f'maximum {b["max"]}', k,
                        observed={'accept': b['accept'], 'max': b['max'], 'children_before': b['children']})
            elif not (kinds & {'stats', 'minspeed', 'ratio', 'session', 'lost'}):
                # composite op, limits constant throughout: every admission needs accept on and leaves
                # |children| <= max; after the last admission children only leave -> bound holds at the end
                if not b['accept']:
                    add('C13-child-admission', f'child {new} accepted while child acceptance is off', k,
                        observed={'accept': b['accept'], 'max': b['max'], 'children_before': b['children']})
                if len(s['children']) > b['max']:
                    add('C13-child-admission', f'child {new} accepted: {len(s["children"])} children with '
                        f'maximum {b["max"]}', k,
                        observed={'accept': b['accept'], 'max': b['max'], 'children_before': b['children'],
                                  'children_after': s['children']})
        # --- admission, judged at the moment the manager is told of the connection (probe): the limits that bind are
        # those that follow from the own-user statistics HANDED to the manager so far — a new limit binds from the
        # moment the GetUserStats response is handed over, not from when AcceptChildren has been flushed to the
        # server. A connection admitted later than that moment is judged against every limit in force between the
        # two (sound for deferred admissions); the number of children at the moment of admission is at least the
        # number of those present all the while.
        for e in s.get('probe', []):
            if e['kind'] == 'stats':
                for q in pending:
                    q['S'].append(e['limits'])
            elif e['kind'] == 'init' and not e['requested'] and isinstance(e['c'], int):
                pending.append(dict(e, S=[e['limits']], op=k))
        registered = {p['c'] for p in s['peers']}
        still = []
        for q in pending:
            if q['c'] in s['children']:
                lims = q['S']
                c_low = len([c for c in q['children'] if c in s['children'] and c != q['c']])
                obs = {'limits_in_force': lims, 'children_when_told': q['children'], 'children_now': s['children'],
                       'attributes_when_told': q['attr'], 'told_of_connection_in_op': q['op']}
                if all(L['defined'] for L in lims):
                    if not any(L['accept'] for L in lims):
                        add('C13-child-admission', f'peer {q["user"]} (connection {q["c"]}) accepted as child while '
                            f'child acceptance is off (statistics handled last: acceptance off)', k, observed=obs)
                    elif not any(L['accept'] and c_low < L['max'] for L in lims):
                        add('C13-child-admission', f'peer {q["user"]} (connection {q["c"]}) accepted as child with '
                            f'{c_low} children and maximum {max(L["max"] for L in lims)} (from the statistics '
                            f'handled last)', k, observed=obs)
                if q['user'] in q['proposed']:
                    add('C13-candidate-taken-as-child', f'peer {q["user"]} was proposed by the server as potential '
                        f'parent and is taken as child (connection {q["c"]})', k, observed={'proposed': q['proposed']})
            elif q['c'] in registered:
                still.append(q)
        pending = still
        # --- truthfulness (only while logged in: "own name" is the session's user)
        if s['session'] and s['dn_session']:
            # "the parent's level and root" are what the parent's connection ANNOUNCED last, by the protocol rule
            # (level 0 => the peer is its own root; see `announced` in `_scenario`) — not what the library noted
            pl, pr = s.get('parent_ann') or (None, None)
            if s['parent'] is None:
                derived = (0, ME, True)
            elif s['parent_level'] is None or s['parent_root'] is None or pl is None or pr is None:
                add('C13-parent-incomplete', f'parent {s["parent_name"]} has level {s["parent_level"]} root '
                    f'{s["parent_root"]} (announced: level {pl} root {pr})', k)
                continue
            elif pr == ME:
                continue                      # degenerate announcement: nothing demanded
            else:
                derived = (pl + 1, pr, False)
            told = (s['srv_level'], s['srv_root'], s['srv_search'])
            if told != derived:
                add('C13-server-not-told', f'server was last told level/root/search {told}, position derived from '
                    f'the parent is {derived}', k, observed=told, required=derived)
            # the children are told after the server (`await _notify_server_of_parent()` comes first): while a
            # socket is held back (sblock / cblock in force) a handler may still be on its way to them
            for c in (s['children'] if not s.get('gates') else []):
                p = by_c.get(c)
                if p is None:
                    continue
                okl = p['toldL'] == derived[0]
                okr = p['toldR'] == derived[1] or (p['toldR'] is None and derived[0] == 0)
                if not (okl and okr):
                    add('C13-child-not-told', f'child {p["name"]} (connection {c}) was last told level/root '
                        f'({p["toldL"]}, {p["toldR"]}), position derived from the parent is {derived[:2]}', k,
                        observed=(p['toldL'], p['toldR']), required=derived[:2])
    return vs


# ------------------------------------------------------------------------------------------------
# Generator
# ------------------------------------------------------------------------------------------------

RATIOS = [0, 1, 5, 10, 20, 30, 50, 50, 100]
MINSPEEDS = [0, 1, 1, 2, 10]
SPEEDS = [0, 1023, 1024, 1025, 2047, 2048, 5119, 5120, 6144, 10240, 20480, 51200, 1048576]
# (speeds used by the limit families: whole numbers of child slots for the default ratio 50 and for ratios 10 / 100)
_SLOT_SPEEDS = [u * k for u in (1024, 5120, 10240) for k in range(0, 5)]
for _r in RATIOS:
    for _s in SPEEDS + _SLOT_SPEEDS:
        if _r:
            assert int(_s / ((_r / 10) * 1024)) == _s * 10 // (_r * 1024), (_r, _s)   # float == exact on this grid
LEVELS = [0, 0, 1, 1, 2, 3, 7]

# ---- the whole wire domain of the server parameters (uint32 each), not only the values the real server sends
U32 = 2 ** 32 - 1


def _doc_max(speed: int, ratio: int) -> int:
    """docs/source/SOULSEEK.rst, "Max children": divider = (ratio / 10) * 1024, max = floor(avg_speed / divider),
    over the rationals (ratio != 0)"""
    return speed * 10 // (ratio * 1024)


def _float_exact(speed: int, ratio: int) -> bool:
    """the documented expression evaluated in binary floating point gives the exact floor for this pair (it can come
    out one lower when avg_speed / divider is a whole number, e.g. ratio 11, speed 16896: 14 instead of 15 — never higher)"""
    return ratio == 0 or int(speed / ((ratio / 10) * 1024)) == _doc_max(speed, ratio)


def _wire_ratio(rng: random.Random) -> int:
    x = rng.random()
    if x < 0.40:
        return rng.randint(11, 99)                         # mostly not a multiple of 10
    if x < 0.52:
        return rng.randint(1, 10)
    if x < 0.64:
        return rng.choice([10, 20, 30, 40, 50, 60, 100, 150, 250, 1000])
    if x < 0.80:
        return rng.choice([rng.randint(100, 1000), rng.randint(1000, 100000), rng.randint(100000, 2 ** 24)])
    if x < 0.96:
        return rng.choice([U32, U32 - 1, 2 ** 31, 2 ** 31 - 1, 2 ** 16, 2 ** 16 + 1, 65535, 2 ** 24 + 1,
                           rng.randint(2 ** 24, U32)])
    return 0


def _wire_speed_for(rng: random.Random, ratio: int, k: int):
    """an upload speed on the wire for which the documented maximum is exactly k (None when there is none): the lowest,
    the highest or one in between"""
    if ratio == 0:
        return rng.choice([0, 1024, 5120, U32])
    lo = -(-k * ratio * 1024 // 10)
    hi = min(-(-(k + 1) * ratio * 1024 // 10) - 1, U32)
    if lo > hi:
        return None
    assert _doc_max(lo, ratio) == k == _doc_max(hi, ratio) and (lo == 0 or _doc_max(lo - 1, ratio) == k - 1)
    return rng.choice([lo, lo, hi, hi, rng.randint(lo, hi)])


def _wire_speed(rng: random.Random) -> int:
    return rng.choice([rng.randint(0, U32), rng.randint(0, 2 ** 20), rng.randint(0, 20000), U32, U32 - 1, 2 ** 31,
                       1024 * rng.randint(0, 64), max(0, 1024 * rng.randint(0, 64) - 1)])


def _wire_minspeed(rng: random.Random, speed=None) -> int:
    if speed is not None and rng.random() < 0.6:           # around the acceptance threshold of this speed
        return max(0, min(U32, speed // 1024 + rng.choice([0, 0, 1, 1, -1])))
    return rng.choice([0, 1, 2, rng.randint(0, 100), rng.randint(0, U32), U32, 2 ** 22, 2 ** 22 - 1, 2 ** 22 + 1])


def _float_inexact_case(case) -> bool:
    """some statistics of the case may meet a (speed, ratio) pair on which floating point and the exact floor differ
    (judged conservatively: every speed of the case against every ratio of the case and the default)"""
    speeds, ratios = set(), {None}
    for op in case['ops']:
        for o in _flat_ops(op):
            if o[0] == 'stats':
                speeds.add(o[2])
            elif o[0] == 'ratio':
                ratios.add(o[1])
    if not speeds:
        return False
    from aioslsk import constants as _k
    rs = {int(_k.DEFAULT_PARENT_SPEED_RATIO) if r is None else r for r in ratios}
    return any(not _float_exact(sp, r) for sp in speeds for r in rs)


def _gen_case(rng: random.Random, kind: Optional[str] = None) -> dict:
    npeers = rng.choice([3, 4])
    peers = list(range(1, npeers + 1))
    roots = peers + [5, 6, 6, 5, ME] if rng.random() < 0.25 else peers + [5, 6, 6, 5]
    kind = kind or rng.choice(['random', 'random', 'parent', 'parent', 'child', 'child', 'session', 'limits',
                               'overflow', 'burst', 'gate', 'gate', 'gate', 'sgate', 'sgate', 'sgate', 'cfault',
                               'cfault', 'cfault', 'reparent', 'wire', 'wire', 'wire', 'eager', 'eager',
                               'rootrule', 'rootrule'])
    ops: list = []
    nconn = 0
    up = False

    def do(op):
        nonlocal nconn, up
        ops.append(op)
        for o in _flat_ops(op):
            if o[0] == 'session':
                up = True
            elif o[0] == 'lost':
                up = False
            elif o[0] in ('in', 'ine'):
                nconn += 1
            elif o[0] == 'pp' and up:
                nconn += len(o[1])
            elif o[0] == 'ppe' and up:
                nconn += 1

    def conn():
        if nconn == 0 or rng.random() < 0.04:
            return rng.randint(0, nconn + 1)
        # recent connections are more likely to be open
        return max(0, nconn - 1 - int(abs(rng.gauss(0, 1.5))))

    def announce(c, order=None):
        lv = rng.choice(LEVELS)
        rt = rng.choice(roots)
        order = order or rng.choice(['lr', 'rl', 'l', 'r', 'lr', 'rl'])
        return [['level', c, lv] if ch == 'l' else ['root', c, rt] for ch in order]

    def rand_op():
        x = rng.random()
        if x < 0.13:
            return ['in', rng.choice(peers)]
        if x < 0.25:
            return ['pp', [rng.choice(peers) for _ in range(rng.choice([1, 1, 2, 2, 3]))]]
        if x < 0.45:
            return ['level', conn(), rng.choice(LEVELS)]
        if x < 0.62:
            return ['root', conn(), rng.choice(roots)]
        if x < 0.74:
            return ['close', conn()]
        if x < 0.80:
            return ['stats', ME if rng.random() < 0.9 else rng.choice(peers),
                    rng.choice(SPEEDS) if rng.random() < 0.7 else _wire_speed(rng)]
        if x < 0.84:
            return ['ratio', rng.choice(RATIOS) if rng.random() < 0.6 else _wire_ratio(rng)]
        if x < 0.87:
            return ['minspeed', rng.choice(MINSPEEDS) if rng.random() < 0.7 else _wire_minspeed(rng)]
        if x < 0.91:
            return ['reset']
        if x < 0.96:
            return ['lost'] if up else ['session']
        return ['session'] if not up else ['in', rng.choice(peers)]

    if rng.random() < 0.93:
        do(['session'])
    if kind == 'parent':
        a = rng.sample(peers, rng.choice([1, 2, 2]))
        if rng.random() < 0.4:
            do(['in', rng.choice(peers)])
        base = nconn
        do(['pp', a])
        seqs = [announce(base + i) for i in range(len(a))]
        flat = []
        while any(seqs):                       # interleave the candidates' announcements
            q = rng.choice([x for x in seqs if x])
            flat.append(q.pop(0))
        for o in flat:
            do(o)
        if rng.random() < 0.7:                 # the parent announces again
            for o in announce(base + rng.randrange(len(a)), rng.choice(['l', 'r', 'lr', 'l'])):
                do(o)
        if rng.random() < 0.45:                # a candidate / the parent goes away, a new round starts
            do(['close', base + rng.randrange(len(a))])
            if rng.random() < 0.5:
                before = nconn
                do(['pp', [rng.choice(peers)]])
                if nconn > before:             # only when the proposal really created a connection (session up)
                    for o in announce(nconn - 1):
                        do(o)
    elif kind == 'child':
        do(['in', rng.choice(peers)])
        if rng.random() < 0.5:
            do(['in', rng.choice(peers)])
        if rng.random() < 0.6:
            for o in announce(rng.randrange(nconn)):     # a child announces a position
                do(o)
        if rng.random() < 0.5:
            do(['pp', [rng.choice(peers)]])
    elif kind == 'session':
        do(rng.choice([['in', rng.choice(peers)], ['pp', [rng.choice(peers)]]]))
        if nconn and rng.random() < 0.6:
            for o in announce(nconn - 1, 'lr'):
                do(o)
        do(['lost'])
        for _ in range(rng.choice([0, 1, 2])):
            do(rng.choice([['in', rng.choice(peers)], ['close', conn()], ['level', conn(), rng.choice(LEVELS)]]))
        do(['session'])
    elif kind == 'limits':
        wire = rng.random() < 0.4
        for _ in range(rng.choice([1, 2, 3])):
            do(rng.choice([['ratio', _wire_ratio(rng) if wire else rng.choice(RATIOS)],
                           ['minspeed', _wire_minspeed(rng) if wire else rng.choice(MINSPEEDS)],
                           ['stats', ME, _wire_speed(rng) if wire else rng.choice(SPEEDS)]]))
        do(['stats', ME, _wire_speed(rng) if wire else rng.choice(SPEEDS)])
        for _ in range(rng.choice([1, 2, 3])):
            do(['in', rng.choice(peers)])
    elif kind == 'wire':
        # server parameters over the whole wire domain (any uint32, in particular ratios that are not multiples of 10):
        # the speed is chosen so that the DOCUMENTED maximum is a small k (at the lowest / highest speed that gives k),
        # then more peers than that connect; optionally the minimum speed sits at the acceptance threshold, the limit
        # is replaced by another one, a child leaves and the slot is taken again
        ratio = _wire_ratio(rng)
        k = rng.choice([0, 1, 1, 2, 2, 3])
        speed = _wire_speed_for(rng, ratio, k)
        if speed is None:
            k = 0
            speed = _wire_speed_for(rng, ratio, 0)
        pre = [['ratio', ratio]]
        if rng.random() < 0.45:
            pre.append(['minspeed', _wire_minspeed(rng, speed)])
            rng.shuffle(pre)
        if rng.random() < 0.15:
            pre = pre[1:]                                   # (one of them not sent: the default applies)
        for o in pre:
            do(o)
        do(['stats', ME, speed])
        for _ in range(min(k + rng.choice([1, 1, 2]), 5)):
            do(['in', rng.choice(peers)])
        x = rng.random()
        if x < 0.3 and nconn:
            do(['close', rng.randrange(nconn)])
            do(['in', rng.choice(peers)])
            do(['in', rng.choice(peers)])
        elif x < 0.6:
            k2 = rng.choice([0, 1, 2, 3, 4])
            r2 = ratio if rng.random() < 0.5 else _wire_ratio(rng)
            sp2 = _wire_speed_for(rng, r2, k2)
            if sp2 is not None:
                if r2 != ratio:
                    do(['ratio', r2])
                do(['stats', ME, sp2])
                for _ in range(rng.choice([1, 2, 3])):
                    do(['in', rng.choice(peers)])
    elif kind == 'eager':
        # a proposed parent announces itself as soon as the connection stands — while the library's connection request
        # is still wrapping up — with children present, other candidates pending, re-announcements and losses after it
        others = [r for r in roots if r != ME]

        def eager_op(n, complete=True):
            lv = rng.choice([0, 1, 1, 2, 3])
            rt = rng.choice([r for r in others if r != n] or others)
            if complete:
                anns = rng.choice([[['level', lv], ['root', rt]], [['root', rt], ['level', lv]],
                                   [['level', lv], ['root', rt]], [['level', 0]],
                                   [['level', lv], ['root', rt], ['level', lv + 2]],
                                   [['root', rt], ['level', lv], ['root', rng.choice(others)]]])
            else:
                anns = rng.choice([[['level', rng.choice([1, 2, 3])]], [['root', rt]]])
            return ['ppe', n, anns, rng.choice([-1, 0, 0, 1, 1, 2, 2, 3, 4, 6])]

        for _ in range(rng.choice([0, 1, 1, 2])):
            do(['in', rng.choice(peers)])
        a, b = rng.sample(peers, 2)
        variant = rng.choice(['one', 'one', 'one', 'after-candidate', 'two', 'incomplete', 'replace', 'together',
                              'child', 'child'])
        if variant == 'after-candidate':
            c0 = nconn
            do(['pp', [b]])                                  # a silent (or half-announced) candidate is pending
            if rng.random() < 0.5:
                do(rng.choice([['root', c0, rng.choice(others)], ['level', c0, 2]]))
            do(eager_op(a))
        elif variant == 'two':
            do(eager_op(a))
            do(eager_op(b))                                  # arrives when there is a parent: closed again
        elif variant == 'incomplete':
            c0 = nconn
            do(eager_op(a, complete=False))
            do(rng.choice([['level', c0, rng.choice([1, 2])], ['root', c0, rng.choice(others)]]))
            do(rng.choice([['level', c0, rng.choice([1, 2])], ['root', c0, rng.choice(others)]]))
        elif variant == 'replace':
            c0 = nconn
            do(eager_op(a))
            do(rng.choice([['close', c0], ['reset']]))
            do(eager_op(rng.choice([a, b])))
        elif variant == 'child':
            # an incoming connection announces a position right behind its PeerInit (a would-be child, or a proposed
            # parent that connects by itself), with or without a parent in place
            if rng.random() < 0.4:
                do(eager_op(a))
            if rng.random() < 0.4:
                do(['pp', [b]])
            n = rng.choice([b, b, a, rng.choice(peers)])
            do(['ine', n, eager_op(n, complete=rng.random() < 0.7)[2]])
            if rng.random() < 0.5:
                do(['ine', rng.choice(peers), eager_op(n, complete=rng.random() < 0.5)[2]])
        elif variant == 'together':
            # two eager candidates proposed back to back (monitor only: which one wins depends on the delays)
            do(['burst', [eager_op(a), eager_op(b)]])
        else:
            do(eager_op(a))
        c1 = nconn - 1
        if rng.random() < 0.6 and nconn:
            for o in announce(c1, rng.choice(['l', 'r', 'lr'])):          # the (new) parent announces again
                do(o)
        if rng.random() < 0.4:
            do(['in', rng.choice(peers)])
    elif kind == 'rootrule':
        # the protocol's implicit root: a peer whose root is already KNOWN (announced explicitly before) announces level 0
        # and no root after it — it has become the root of its own branch — as parent (it lost its own parent) or as
        # candidate (root first, then level 0), with children present; afterwards a level alone (the root stays the
        # peer's own name), an explicit root, level 0 again, a new child, session loss / re-login, loss of the parent
        others = [r for r in roots if r != ME]
        if not up:
            do(['session'])
        a = rng.choice(peers)
        knames = [q for q in peers if q != a] if rng.random() < 0.85 else peers
        for _ in range(rng.choice([0, 1, 1, 2])):
            do(['in', rng.choice(knames)])
        pc = nconn
        rt = rng.choice([r for r in others if r != a] or others)
        lv = rng.choice([1, 1, 2, 3, 7])
        how = rng.choice(['parent-lr', 'parent-rl', 'candidate', 'zero-then-root', 'eager', 'incoming'])
        if how == 'eager':
            do(['ppe', a, rng.choice([[['root', rt], ['level', 0]], [['level', lv], ['root', rt], ['level', 0]],
                                      [['root', rt], ['level', lv], ['level', 0]]]), rng.choice([-1, 0, 1, 2, 4])])
        elif how == 'incoming':
            if rng.random() < 0.5:                             # (a proposed parent that connects by itself)
                do(['pp', [a]])
            pc = nconn
            do(['ine', a, [['root', rt], ['level', 0]]])
        else:
            do(['pp', [a]])
            pre = {'parent-lr': [['level', pc, lv], ['root', pc, rt]], 'parent-rl': [['root', pc, rt], ['level', pc, lv]],
                   'candidate': [['root', pc, rt]], 'zero-then-root': [['level', pc, 0], ['root', pc, rt]]}[how]
            for o in pre:
                do(o)
            if rng.random() < 0.3:
                do(rng.choice([['in', rng.choice(peers)], ['root', pc, rng.choice(others)], ['level', pc, lv + 1]]))
            do(['level', pc, 0])                                  # ... and no root behind it
        for _ in range(rng.choice([0, 1, 1, 2, 3])):
            do(rng.choice([['in', rng.choice(knames)], ['level', pc, rng.choice([1, 2, 5])], ['level', pc, 0],
                           ['root', pc, rng.choice(others)], ['level', pc, rng.choice([1, 2, 5])],
                           ['close', pc] if rng.random() < 0.3 else ['level', pc, 0]]))
        if rng.random() < 0.25:
            do(['lost'])
            if rng.random() < 0.5:
                do(rng.choice([['level', pc, 0], ['in', rng.choice(peers)], ['level', pc, 3]]))
            do(['session'])
    elif kind == 'overflow':
        first = rng.choice(peers)
        do(['pp', [first]])
        others = [p for p in peers if p != first]
        for _ in range(5):
            do(['pp', [rng.choice(others) for _ in range(4)]])
        do(['in', first])
    elif kind == 'burst' and rng.random() < 0.35:
        # two candidates become complete (or the parent goes and a candidate becomes complete) in the same step
        others = [r for r in roots if r != ME]
        if rng.random() < 0.5:
            do(['in', rng.choice(peers)])
        a, b = rng.sample(peers, 2)
        ac = nconn
        do(['pp', [a, b]])
        first = rng.choice(['root', 'level'])
        for c, n in ((ac, a), (ac + 1, b)):
            do(['root', c, rng.choice([r for r in others if r != n] or others)] if first == 'root'
               else ['level', c, rng.choice([1, 2, 3])])
        fin = [(['level', c, rng.choice([1, 2, 3])] if first == 'root' else ['root', c, rng.choice(others)])
               for c in (ac, ac + 1)]
        if rng.random() < 0.3:
            rng.shuffle(fin)
        if rng.random() < 0.3:
            fin.insert(rng.randrange(3), rng.choice([['in', rng.choice(peers)], ['close', ac], ['stats', ME, 5120]]))
        do(['burst', fin])
    elif kind == 'burst':
        do(rng.choice([['pp', rng.sample(peers, 2)], ['in', rng.choice(peers)]]))
        sub = []
        for _ in range(rng.choice([2, 2, 3])):
            o = rand_op()
            if o[0] in ('session', 'lost'):
                o = ['in', rng.choice(peers)]
            sub.append(o)
        do(['burst', sub])
    elif kind == 'gate':
        # a send is suspended while further events are handled (monitor only)
        variant = rng.choice(['stale', 'stale', 'slot', 'slot', 'close', 'server-set', 'server-unset', 'server-two',
                              'child', 'mixed'])
        others = [r for r in roots if r != ME]

        def make_parent():
            a = rng.choice(peers)
            pc = nconn
            do(['pp', [a]])
            lv = rng.choice([0, 1, 2])
            rt = rng.choice([r for r in others if r != a])
            for o in rng.choice([[['level', pc, lv], ['root', pc, rt]], [['root', pc, rt], ['level', pc, lv]]]):
                do(o)
            return pc, a

        def parent_events(pc):
            return [['root', pc, rng.choice(others)], ['level', pc, rng.choice([0, 1, 3, 7])], ['close', pc],
                    ['reset'], ['root', pc, rng.choice(others)]]

        if variant == 'stale':
            if rng.random() < 0.3:
                do(['in', rng.choice(peers)])
            pc, a = make_parent()
            newc = nconn
            during = [rng.choice(parent_events(pc))]
            if rng.random() < 0.4:
                during.append(rng.choice(parent_events(pc) + [['lost'], ['in', rng.choice(peers)],
                                                              ['close', newc]]))
            do(['gate', 'new', ['in', rng.choice([q for q in peers if q != a])], during])
        elif variant == 'slot':
            k = rng.choice([0, 0, 1, 2])
            if rng.random() < 0.3:
                make_parent()
            do(['stats', ME, 5120 * (k + 1)])          # default ratio 50 -> maximum k + 1
            for _ in range(k):
                do(['in', rng.choice(peers)])
            during = [['in', rng.choice(peers)]]
            if rng.random() < 0.3:
                during.append(['in', rng.choice(peers)])
            do(['gate', 'new', ['in', rng.choice(peers)], during])
        elif variant == 'close':
            if rng.random() < 0.5:
                make_parent()
            newc = nconn
            during = [['close', newc]]
            if rng.random() < 0.4:
                during.insert(rng.choice([0, 1]), rng.choice([['in', rng.choice(peers)], ['reset'],
                                                              ['level', max(0, newc - 1), 1]]))
            do(['gate', 'new', ['in', rng.choice(peers)], during])
        elif variant == 'server-set':
            if rng.random() < 0.5:
                do(['in', rng.choice(peers)])
            a = rng.choice(peers)
            pc = nconn
            do(['pp', [a]])
            rt = rng.choice([r for r in others if r != a])
            do(['root', pc, rt])
            during = [rng.choice(parent_events(pc) + [['in', rng.choice(peers)]])]
            if rng.random() < 0.4:
                during.append(rng.choice(parent_events(pc) + [['in', rng.choice(peers)]]))
            do(['gate', 'server', ['level', pc, rng.choice([1, 2])], during])   # _set_parent hangs in the notify
        elif variant == 'server-two':
            # two candidates become complete while the notification of the server is suspended
            if rng.random() < 0.4:
                do(['in', rng.choice(peers)])
            a, b = rng.sample(peers, 2)
            ac = nconn
            do(['pp', [a, b]])
            do(['root', ac, rng.choice([r for r in others if r != a])])
            do(['root', ac + 1, rng.choice([r for r in others if r != b])])
            during = [['level', ac + 1, rng.choice([1, 2, 3])]]
            if rng.random() < 0.4:
                during.append(rng.choice([['in', rng.choice(peers)], ['close', ac], ['level', ac, 5]]))
            do(['gate', 'server', ['level', ac, rng.choice([1, 2])], during])
        elif variant == 'server-unset':
            if rng.random() < 0.5:
                do(['in', rng.choice(peers)])
            pc, a = make_parent()
            b = rng.choice([q for q in peers if q != a])
            bc = nconn
            do(['pp', [b]])
            do(['root', bc, rng.choice([r for r in others if r != b])])       # incomplete candidate
            during = [['level', bc, rng.choice([1, 2, 3])]]
            if rng.random() < 0.4:
                during.append(rng.choice([['in', rng.choice(peers)], ['level', bc, 5], ['close', bc]]))
            do(['gate', 'server', ['close', pc], during])                     # _unset_parent hangs in the notify
        elif variant == 'child':
            cc = nconn
            do(['in', rng.choice(peers)])
            pc, a = make_parent()
            ev = parent_events(pc)
            during = [rng.choice(ev + [['in', rng.choice(peers)], ['close', cc]])]
            if rng.random() < 0.4:
                during.append(rng.choice(ev + [['lost']]))
            do(['gate', cc, rng.choice(ev[:2]), during])
        else:
            if rng.random() < 0.6:
                make_parent()
            during = []
            for _ in range(rng.choice([1, 2])):
                o = rand_op()
                if o[0] == 'session':
                    o = ['in', rng.choice(peers)]
                during.append(o)
            tgt = rng.choice(['new', 'new', 'server'])
            do(['gate', tgt, ['in', rng.choice(peers)], during])
        if not up:
            do(['session'])
    elif kind in ('sgate', 'cfault'):
        # suspended sends to the SERVER (sgate) and per-child write outcomes at every change of position (cfault),
        # as ordinary ops with a snapshot after each; `strict` cases are compared with the model step by step
        strict = rng.random() < 0.65
        others = [r for r in roots if r != ME]
        pname = rng.choice(peers)                                  # user of the (future) parent
        knames = [q for q in peers if q != pname] if rng.random() < 0.9 else list(peers)
        kids: list = []                                            # connection ids of the (presumed) children
        st = {'parent': None, 'cand': None, 'sblocked': False, 'srv_used': False, 'cblocked': []}

        def add_kids(k):
            for _ in range(k):
                kids.append(nconn)
                do(['in', rng.choice(knames)])

        def candidate(complete, name=None):
            c = nconn
            a = pname if name is None else name
            do(['pp', [a]])
            rt = rng.choice([r for r in others if r != a] or others)
            if complete:
                lv = rng.choice([0, 1, 2, 3])
                for o in rng.choice([[['level', c, lv], ['root', c, rt]], [['root', c, rt], ['level', c, lv]]]):
                    do(o)
                st['parent'] = c
            else:
                do(['root', c, rt])
                st['cand'] = c
            return c

        def position_change(which):
            """ops that change the advertised position (or make the client advertise it again)"""
            pc, cc = st['parent'], st['cand']
            if which == 'new-parent' and cc is not None:
                st['parent'], st['cand'] = cc, None
                return [['level', cc, rng.choice([0, 1, 2, 3])]]
            if which == 'reannounce' and pc is not None:
                return rng.choice([[['level', pc, rng.choice([0, 1, 3, 7])]], [['root', pc, rng.choice(others)]],
                                   [['level', pc, rng.choice([1, 3, 7])], ['root', pc, rng.choice(others)]]])
            if which == 'parent-lost' and pc is not None:
                st['parent'] = None
                return [['close', pc]]
            if which == 'reset':
                st['parent'] = None
                return [['reset']]
            if which == 'session':
                if not strict and rng.random() < 0.5:
                    # (monitor only: the Network's own session listener, which advertises the listening ports, is
                    # suspended first; the manager is handed the session when that send returns)
                    st['sblocked'] = True
                    return [['lost'], ['session', 'blocked']]
                return [['lost'], ['session']]
            return [['level', conn(), rng.choice(LEVELS)]]

        def meanwhile():
            """an event handled while sends are suspended"""
            pc, cc = st['parent'], st['cand']
            pool = [['in', rng.choice(peers)]] * 4 + [['in', rng.choice(knames)]] * 2
            if kids:
                pool += [['close', rng.choice(kids)]] * 2 + [['arm', rng.choice(kids)], ['cblock', rng.choice(kids)],
                                                            ['level', rng.choice(kids), 1]]
            if pc is not None:
                pool += [['close', pc], ['level', pc, rng.choice([0, 2, 5])], ['root', pc, rng.choice(others)]]
            if cc is not None:
                pool += [['level', cc, rng.choice([1, 2])]] * 2 + [['close', cc]]
            pool += [['stats', ME, rng.choice(SPEEDS)]] * 2 + [['ratio', rng.choice(RATIOS)], ['reset'], ['lost'],
                                                               ['minspeed', rng.choice(MINSPEEDS)],
                                                               ['stats', rng.choice(peers), 0]]
            if not (strict and st['srv_used']):
                pool += [['pp', [rng.choice(peers)]]] * 2         # (a refused pp would shift the connection ids)
            o = rng.choice(pool)
            if o[0] in ('stats', 'ratio', 'minspeed', 'reset', 'pp', 'lost'):
                st['srv_used'] = True
            if o[0] == 'close' and o[1] == pc:
                st['parent'] = None
            if o[0] == 'cblock':
                st['cblocked'].append(o[1])
            if o[0] == 'lost':
                st['sblocked'] = False
            return o

        if not up:
            do(['session'])
        if kind == 'sgate':
            variant = rng.choice(['limit-off', 'limit-lower', 'limit-lower', 'limit-raise', 'set-parent', 'reannounce',
                                  'unset', 'unset', 'reset', 'ratio', 'two-handlers', 'random', 'session-init'])
            if variant.startswith('limit'):
                k = rng.choice([0, 1, 1, 2])
                ratio = rng.choice([None, None, 10, 100, 15, 25, rng.randint(11, 99), rng.randint(101, 999)])

                def slots(j):
                    """a speed for which the documented maximum is j (the lowest such speed most of the time)"""
                    r = 50 if ratio is None else ratio
                    lo = -(-j * r * 1024 // 10)
                    return lo if rng.random() < 0.7 else -(-(j + 1) * r * 1024 // 10) - 1
                if ratio is not None:
                    do(['ratio', ratio])
                if variant == 'limit-raise':
                    do(['stats', ME, rng.choice([0, slots(k)])])          # off, or full with k children
                    if rng.random() < 0.5 and k:
                        do(['stats', ME, slots(k)]); add_kids(k)
                    trig = ['stats', ME, slots(k + rng.choice([1, 2]))]
                else:
                    do(['stats', ME, slots(k + 1)])
                    add_kids(rng.choice([k, k, k + 1]))
                    if rng.random() < 0.3:
                        candidate(rng.random() < 0.5)
                    trig = (['stats', ME, rng.choice([0, 1023])] if variant == 'limit-off'
                            else ['stats', ME, slots(rng.randint(0, k))])
                do(['sblock']); st['sblocked'] = True
                do(trig); st['srv_used'] = True
                do(['in', rng.choice(knames)])
            elif variant in ('set-parent', 'reannounce', 'unset', 'reset', 'two-handlers'):
                first = rng.random() < 0.5
                if first:
                    add_kids(rng.choice([0, 1, 2]))
                if variant == 'set-parent':
                    candidate(False)
                else:
                    candidate(True)
                    if variant == 'unset' and rng.random() < 0.7:
                        candidate(False, rng.choice([q for q in peers if q != pname]))
                if not first:
                    add_kids(rng.choice([1, 2]))
                do(['sblock']); st['sblocked'] = True
                which = {'set-parent': 'new-parent', 'reannounce': 'reannounce', 'unset': 'parent-lost',
                         'reset': 'reset', 'two-handlers': 'reannounce'}[variant]
                if which == 'reset':
                    st['srv_used'] = True
                for o in position_change(which)[:1]:
                    do(o)
                if variant == 'two-handlers':
                    do(rng.choice([['stats', ME, rng.choice(SPEEDS)], ['in', rng.choice(peers)]]))
                    st['srv_used'] = True
                if variant == 'unset' and st['cand'] is not None and rng.random() < 0.7:
                    for o in position_change('new-parent'):        # a new parent while the old one's handler hangs
                        do(o)
            elif variant == 'session-init':
                strict = False
                if rng.random() < 0.6:
                    candidate(rng.random() < 0.7)
                add_kids(rng.choice([1, 2]))
                for o in [['lost'], ['session', 'blocked']]:
                    do(o)
                st['sblocked'] = True
            elif variant == 'ratio':
                do(['minspeed', rng.choice(MINSPEEDS)])
                add_kids(rng.choice([0, 1]))
                do(['sblock']); st['sblocked'] = True
                do(['ratio', rng.choice(RATIOS)]); st['srv_used'] = True
            else:
                for _ in range(rng.choice([1, 2, 3])):
                    do(rand_op())
                if up:
                    do(['sblock']); st['sblocked'] = True
            for _ in range(rng.choice([1, 1, 2, 3])):
                do(meanwhile())
            if st['sblocked'] and rng.random() < 0.9:
                do(['srelease'])
            for c in st['cblocked']:
                do(['crelease', c])
            for _ in range(rng.choice([0, 1, 2])):
                do(rng.choice([['in', rng.choice(peers)], ['stats', ME, rng.choice(SPEEDS)], rand_op()]))
        else:
            which = rng.choice(['new-parent', 'new-parent', 'reannounce', 'reannounce', 'parent-lost', 'parent-lost',
                                'session', 'reset'])
            k = rng.choice([2, 2, 3, 3, 4])
            parent_first = which in ('reannounce', 'parent-lost', 'session', 'reset') and rng.random() < 0.6
            if which in ('session', 'reset') and rng.random() < 0.4:
                parent_first = None                                  # no parent at all
            if parent_first:
                candidate(True)
            add_kids(k)
            if parent_first is False:
                candidate(which != 'new-parent')
            outcomes = [rng.choice(['ok', 'ok', 'fail', 'block', 'block-close', 'close', 'block-fail'])
                        for _ in kids]
            if all(o == 'ok' for o in outcomes):
                outcomes[rng.randrange(len(kids))] = rng.choice(['fail', 'block-close', 'block'])
            pre, during, post = [], [], []
            for c, o in zip(kids, outcomes):
                if o in ('fail', 'block-fail'):
                    pre.append(['arm', c])
                if o.startswith('block'):
                    pre.append(['cblock', c]); post.append(['crelease', c])
                if o in ('block-close', 'close'):
                    during.append(['close', c])
            rng.shuffle(pre)
            with_server = rng.random() < 0.25
            if with_server:
                pre.insert(rng.randrange(len(pre) + 1), ['sblock'])
                post.insert(rng.randrange(len(post) + 1), ['srelease'])
            for o in pre:
                do(o)
            change = position_change(which)
            if which == 'session' and with_server:
                change = position_change('reannounce')
            do(change[0])
            rest = change[1:]
            if rng.random() < 0.3:
                during.append(rng.choice([['in', rng.choice(peers)], ['close', rng.choice(kids)]]))
            rng.shuffle(during)
            for o in during[:2]:
                do(o)
            for o in rest:
                do(o)
            if st['sblocked'] and ['srelease'] not in post:
                post.append(['srelease'])
            rng.shuffle(post)
            for o in post:
                do(o)
            if rng.random() < 0.5:                                     # a further change of position afterwards
                for o in position_change(rng.choice(['reannounce', 'parent-lost', 'session', 'new-parent'])):
                    do(o)
        if not up:
            do(['session'])
        limit = 18
        while len(ops) < 6 or (len(ops) < limit and rng.random() < 0.3):
            do(rand_op())
        return {'ops': ops[:limit], 'kind': kind + ('' if strict else '-free'), 'npeers': npeers, 'strict': strict}
    elif kind == 'reparent':
        # the position is taken, lost and taken again: a second parent at the SAME place as the first (a sibling), at
        # another place, the same values announced again, with children present throughout
        others = [r for r in roots if r != ME]
        a, b = rng.sample(peers, 2)
        for _ in range(rng.choice([1, 1, 2])):
            do(['in', rng.choice([q for q in peers if q not in (a, b)] or peers)])
        lv, rt = rng.choice([0, 1, 1, 2, 3]), rng.choice([r for r in others if r not in (a, b)] or others)
        pc = nconn
        do(['pp', [a]])
        for o in rng.choice([[['level', pc, lv], ['root', pc, rt]], [['root', pc, rt], ['level', pc, lv]]]):
            do(o)
        if rng.random() < 0.3:
            do(rng.choice([['level', pc, lv], ['root', pc, rt], ['in', rng.choice(peers)]]))     # repeated values
        do(rng.choice([['close', pc], ['close', pc], ['reset']]))
        if rng.random() < 0.65:
            lv2, rt2 = lv, rt
        else:
            lv2, rt2 = rng.choice([0, 1, 2, 3]), rng.choice(others)
        pc2 = nconn
        do(['pp', [b]])
        for o in rng.choice([[['level', pc2, lv2], ['root', pc2, rt2]], [['root', pc2, rt2], ['level', pc2, lv2]]]):
            do(o)
        if rng.random() < 0.4:
            do(rng.choice([['level', pc2, lv2], ['level', pc2, rng.choice([1, 5])], ['close', pc2]]))
    limit = 10 if kind not in ('overflow', 'wire') else 12
    while len(ops) < limit and (len(ops) < 4 or rng.random() < 0.8):
        do(rand_op())
    return {'ops': ops[:limit], 'kind': kind, 'npeers': npeers}


# ------------------------------------------------------------------------------------------------
# Model side
# ------------------------------------------------------------------------------------------------

def _model_lines(case: dict) -> list[str]:
    out = ['new']
    for op in case['ops']:
        if op[0] == 'pp':
            out.append('pp ' + ' '.join(str(n) for n in op[1]))
        elif op[0] in ('ppe', 'ine'):
            out.append(f'{op[0]} {op[1]} ' + ' '.join(('L' if a[0] == 'level' else 'R') + str(a[1]) for a in op[2]))
        else:
            out.append(' '.join(str(x) for x in op))
    return out


PRIMS = ('sblock', 'srelease', 'cblock', 'crelease', 'arm')


def _has_burst(case) -> bool:
    """monitor-only cases: burst / gate (the model has no composite ops), and cases with held-back sockets that
    are not `strict` (events are issued to sources that are inside a suspended handler)"""
    return any(op[0] in ('burst', 'gate') or (op[0] in PRIMS and not case.get('strict')) or op[1:] == ['blocked']
               for op in case['ops']) or _float_inexact_case(case)


def _eval_case(case):
    try:
        tr = _run_impl(case)
        return {'trace': tr, 'lines': [_canon_line(s) for s in tr]}
    except Exception as e:       # the harness or the real code raised out of the scenario
        import traceback
        return {'error': f'{type(e).__name__}: {e}', 'tb': traceback.format_exc()[-1500:]}


# histories that violate the property on the pinned tree (kept as regression witnesses for the proposed fixes)
WITNESSES = {
    'child-becomes-parent': {'ops': [['session'], ['in', 1], ['level', 0, 1], ['root', 0, 5]], 'kind': 'witness'},
    'parent-reannounces': {'ops': [['session'], ['pp', [1]], ['level', 0, 1], ['root', 0, 5], ['level', 0, 3]],
                           'kind': 'witness'},
    'child-added-without-session': {'ops': [['session'], ['lost'], ['in', 1], ['session']], 'kind': 'witness'},
    'parent-lost-without-session': {'ops': [['session'], ['in', 2], ['pp', [1]], ['level', 1, 1], ['root', 1, 5],
                                            ['lost'], ['close', 1], ['session']], 'kind': 'witness'},
    # suspended-send schedules (monitor only)
    'add-child-stale-root': {'ops': [['session'], ['pp', [3]], ['level', 0, 2], ['root', 0, 6],
                                     ['gate', 'new', ['in', 2], [['close', 0]]]], 'kind': 'witness'},
    'gate-parent-announces-during-send': {'ops': [['session'], ['pp', [3]], ['level', 0, 2], ['root', 0, 6],
                                                  ['gate', 'new', ['in', 2], [['level', 0, 4], ['root', 0, 5]]]],
                                          'kind': 'witness'},
    'gate-slot-race': {'ops': [['session'], ['stats', 0, 5120], ['gate', 'new', ['in', 4], [['in', 2]]]],
                       'kind': 'witness'},
    'gate-close-during-send': {'ops': [['session'], ['gate', 'new', ['in', 4], [['close', 0]]]], 'kind': 'witness'},
    'parent-connects-as-child': {'ops': [['session'], ['pp', [1]], ['level', 0, 0]] + [['pp', [2, 2, 2, 2]]] * 5 +
                                 [['in', 1]], 'kind': 'witness'},
    # server parameters outside the values the real server sends (ratio not a multiple of 10: divider 1536 / 2560)
    'wire-ratio-15-one-slot': {'ops': [['session'], ['ratio', 15], ['stats', 0, 2048], ['in', 1], ['in', 2]],
                               'kind': 'witness'},
    'wire-ratio-25-eight-slots': {'ops': [['session'], ['ratio', 25], ['stats', 0, 20480]] +
                                  [['in', 1 + i % 3] for i in range(9)], 'kind': 'witness'},
    'wire-minspeed-threshold': {'ops': [['session'], ['ratio', 1], ['minspeed', 98], ['stats', 0, 100000], ['in', 1],
                                        ['minspeed', 97], ['stats', 0, 100000], ['in', 2]], 'kind': 'witness'},
    # a proposed parent announces itself while the connection request is still wrapping up (every delay)
    **{f'eager-candidate-delay{d}': {'ops': [['session'], ['in', 2], ['ppe', 1, [['level', 1], ['root', 5]], d],
                                             ['level', 1, 3]], 'kind': 'witness'} for d in (-1, 0, 1, 2, 3)},
    'eager-two-candidates-at-once': {'ops': [['session'], ['in', 3],
                                             ['burst', [['ppe', 1, [['level', 0]], 2], ['ppe', 2, [['level', 0]], 2]]],
                                             ['in', 3]], 'kind': 'witness'},
    # the protocol's implicit root: level 0 with a root already known and no root behind it (parent / candidate)
    'rootrule-parent-falls-back-to-level-0': {'ops': [['session'], ['in', 2], ['pp', [1]], ['level', 1, 2],
                                                      ['root', 1, 5], ['level', 1, 0], ['level', 1, 4], ['root', 1, 6]],
                                              'kind': 'witness'},
    'rootrule-candidate-root-then-level-0': {'ops': [['session'], ['in', 2], ['pp', [1]], ['root', 1, 5],
                                                     ['level', 1, 0], ['in', 3]], 'kind': 'witness'},
    'rootrule-eager-root-then-level-0': {'ops': [['session'], ['in', 2], ['ppe', 1, [['root', 5], ['level', 0]], 1],
                                                 ['lost'], ['session']], 'kind': 'witness'},
    # suspended sends to the server / per-child write outcomes (compared with the model step by step)
    'sgate-acceptance-off-during-send': {'ops': [['session'], ['sblock'], ['stats', 0, 0], ['in', 2], ['srelease']],
                                         'kind': 'witness', 'strict': True},
    'sgate-maximum-lowered-during-send': {'ops': [['session'], ['stats', 0, 10240], ['in', 1], ['sblock'],
                                                  ['stats', 0, 5120], ['in', 2], ['srelease'], ['in', 3]],
                                          'kind': 'witness', 'strict': True},
    'sgate-new-parent-while-unset-hangs': {'ops': [['session'], ['in', 4], ['pp', [1, 2]], ['level', 1, 1],
                                                   ['root', 1, 5], ['root', 2, 6], ['sblock'], ['close', 1],
                                                   ['level', 2, 2], ['in', 3], ['srelease']],
                                           'kind': 'witness', 'strict': True},
    'cfault-write-to-first-child-fails': {'ops': [['session'], ['in', 1], ['in', 2], ['pp', [3]], ['root', 2, 5],
                                                  ['arm', 0], ['level', 2, 1], ['level', 2, 3]],
                                          'kind': 'witness', 'strict': True},
    'cfault-first-child-leaves-during-blocked-send': {'ops': [['session'], ['in', 1], ['in', 2], ['in', 3], ['pp', [4]],
                                                              ['root', 3, 5], ['cblock', 0], ['level', 3, 1],
                                                              ['close', 0], ['crelease', 0]],
                                                      'kind': 'witness', 'strict': True},
    'cfault-parent-lost-child-blocked': {'ops': [['session'], ['pp', [4]], ['level', 0, 2], ['root', 0, 6], ['in', 1],
                                                 ['in', 2], ['cblock', 1], ['arm', 2], ['close', 0], ['close', 1],
                                                 ['crelease', 1]], 'kind': 'witness', 'strict': True},
}


class C13(Property):
    id = 'C13'
    props_module = 'AioslskVerif.Props.C13'
    driver_module = 'AioslskVerif.Driver.C13'
    rule = ('op sequences of length <= 10 (12 for the cache-overflow and wire-domain families, <= 18 ops incl. socket '
            'controls for the suspended-send / write-fault families) over 3..4 remote peers drawn from {session, lost, '
            'pp(names), ppe(name, announcements, delay), in(name), '
            'level(conn,v), root(conn,name), close(conn), minspeed, ratio, stats, reset, burst} plus the socket controls '
            '{sblock, srelease, cblock(conn), crelease(conn), arm(conn)}, generated state-directed from VERIF_SEED '
            '(families: parent flow with both announcement orders and re-announcement, child flow incl. a child '
            'announcing a position, session loss, admission limits, cache overflow, bursts, "reparent": a second parent '
            'at the same / another place after the first was lost, with children; "wire": ParentSpeedRatio / '
            'ParentMinSpeed / upload speed over the whole uint32 domain of the wire (ratios that are not multiples of '
            '10, 1..9, huge, 0; the speed at the lowest / highest value for which the DOCUMENTED maximum is a small k; '
            'the minimum speed at the acceptance threshold of that speed), then more peers than k connect, a child '
            'leaves and the slot is taken again, the limit is replaced; the same values are mixed into the other '
            'families; "eager": a proposed parent announces its branch values by itself -1..6 loop iterations after '
            'it has read our PeerInit — while the library\'s connection request is still wrapping up — alone, after a '
            'pending candidate, as second parent, incompletely, after a loss, two at once [monitor only]; '
            '"rootrule": a peer whose root is already known (announced explicitly: as parent in either order, as '
            'candidate root-first, after a level 0, eagerly, on an incoming connection) announces level 0 and NO root '
            'behind it, with 0-2 children; then a level alone, an explicit root, level 0 again, a new child, loss of '
            'the parent, session loss / re-login; '
            '"gate": drain() of a chosen '
            'socket blocks while 1-2 further events are handled [monitor only]; "sgate": the SERVER socket stops '
            'draining, a handler that sends to the server (statistics lowering / raising / switching off the child '
            'limit, ratio / min-speed update, new parent, parent re-announcing, parent lost, reset, two handlers at '
            'once) is suspended in its send, 1-3 events of every kind are handled meanwhile, release; "cfault": 2-4 '
            'children with a write outcome each (ok / dead socket / blocked then released / blocked then the child '
            'disconnects / disconnects meanwhile) at every change of position (new parent, parent re-announces, parent '
            'lost, session re-initialised, reset), optionally with the server socket blocked as well; 65 % of the '
            'sgate / cfault cases are "strict": compared with the model after EVERY op, the rest issue events also to '
            'sources whose handler is suspended [monitor only]); a case is non-trivial when at some quiescent point '
            'the client had a parent or a child; distinct = distinct canonical op list')
    assumptions = [
        'settings.debug.search_for_parent is True (default); peer.connect_mode default (race); every proposed '
        'potential parent is reachable (direct connection succeeds); the indirect attempt of a connection request '
        'gets no answer (it is cancelled when the direct one has succeeded)',
        'an eager candidate (op ppe) is, for the model, `pp` followed by its announcements in order: the connection '
        'request task and its cancellation are runtime glue (fix C13-prompt-parent-request-kept makes the '
        'implementation agree for every delay)',
        'ops are separated by quiescence of the event loop. A handler is atomic in the model except where it awaits '
        'a send to the server (Model/DistSusp.lean: the frames are written at once, the rest of the handler is a '
        'continuation that runs when the server socket drains, first-in first-out); sends to children are '
        'fire-and-forget tasks, a blocked child socket suspends nobody, a dead one fails in its own task. Other '
        'suspension points inside handlers (disconnects, cancelled connection attempts, the sends of _add_child to '
        'the new child) and back-to-back delivery (burst) are exercised on the implementation with the monitor only',
        'a blocked drain() returns normally when released (also when the socket was closed meanwhile); virtual time '
        'does not advance while sockets are held back (the 10 s write time-out does not fire)',
        'max_children = floor(speed*10/(ratio*1024)) over exact integers, for every uint32 speed and ratio '
        '(C13_max_children_documented); the monitor judges admissions against this documented value. The code '
        'evaluates the same expression in binary floating point, which can come out ONE LOWER (never higher) when '
        'speed*10/(ratio*1024) is a whole number (e.g. ratio 11, speed 16896: 14 instead of 15; no pair with a maximum '
        'below 9 for ratios < 3000): a case that contains such a (speed, ratio) pair is run with the monitor only '
        '(fewer admissions than the documented maximum allows do not violate the property)',
        'branch levels < 2^32-1 (level+1 must be serialisable as uint32)',
        'truthfulness is demanded while a session exists (own name = session user); SessionDestroyed is issued by '
        'a listener doing what client.py:367-373 does. The server must have been told the derived position at every '
        'quiescent point, the children at every quiescent point at which no socket is held back (the code tells '
        'the server first and awaits that send before it tells the children)',
        '"the parent\'s level and root" (from which the derived position is computed) are what the parent\'s '
        'connection ANNOUNCED, folded by the protocol\'s own rule over the DistributedBranchLevel / DistributedBranchRoot '
        'messages in the order in which they are handed over (a plain priority-0 bus listener registered before the '
        'manager records them): a level sets the level, level 0 makes the peer its own root whatever root it announced '
        'before (no root message need follow), a root sets the root (Spec/DistAnnounced.lean, '
        'C13_position_is_announced) — NOT the manager\'s own DistributedPeer.branch_level / branch_root',
        'child admission is judged at the moment the manager is handed the PeerInitializedEvent (a plain listener '
        'with priority 0 on the event bus records it) against the limits that follow from the own-user statistics '
        'HANDED to the manager so far: a new limit binds from the moment the GetUserStats response is handed over '
        '(Spec/DistLimits.lean, C13_limits_bind_at_stats), not from when AcceptChildren has been flushed; a ratio of '
        '0 leaves the maximum undefined (nothing judged until the next statistics)',
    ]
    modelled = ('distributed.py: _get_advertised_branch_values, _set_parent, _check_if_new_parent, _unset_parent, '
                '_notify_server_of_parent, _notify_children_of_branch_values, send_messages_to_children (per child), '
                '_check_if_new_child, _add_child, '
                '_remove_child, handlers for PotentialParents, ParentMinSpeed, ParentSpeedRatio, GetUserStats, '
                'ResetDistributed, DistributedBranchLevel, DistributedBranchRoot, PeerInitializedEvent, '
                'ConnectionStateChangedEvent (peer CLOSED, any server state), SessionInitialized/Destroyed; the '
                'suspension of a handler in its send to the server and its resumption (continuations), a child '
                'write failing in its task. '
                'Exercised, not modelled: Network/PeerConnection/ServerConnection/ListeningConnection, EventBus, '
                'asyncio scheduling inside a handler apart from the server sends, float arithmetic of '
                '_calculate_max_children, '
                'potential-parent connection tasks and their cancellation (exercised against announcements that arrive '
                'while a request is wrapping up: op ppe, end state compared with the model), search request '
                'forwarding (C14), '
                'DistributedChildDepth')

    def regenerate(self):
        from translate import dist_constants
        return [dist_constants.generate(common.REPO, common.LEAN)]

    def cases(self, seed, tier, widen=1):
        rng = random.Random(f'C13-{seed}')
        n = (2400 if tier == 'quick' else 40000) * widen
        cs = [dict(c) for c in WITNESSES.values()]
        cs += [_gen_case(rng) for _ in range(n)]
        return cs

    def correspondence(self, seed, tier, model_ok, widen=1):
        res = KResult()
        cases = self.cases(seed, tier, widen)
        impl = common.parallel_map(_eval_case, cases, chunksize=4)
        for i, r in enumerate(impl):          # rule out load-induced flakiness: errors are re-run serially once
            if 'error' in r:
                impl[i] = _eval_case(cases[i])
                res.notes.append(f'case {i} errored once ({r["error"][:80]}), re-run serially')
        model = None
        if model_ok:
            lines, spans = [], []
            for c in cases:
                if _has_burst(c):
                    spans.append(None)
                    continue
                ls = _model_lines(c)
                spans.append((len(lines), len(ls)))
                lines += ls
            out = common.run_driver(self.driver_file, lines)
            model = [None if sp is None else out[sp[0] + 1: sp[0] + sp[1]] for sp in spans]
        else:
            res.model_available = False
        for i, c in enumerate(cases):
            res.evaluations += 1
            res.count('kind:' + c['kind'])
            if _float_inexact_case(c):
                res.count('case:float-inexact-pair (monitor only)')
            res.count('ops', len(c['ops']))
            for op in c['ops']:
                for o in _flat_ops(op):
                    res.count('op:' + o[0])
            r = impl[i]
            if 'error' in r:
                res.violations.append(Violation('C13-harness-or-impl-error', r['error'], c, observed=r.get('tb')))
                continue
            tr = r['trace']
            if any(s['parent'] is not None or s['children'] for s in tr):
                res.nontrivial_keys.add(common.sha(c['ops']))
            prev = None
            for op, s in zip(c['ops'], tr):
                if prev is not None:
                    if prev['parent'] is None and s['parent'] is not None:
                        res.count('event:parent-set')
                    if prev['parent'] is not None and s['parent'] is None:
                        res.count('event:parent-lost')
                    if prev['parent'] is not None and prev['parent'] == s['parent'] and \
                            (prev['parent_level'], prev['parent_root']) != (s['parent_level'], s['parent_root']):
                        res.count('event:parent-reannounced')
                    if any(x not in prev['children'] for x in s['children']):
                        res.count('event:child-added')
                    if any(x not in s['children'] for x in prev['children']):
                        res.count('event:child-removed')
                    if op[0] == 'in' and s['status'] == 'ok' and len(s['children']) == len(prev['children']):
                        res.count('event:incoming-not-admitted')
                    if op[0] in ('level', 'root') and s['status'] == 'ok' and op[1] in prev['children']:
                        res.count('event:child-announces')
                    if s['parent_root'] == ME and s['parent'] is not None:
                        res.count('state:degenerate-root')
                    if op[0] == 'ppe' and s['status'] == 'ok':
                        res.count('event:eager-candidate-adopted' if prev['parent'] is None and s['parent'] is not None
                                  else 'event:eager-candidate-not-adopted')
                    if op[0] == 'stats' and s['status'] == 'ok' and op[1] == ME and s['session']:
                        r_ = s['ratio']
                        res.count('stats:default-ratio' if r_ is None else 'stats:ratio-0' if r_ == 0 else
                                  'stats:ratio-multiple-of-10' if r_ % 10 == 0 else 'stats:ratio-not-multiple-of-10')
                        if r_ is not None and r_ >= 2 ** 16 or op[2] >= 2 ** 24:
                            res.count('stats:large-wire-values')
                    if op[0] == 'in' and s['status'] == 'ok' and len(s['children']) == len(prev['children']) \
                            and prev['accept'] and len(prev['children']) == prev['max']:
                        res.count('event:incoming-refused-at-maximum')
                prev = s
            for s in tr:
                if s['parent'] is not None:
                    res.count('state:has-parent')
                if s['children']:
                    res.count('state:has-children')
                if s['parent'] is not None and s['children']:
                    res.count('state:parent+children')
                if s['status'] in ('no-conn', 'no-server', 'already', 'busy', 'no-gate'):
                    res.count('status:' + s['status'])
                if 'server' in s.get('gates', []):
                    res.count('state:server-socket-held')
                    if s['status'] == 'ok' and s['probe']:
                        res.count('event:handled-while-server-send-suspended')
                if any(g != 'server' for g in s.get('gates', [])):
                    res.count('state:child-socket-held')
            if model is not None and model[i] is not None:
                res.traces_validated += 1
                if model[i] != r['lines']:
                    k = next((j for j, (a, b) in enumerate(zip(model[i], r['lines'])) if a != b),
                             min(len(model[i]), len(r['lines'])))
                    res.disagreements.append(Disagreement(
                        c, r['lines'][k] if k < len(r['lines']) else None,
                        model[i][k] if k < len(model[i]) else None,
                        f'op #{k} {c["ops"][k] if k < len(c["ops"]) else ""}'))
            res.violations += _monitor(c, tr)
            if len(res.samples) < 3 and 4 <= len(c['ops']) <= 8 and c['kind'] not in ('witness',):
                res.samples.append({'case': c, 'impl': r['lines']})
        return res

    def replay(self, case):
        r = _eval_case(case)
        if 'error' in r:
            return [Violation('C13-harness-or-impl-error', r['error'], case, observed=r.get('tb'))]
        return _monitor(case, r['trace'])

    def known_witnesses(self):
        return []


PROPERTY = C13()
