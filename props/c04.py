"""C04 — COMPLETE means the whole file arrived intact; resuming never corrupts it.

Correspondence K_C04 + monitor (DESIGN.md, C04; model lean/AioslskVerif/Model/FileXfer.lean).

Three kinds of cases, all on the REAL code under the virtual-time loop with FakeNet pipes and real temp files:

* ``dl``  — real ``TransferManager._on_peer_transfer_request`` → ``_initialize_download`` → ``_download_file`` →
  real ``PeerConnection.receive_transfer_ticket / send_message(offset) / receive_file`` (real aiofiles) against a
  scripted sender: honest (sends the shared file from the offset it was sent — the file, and with it the announced
  size, may CHANGE between the attempts: grow, shrink, become empty, be replaced), or dishonest (ignores the offset,
  appends extra bytes, announces another size, stops early); bytes are released in segments (also: a read that ends
  exactly at the OLD end of the file); every attempt ends with a close, a reset, a stall (180 s read time-out), a
  break before the offset went out, ``pause()`` (also while a chunk is with the disk-write thread: on disk, not
  counted), or the death of the process; between attempts ``queue()`` / ``pause()`` / ``write_cache()`` / a restart
  of the client from the cache (real ``TransferShelveCache`` + ``read_cache()``; what the dying process had not
  flushed is lost). A small monitor-only family uses peer-chosen file names no file system takes (NUL, too long).
* ``ul``  — real ``_initialize_upload`` → ``_upload_file`` → real ``send_file`` / ``receive_until_eof`` on a real
  file against a scripted downloader (any offset, also beyond the size); a pass-through gate in front of the
  upload limiter releases one ``send_file`` iteration at a time; write errors, closes and resets at any point
  (a reset in the EOF wait is a failure that is reported with PeerUploadFailed).
* ``pair`` — two unmodified ``SoulSeekClient``s and a simulated server on one FakeNet: a real download of a
  shared file with the file connection reset after k bytes (repeatedly; either end learns of it first; optionally the
  peer connections that exist then are broken too: the next control write of the uploader / the downloader / both
  fails and the writer is told), then no more faults; the control-plane state of the pair is sampled and checked
  against the invariant of the Lean control-plane model (``FileXfer.Ctl``). Variant: one downloader and 2-3 uploaders
  at once (every fresh uploader hands out the same first ticket).
* ``hs``  — one raw hand-shake value (4-byte ticket / 8-byte offset, every byte boundary up to 2^32-1 / 2^64-1)
  through the real ``receive_transfer_ticket`` / ``receive_transfer_offset``, any segmentation, file bytes following.
* ``big`` — monitor only: real uploader and real downloader on one pipe, a shared file beyond 4 GiB (sparse) whose
  download was interrupted beyond (or just before) a multiple of 4 GiB and is resumed.
In the ``ul`` cases the send of PeerUploadFailed is suspended where the real one suspends: time passes / the downloader
asks again meanwhile; it gets out, no connection can be made, or the connection dies under the write.
"""
from __future__ import annotations

import asyncio
import logging
import os
import random
import shutil
import struct
import tempfile
import types

from vlib import common, fakenet, simloop
from vlib.common import KResult, Violation, Disagreement, Property
from vlib.simloop import settle, advance
from translate import rate_constants, xfer_wire

GMUL, GADD = 5, 77          # pattern of the bytes a dishonest sender makes up
STALL = 200.0               # > TRANSFER_TIMEOUT (180 s)


def pat(mul: int, add: int, start: int, n: int) -> bytes:
    """shared with FileXfer.pattern"""
    return bytes((((i % 251) * mul + (i // 251) * 7 + add) % 256) for i in range(start, start + n))


def fnv(bs: bytes) -> int:
    h = 2166136261
    for b in bs:
        h = ((h ^ b) * 16777619) % 4294967296
    return h


def enc_pieces(pieces) -> str:
    ps = [f'{m}.{a}.{s}.{n}' for (m, a, s, n) in pieces if n > 0]
    return '+'.join(ps) if ps else '-'


def bytes_of(pieces) -> bytes:
    return b''.join(pat(m, a, s, n) for (m, a, s, n) in pieces)


def slice_pieces(pieces, start: int, n: int):
    """sub-range [start, start+n) of a piece list"""
    out, pos = [], 0
    for (m, a, s, ln) in pieces:
        lo, hi = max(start, pos), min(start + n, pos + ln)
        if lo < hi:
            out.append((m, a, s + (lo - pos), hi - lo))
        pos += ln
    return out


def total(pieces) -> int:
    return sum(p[3] for p in pieces)


# ------------------------------------------------------------------------------------------------
# shared scaffolding around the real objects
# ------------------------------------------------------------------------------------------------

class _NetStub:
    """stands in for `Network` where a PeerConnection / the managers only report to it"""

    def __init__(self):
        self.peer_msgs = []
        self.server_msgs = []
        self.next_connection = None
        self.gate_puf = False       # ul cases: the send of PeerUploadFailed is suspended until the schedule decides
        self.puf_pending = None     # … the future it waits on: 'told' | 'noconn' | 'werr'

    async def on_state_changed(self, state, conn, close_reason=None):
        pass

    async def on_message_received(self, m, c):
        pass

    async def send_peer_messages(self, username, *messages, **kw):
        if self.gate_puf and any(type(m).__qualname__.startswith('PeerUploadFailed') for m in messages):
            from aioslsk.exceptions import ConnectionWriteError, PeerConnectionError
            self.puf_pending = asyncio.get_running_loop().create_future()
            try:
                how = await self.puf_pending
            finally:
                self.puf_pending = None
            if how == 'noconn':       # `get_peer_connection`: no connection to the peer can be made
                raise PeerConnectionError(f'failed to connect to peer {username}')
            if how == 'werr':         # `PeerConnection.send_message`: the connection died under the write
                raise ConnectionWriteError('10.0.0.9:40001 : exception during writing')
        self.peer_msgs += list(messages)

    def queue_server_messages(self, *messages):
        self.server_msgs += list(messages)
        return []

    def create_peer_response_future(self, peer, message_class, fields=None, **kw):
        from aioslsk.protocol.messages import PeerTransferReply
        fut = asyncio.get_running_loop().create_future()
        fut.set_result((_PeerStub(), PeerTransferReply.Request(ticket=(fields or {}).get('ticket', 0), allowed=True)))
        return fut

    async def create_peer_connection(self, username, typ, **kw):
        return self.next_connection


class _PeerStub:
    """the peer (P) connection a PeerTransferRequest arrived on"""
    username = 'peer'

    def __init__(self):
        self.sent = []

    async def send_message(self, m):
        self.sent.append(m)

    def queue_message(self, m):
        self.sent.append(m)


class _UserStub:
    def get_user_object(self, name):
        from aioslsk.user.model import UserStatus
        return types.SimpleNamespace(name=name, status=UserStatus.UNKNOWN, privileged=False)


def _managers(dl_dir: str, cache_dir: str | None = None):
    from aioslsk.settings import Settings
    from aioslsk.events import EventBus
    from aioslsk.shares.manager import SharesManager
    from aioslsk.transfer.manager import TransferManager
    from aioslsk.transfer.cache import TransferShelveCache
    settings = Settings(credentials={'username': 'u', 'password': 'p'}, shares={'download': dl_dir})
    bus = EventBus()
    net = _NetStub()
    sm = SharesManager(settings, bus, net)
    tm = TransferManager(settings, bus, _UserStub(), sm, net,
                         cache=TransferShelveCache(cache_dir) if cache_dir else None)
    return settings, bus, net, sm, tm


def _file_conn(net: _NetStub, fnet: fakenet.FakeNet, incoming: bool):
    """a real PeerConnection (file type) on a FakeNet pair; returns (conn, lib_writer, remote_reader, remote_writer)"""
    from aioslsk.network.connection import PeerConnection, PeerConnectionType, ConnectionState, PeerConnectionState
    lr, lw, rr, rw = fnet.make_pair(('10.0.0.9', 40000))
    conn = PeerConnection('10.0.0.9', 40000, net, connection_type=PeerConnectionType.FILE, incoming=incoming)
    conn._reader, conn._writer = lr, lw
    conn.state = ConnectionState.CONNECTED
    conn.username = 'peer'
    conn.set_connection_state(PeerConnectionState.NEGOTIATING_TRANSFER)
    return conn, lw, rr, rw


def _state_name(tr) -> str:
    from aioslsk.transfer.state import TransferState
    v = tr.state.VALUE
    if v == TransferState.FAILED:
        return 'FAILED' + (f':{tr.fail_reason}' if tr.fail_reason is not None else '')
    return v.name


def _task_idle(tr) -> bool:
    t = tr._transfer_task
    return t is None or t.done()


def _hs_split(rng: random.Random, n: int) -> dict | None:
    """how the n handshake bytes (4-byte ticket / 8-byte offset) arrive: None = one segment, already there"""
    r = rng.random()
    if r < 0.35:
        return None
    if r < 0.55:
        cuts = [1] * n                                   # byte-wise
    elif r < 0.7:
        cuts = [1, n - 1]
    elif r < 0.8:
        cuts = [n - 1, 1]
    else:
        cuts, left = [], n
        while left > 0:
            c = rng.randint(1, left)
            cuts.append(c)
            left -= c
    return {'cuts': cuts, 'gap': rng.choice([0, 0, 0.01, 0.5])}


async def _feed_split(writer, data: bytes, hs: dict):
    """deliver `data` in the segments of `hs`, the reader runs (and `gap` virtual seconds pass) in between"""
    pos = 0
    for c in hs['cuts']:
        writer.write(data[pos:pos + c])
        pos += c
        await settle()
        if hs.get('gap'):
            await advance(hs['gap'])
    if pos < len(data):
        writer.write(data[pos:])
        await settle()


# ------------------------------------------------------------------------------------------------
# dl cases
# ------------------------------------------------------------------------------------------------

def _dl_snapshot(tr, off, lw, writes) -> str:
    st = _state_name(tr)
    if st == 'DOWNLOADING':
        ln = '-'
    else:
        try:
            ln = str(os.path.getsize(tr.local_path)) if tr.local_path else '0'
        except OSError:
            ln = '0'
    w = ','.join(str(x) for x in writes) if writes else '-'
    del writes[:]
    return f'{st} off={off} bt={tr.bytes_transfered} len={ln} closed={1 if (lw is not None and lw._closed) else 0} w={w}'


def _read_local(tr) -> bytes:
    try:
        with open(tr.local_path, 'rb') as f:
            return f.read()
    except (OSError, TypeError):
        return b''


def _att_file(case: dict, att: dict) -> list:
    """the uploader's shared file during this attempt, as pattern pieces"""
    f = att.get('file')
    if f is None:
        return [(case['mul'], case['add'], 0, case['flen'])]
    return [tuple(p) for p in f]


class _WriteGate:
    """SimLoop runs executor jobs inline. While `hold` is set, a file `write` handed to the executor is still
    performed at once (the bytes are on their way to the disk) but its future stays pending — the moment in which
    the real thread pool has the chunk and the task has not been told yet."""

    def __init__(self, loop):
        self.loop = loop
        self.hold = False
        self.held: list = []
        self._orig = loop.run_in_executor
        loop.run_in_executor = self.run_in_executor

    def run_in_executor(self, executor, func, *args):
        target = getattr(func, 'func', func)
        if self.hold and getattr(target, '__name__', '') == 'write':
            fut = self.loop.create_future()
            try:
                func(*args)
            except BaseException as e:  # noqa
                fut.set_exception(e)
                return fut
            self.held.append(fut)
            return fut
        return self._orig(executor, func, *args)

    def release(self):
        self.hold = False
        for f in self.held:
            if not f.done():
                f.set_result(None)
        del self.held[:]


async def _dl_main(loop, case: dict, tmp: str):
    from aioslsk.events import PeerInitializedEvent
    from aioslsk.exceptions import InvalidStateTransition
    from aioslsk.transfer.model import Transfer, TransferDirection
    from aioslsk.protocol.messages import PeerTransferRequest
    from aioslsk.network.rate_limiter import LimitedRateLimiter
    dl_dir = os.path.join(tmp, 'dl')
    cache_dir = os.path.join(tmp, 'cache')
    os.makedirs(dl_dir)
    os.makedirs(cache_dir)
    name = case.get('name', 'music\\f.bin')
    _settings, _bus, net, _sm, tm = _managers(dl_dir, cache_dir)
    tr = await tm.add(Transfer('peer', name, TransferDirection.DOWNLOAD))
    await tr.state.queue()
    pre = case.get('pre')
    pre_pieces = []
    if pre:
        pre_pieces = [(pre['mul'], pre['add'], 0, pre['len'])]
        tr.local_path = os.path.join(dl_dir, 'f.bin')
        with open(tr.local_path, 'wb') as f:
            f.write(bytes_of(pre_pieces))
    writes: list = []
    ctx = {'tm': tm, 'tr': tr, 'net': net, 'saved': False}
    gate = _WriteGate(loop)

    def hook(t):
        orig_cb = t._transfer_progress_callback     # bound method of the class

        def recording_cb(data):
            writes.append(len(data))
            orig_cb(data)
        t._transfer_progress_callback = recording_cb
    hook(tr)

    obs, lines, vs = [], [], []
    fnet = fakenet.FakeNet()
    off, lw = 0, None
    lines.append('dl ' + enc_pieces(pre_pieces) + (' 1' if pre else ' 0'))
    obs.append(_dl_snapshot(tr, off, lw, writes))
    ticket = 100

    def V(sig, what, **kw):
        vs.append(Violation(sig, what, case, **kw))

    async def do_save():
        t = ctx['tr']
        cb = t.__dict__.pop('_transfer_progress_callback', None)     # the recorder is not part of the transfer
        try:
            ctx['tm'].write_cache()
        finally:
            if cb is not None:
                t._transfer_progress_callback = cb
        ctx['saved'] = True
        lines.append('save')
        obs.append(_dl_snapshot(t, off, lw, writes))

    async def do_crash():
        """the process dies; a new client instance loads the cache"""
        if not ctx['saved']:
            return
        t = ctx['tr']
        downloading = _state_name(t) == 'DOWNLOADING'
        path = t.local_path
        try:
            keep = os.path.getsize(path) if path else 0        # what has reached the operating system
        except OSError:
            keep = 0
        for task in t.get_tasks():
            if not task.done():
                task.cancel()
        await settle()
        if downloading and path:
            os.truncate(path, keep)                             # user-space buffers die with the process
        _s2, _b2, net2, _sm2, tm2 = _managers(dl_dir, cache_dir)
        await tm2.read_cache()
        ctx['tm'] = tm2
        ctx['net'] = net2
        ctx['tr'] = tm2.transfers[0] if tm2.transfers else None
        if ctx['tr'] is None:
            raise RuntimeError('the cache does not hold the transfer')
        hook(ctx['tr'])
        lines.append(f'crash {keep}')
        obs.append(_dl_snapshot(ctx['tr'], off, lw, writes))

    async def do_api(what: str):
        t = ctx['tr']
        try:
            if what == 'pause':
                await ctx['tm'].pause(t)
            else:
                await ctx['tm'].queue(t)
        except InvalidStateTransition:
            pass
        await settle()
        lines.append(what)
        obs.append(_dl_snapshot(t, off, lw, writes))

    async def do_post(op: str):
        if op == 'save':
            await do_save()
        elif op == 'crash':
            await do_crash()
        elif op == 'queue':
            if _state_name(ctx['tr']) != 'COMPLETE':      # re-downloading a COMPLETE file starts a new file (C09)
                await do_api('queue')
        else:
            await do_api('pause')

    # what an honest history should have left in the local file: every accepted attempt so far was served
    # honestly from a file that extends the one before (and the pre-existing file is a prefix of the first)
    lineage_ok = True
    prev_file: bytes | None = bytes_of(pre_pieces) if pre else None
    cur_file_pieces = None
    for op in case.get('pre_ops', []):
        await do_post(op)
    for ai, att in enumerate(case['attempts']):
        tm, tr, net = ctx['tm'], ctx['tr'], ctx['net']
        ticket += 1
        ann = att['ann']
        fpieces = _att_file(case, att)
        Fk = bytes_of(fpieces)
        Nk = len(Fk)
        if fpieces != cur_file_pieces:
            cur_file_pieces = fpieces
            lines.append('remote ' + enc_pieces(fpieces))
            obs.append('ok')
        path_before = tr.local_path
        local_before = _read_local(tr)
        size_before = len(local_before)
        state_before = _state_name(tr)
        honest_att = att['mode'] == 'honest' and ann == Nk
        peer = _PeerStub()
        conn, lw_new, rr, rw = _file_conn(net, fnet, incoming=True)
        if att.get('lim'):
            conn.download_rate_limiter = LimitedRateLimiter(att['lim'])
        hs = att.get('hs') if not att.get('cutinit') else None
        if hs is None:
            rw.write(struct.pack('<I', ticket))
        req = PeerTransferRequest.Request(direction=1, ticket=ticket, filename=name, filesize=ann)
        await tm._on_peer_transfer_request(req, peer)
        await settle()
        accepted = any(getattr(m, 'allowed', None) is True for m in peer.sent)
        if not accepted:
            # refused (COMPLETE, PAUSED) or ignored (being processed): nothing else happens in this attempt
            rw.close()
            refusal = [m for m in peer.sent if getattr(m, 'allowed', None) is False]
            o = f'refused-{refusal[0].reason.lower()}' if refusal else 'ignored'
            lines.append(f"begin {ann} {1 if att.get('lim') else 0}")
            obs.append(o)
            await settle()
            for op in att.get('post', []):
                await do_post(op)
            continue
        if not (honest_att and (prev_file is None or Fk[:len(prev_file)] == prev_file)):
            lineage_ok = False
        prev_file = Fk
        lw = lw_new
        if hs is None:
            await tm._on_peer_initialized(PeerInitializedEvent(conn, requested=False))
        else:
            # the ticket trickles in while `_on_peer_initialized` is already waiting for it
            init_task = loop.create_task(tm._on_peer_initialized(PeerInitializedEvent(conn, requested=False)))
            await settle()
            await _feed_split(rw, struct.pack('<I', ticket), hs)
            try:
                await init_task
            except Exception as e:      # the real EventBus logs and swallows what a listener raises
                obs.append(f'INIT-HANDLER-EXC {type(e).__name__}')
        if att.get('cutinit'):
            rw.reset()
        await settle()
        if att.get('lim'):
            await advance(0.05)
        raw = bytes(rr._buffer)
        got_offset = None
        if len(raw) >= 8:
            got_offset = struct.unpack('<Q', raw[:8])[0]
            off = got_offset
            # monitor: the offset on the wire is the size of the local file
            if got_offset != size_before:
                V('C04-wrong-offset', f'attempt {ai}: offset {got_offset} sent, local file holds {size_before} bytes '
                  f'(bytes_transfered = {tr.bytes_transfered})',
                  observed=got_offset, required=size_before)
        if att.get('cutinit'):
            lines.append(f'begincut {ann}')
            obs.append(_dl_snapshot(tr, off, lw, writes))
            if tr.is_processing() and _task_idle(tr):
                V('C04-stuck-processing', f'attempt {ai}: the file connection broke before the offset went out; the '
                  f'download is left in {_state_name(tr)} with no task — it is never retried and the uploader\'s next '
                  'request is ignored', observed=_state_name(tr), required='QUEUED / INCOMPLETE / FAILED(reason)')
            for op in att.get('post', []):
                await do_post(op)
            continue
        lines.append(f"begin {ann} {1 if att.get('lim') else 0}")
        obs.append(_dl_snapshot(tr, off, lw, writes))
        if case.get('monitor_only'):
            # a name the file system cannot take: the attempt must end, with a reason, connection closed
            await advance(1.0)
            st = _state_name(tr)
            if tr.is_processing() and _task_idle(tr):
                exc = [e.get('exception') for e in loop.exceptions]
                V('C04-stuck-processing', f'attempt {ai}: file name {name!r}: the download is left in {st} with no task '
                  f'({exc[-1] if exc else "no exception"}), connection {"closed" if lw._closed else "left open"} — it is '
                  'never retried and later requests are ignored', observed=st, required='FAILED with a reason')
            if not rw._closed:
                rw.close()
            await settle()
            continue
        if got_offset is None:
            obs[-1] += ' NO-OFFSET-ON-WIRE'
            # monitor: request accepted, every byte of the ticket delivered, no fault — the offset must go out
            V('C04-handshake-not-completed', f'attempt {ai}: the complete ticket was delivered'
              f'{" in segments " + str(hs["cuts"]) if hs else ""} without any fault, but the downloader sent no offset '
              f'(download is {_state_name(tr)})', observed=_state_name(tr), required='offset on the wire, DOWNLOADING')
            rw.close()
            await settle()
            await advance(70)
            continue
        # the sender's stream for this attempt
        if att['mode'] == 'from0':
            stream = list(fpieces)
        else:
            stream = slice_pieces(fpieces, min(off, Nk), max(0, Nk - off))
            if att['mode'] == 'extra':
                stream.append((GMUL, GADD, 0, att.get('extra', 1)))
        pos, delivered_all, k = 0, False, 0
        delivered = bytearray()
        segs = att['segs']
        save_at = att.get('save')
        gi = 0
        if save_at == 0:
            await do_save()
        while k < len(segs):
            group = [segs[k][0]]
            while segs[k][1] and k + 1 < len(segs):       # burst: next segment arrives before the reader runs
                k += 1
                group.append(segs[k][0])
            k += 1
            pieces = []
            for n in group:
                ps = slice_pieces(stream, pos, n)
                pos += total(ps)
                if ps and not rw._closed:
                    rw.write(bytes_of(ps))
                    delivered += bytes_of(ps)
                pieces += ps
            if not pieces:
                continue
            nbytes = total(pieces)
            await settle()
            await advance(1.0 + (nbytes / (att['lim'] * 1024.0) * 1.5 if att.get('lim') else 0.0))
            lines.append('seg ' + enc_pieces(pieces))
            obs.append(_dl_snapshot(tr, off, lw, writes))
            gi += 1
            if save_at == gi:
                await do_save()
        delivered_all = pos >= total(stream)
        end = att['end']
        if end == 'pausew' and _state_name(tr) != 'DOWNLOADING':
            end = 'pause'
        if end == 'eof':
            rw.close()
            await settle()
            lines.append('eof')
        elif end == 'reset':
            rw.reset()
            await settle()
            lines.append('err')
        elif end == 'pause':
            await do_api('pause')
            del lines[-1], obs[-1]
            lines.append('pause')
        elif end == 'pausew':
            # `pause()` lands while a chunk is with the disk-write thread: on disk, not counted
            ps = slice_pieces(stream, pos, att.get('inflight', 1))
            pos += total(ps)
            gate.hold = True
            if ps and not rw._closed:
                rw.write(bytes_of(ps))
                delivered += bytes_of(ps)
            await settle()
            await advance(1.0 + (total(ps) / (att['lim'] * 1024.0) * 1.5 if att.get('lim') else 0.0))
            in_write = bool(gate.held)       # (otherwise the task had not read yet: the bytes die with the connection)
            ptask = loop.create_task(tm.pause(tr))
            await settle()
            gate.release()
            await settle()
            try:
                await ptask
            except InvalidStateTransition:
                pass
            lines.append('pausew ' + enc_pieces(ps) if in_write else 'pause')
        elif end == 'crash':
            if ctx['saved']:
                await do_crash()
                del obs[-1]
                tr = ctx['tr']
            else:
                rw.reset()
                await settle()
                lines.append('err')
        else:
            await advance(STALL)
            lines.append('err')
        await advance(0.5)
        obs.append(_dl_snapshot(tr, off, lw, writes))
        if not rw._closed:
            rw.close()
            await settle()
        # ---- monitor, on what the real code did in this attempt
        st = _state_name(tr)
        local = _read_local(tr)
        same_file = tr.local_path == path_before or path_before is None
        if tr.is_processing() and _task_idle(tr):
            V('C04-stuck-processing', f'attempt {ai}: ended, download left in {st} with no task',
              observed=st, required='a state from which the transfer is retried')
        if same_file and len(local) < size_before:
            V('C04-prefix-lost', f'attempt {ai}: local file shrank from {size_before} to {len(local)} bytes',
              observed=len(local), required=f'>= {size_before}')
        elif same_file and (local[:size_before] != local_before or
                            bytes(delivered[:len(local) - size_before]) != local[size_before:]):
            # whoever the sender is: the downloader appends what it received, in order, and nothing else
            V('C04-prefix-corrupted', f'attempt {ai}: the local file ({len(local)} bytes) is not what it held before '
              f'({size_before} bytes) followed by a prefix of the {len(delivered)} bytes delivered in this attempt',
              observed=fnv(local), required=fnv(local_before + bytes(delivered[:max(0, len(local) - size_before)])))
        if lineage_ok and local != Fk[:len(local)]:
            V('C04-prefix-corrupted', f'attempt {ai}: honest sender, but the local file ({len(local)} bytes) is not a '
              'prefix of the remote file', observed=fnv(local), required=fnv(Fk[:len(local)]))
        if st == 'COMPLETE' and ann != len(local):
            V('C04-complete-size-mismatch', f'attempt {ai}: COMPLETE with a local file of {len(local)} bytes, the size '
              f'announced for this attempt is {ann} (transfer.filesize = {tr.filesize})',
              observed=len(local), required=ann)
        if st == 'COMPLETE' and honest_att and local[off:] != Fk[off:]:
            V('C04-complete-but-differs', f'attempt {ai}: COMPLETE but from offset {off} on the local file differs from '
              'the remote file served in this attempt',
              observed={'len': len(local), 'fnv': fnv(local[off:])}, required={'len': Nk, 'fnv': fnv(Fk[off:])})
        if st == 'COMPLETE' and lineage_ok and local != Fk:
            V('C04-complete-but-differs', f'attempt {ai}: COMPLETE but the local file differs from the remote file',
              observed={'len': len(local), 'fnv': fnv(local)}, required={'len': Nk, 'fnv': fnv(Fk)})
        if honest_att and delivered_all and off <= Nk and end in ('stall', 'eof') and state_before != 'COMPLETE':
            # fault-free attempt: everything that was missing was delivered, the sender kept the connection open
            # (or closed it only after the last byte)
            if st != 'COMPLETE' or len(local) != Nk or (lineage_ok and local != Fk):
                V('C04-no-complete-after-full-delivery',
                  f'attempt {ai}: honest sender announced {ann} and delivered all {max(0, Nk - off)} missing bytes '
                  f'(offset {off} of {Nk}) without any fault, download ended {st} with {len(local)} bytes',
                  observed={'state': st, 'len': len(local)}, required={'state': 'COMPLETE', 'len': Nk})
        if end in ('pause', 'pausew'):
            if st not in ('PAUSED', 'COMPLETE') and not st.startswith('FAILED:'):
                V('C04-cut-outcome', f'attempt {ai}: after pause() the download is {st}', observed=st, required='PAUSED')
        elif end == 'crash':
            pass
        elif not honest_att or not delivered_all or end == 'reset':
            # a cut / dishonest attempt: allowed outcomes
            if st not in ('COMPLETE', 'INCOMPLETE', 'QUEUED') and not st.startswith('FAILED:') and \
                    not (tr.is_processing() and _task_idle(tr)):
                V('C04-cut-outcome', f'attempt {ai}: after a cut the download is {st}', observed=st,
                  required='INCOMPLETE or FAILED with a reason')
        for op in att.get('post', []):
            await do_post(op)
    tr = ctx['tr']
    lines.append('hash')
    local = _read_local(tr)
    obs.append(f'h={fnv(local)} len={len(local)}')
    for e in loop.exceptions:
        obs.append(f"LOOP-EXC {e.get('type')}")
    return obs, lines, vs


# ------------------------------------------------------------------------------------------------
# ul cases
# ------------------------------------------------------------------------------------------------

class _GateLimiter:
    """pass-through in front of the real limiter: every `take_tokens` first waits for the schedule"""

    def __init__(self, real):
        self.real = real
        self.waiting = False
        self._fut = None

    async def take_tokens(self):
        self.waiting = True
        self._fut = asyncio.get_running_loop().create_future()
        try:
            await self._fut
        finally:
            self.waiting = False
        return await self.real.take_tokens()

    def release(self):
        if self._fut is not None and not self._fut.done():
            self._fut.set_result(None)

    def __getattr__(self, name):
        return getattr(self.real, name)


def _ul_snapshot(tr, off, lw, gate, net=None) -> str:
    st = _state_name(tr)
    if st == 'UPLOADING' and gate is not None and not gate.waiting:
        st = 'UPLOADING-EOFWAIT'
    sent = bytes(lw.sent[4:]) if lw is not None else b''
    puf = sum(1 for m in (net.peer_msgs if net is not None else []) if type(m).__qualname__.startswith('PeerUploadFailed'))
    ntf = 1 if (net is not None and net.puf_pending is not None) else 0
    return f'{st} off={off} bt={tr.bytes_transfered} sent={len(sent)} hs={fnv(sent)} puf={puf} ntf={ntf}'


async def _ul_main(loop, case: dict, tmp: str):
    from aioslsk.transfer.model import Transfer, TransferDirection
    from aioslsk.protocol.messages import PeerTransferReply
    from aioslsk.network.rate_limiter import LimitedRateLimiter, UnlimitedRateLimiter
    N, mul, add = case['flen'], case['mul'], case['add']
    F = pat(mul, add, 0, N)
    src = os.path.join(tmp, 'shared.bin')
    with open(src, 'wb') as f:
        f.write(F)
    _settings, _bus, net, _sm, tm = _managers(os.path.join(tmp, 'dl'))
    net.gate_puf = True
    tr = await tm.add(Transfer('peer', 'music\\shared.bin', TransferDirection.UPLOAD))
    tr.local_path = src
    tr.filesize = N
    await tr.state.queue()
    fnet = fakenet.FakeNet()
    obs, lines, vs = [], ['ul ' + enc_pieces([(mul, add, 0, N)])], []
    off, lw, gate = 0, None, None
    obs.append(_ul_snapshot(tr, off, lw, gate, net))

    def V(sig, what, **kw):
        vs.append(Violation(sig, what, case, **kw))

    for ai, att in enumerate(case['attempts']):
        if _state_name(tr) != 'QUEUED':
            await tr.state.queue()          # what `_on_peer_transfer_queue` does for FAILED / COMPLETE
        conn, lw, rr, rw = _file_conn(net, fnet, incoming=False)
        gate = _GateLimiter(LimitedRateLimiter(att['lim']) if att.get('lim') else UnlimitedRateLimiter())
        conn.upload_rate_limiter = gate
        net.next_connection = conn
        off = att['off']
        hs = att.get('hs')
        if hs is None:
            rw.write(struct.pack('<Q', off))
        task = loop.create_task(tm._initialize_upload(tr))
        tr._transfer_task = task
        task.add_done_callback(tr._transfer_task_complete)
        await settle()
        if hs is not None:
            # the uploader has sent the ticket and waits for the offset, which trickles in
            await _feed_split(rw, struct.pack('<Q', off), hs)
        lines.append(f"ubegin {off} {1 if att.get('lim') else 0}")
        obs.append(_ul_snapshot(tr, off, lw, gate, net))
        if _state_name(tr) == 'INITIALIZING' or (tr.is_processing() and _task_idle(tr)):
            # monitor: all 8 offset bytes were delivered, nothing failed — the upload must be under way
            exc = task.exception() if task.done() and not task.cancelled() else None
            V('C04-stuck-processing', f'attempt {ai}: the complete offset ({off}) was delivered'
              f'{" in segments " + str(hs["cuts"]) if hs else ""} without any fault, but the upload is left in '
              f'{_state_name(tr)} ' + ('with no task' if _task_idle(tr) else 'still waiting') +
              (f' ({type(exc).__name__}: {exc})' if exc is not None else '') +
              ' — it is never retried', observed=_state_name(tr), required='UPLOADING')
            if not _task_idle(tr):
                task.cancel()
                await settle()
            rw.close()
            await settle()
            continue        # the next attempt re-queues it (INITIALIZING -> QUEUED exists)
        peer = {'closed': False, 'reset': False}
        flags = {'early': False}

        def note():
            obs.append(_ul_snapshot(tr, off, lw, gate, net))
            if _state_name(tr) == 'COMPLETE' and not (peer['closed'] or peer['reset']):
                flags['early'] = True

        async def notify():
            """the upload task is inside `send_peer_messages(PeerUploadFailed)`: the schedule decides what happens
            meanwhile (time passes, the downloader asks again) and how the send ends"""
            if net.puf_pending is None:
                return
            flags['notified'] = True
            for op in list(att.get('ntf') or ['told']) + ['told']:
                if net.puf_pending is None:
                    break
                if op == 'wait':
                    await advance(15.0)
                elif op == 'requeue':
                    # `_on_peer_transfer_queue` for a transfer in the list: FAILED / COMPLETE go back to the queue, a
                    # transfer that is being processed ignores the request
                    if _state_name(tr) in ('FAILED', 'COMPLETE'):
                        await tr.state.queue()
                    await settle()
                    lines.append('requeue')
                    note()
                else:
                    net.puf_pending.set_result(op)
                    await settle()
                    lines.append('told' if op == 'told' else 'untold')
                    note()

        async def release(force_werr: bool):
            """one `send_file` iteration; emits the model op(s) that describe what the environment did"""
            sending = _state_name(tr) == 'UPLOADING' and gate.waiting
            more = off <= N and (off + len(lw.sent) - 4) < N
            if sending and more and force_werr and not peer['reset']:
                lw.fail_after = len(lw.sent)
            gate.release()
            await settle()
            if att.get('lim'):
                await advance(0.5)
            if not sending:
                lines.append('chunk')
                note()
            elif more:
                lines.append('werr' if (force_werr or peer['reset']) else 'chunk')
                note()
            else:
                lines.append('chunk')               # end of file found → waits for the peer's close …
                if peer['closed'] or peer['reset']:
                    obs.append(None)                # … which is there already (or the connection is broken)
                    lines.append('closed' if peer['closed'] else 'rerr')
                note()

        async def peer_ends(how: str):
            if not (peer['closed'] or peer['reset']):
                if how == 'close':
                    rw.close()
                    peer['closed'] = True
                else:
                    rw.reset()
                    peer['reset'] = True
            await settle()
            lines.append('closed' if peer['closed'] else 'rerr')
            note()

        for op in att['ops']:
            if op in ('chunk', 'werr'):
                await release(op == 'werr')
            else:
                await peer_ends(op)
            await notify()
        if not (peer['closed'] or peer['reset']):
            await peer_ends('close')
            await notify()
        if not _task_idle(tr):
            # still parked in the send loop although the peer is gone: the next write fails (the RST comes back)
            await release(True)
            await notify()
        await advance(0.5)
        if task.done() and not task.cancelled() and task.exception() is not None:
            # nothing may escape `_initialize_upload` / `_upload_file` (the model has no such outcome)
            obs.append(f'TASK-EXC {type(task.exception()).__name__}')
        completed_before_close = flags['early']
        # ---- monitor
        st = _state_name(tr)
        sent = bytes(lw.sent[4:])
        if st == 'COMPLETE':
            if sent != F[off:]:
                V('C04-upload-complete-short', f'attempt {ai}: upload COMPLETE but {len(sent)} bytes were written, '
                  f'{max(0, N - off)} were due from offset {off}', observed={'len': len(sent), 'fnv': fnv(sent)},
                  required={'len': max(0, N - off), 'fnv': fnv(F[off:])})
            if completed_before_close:
                V('C04-upload-complete-early', f'attempt {ai}: upload COMPLETE while the peer had not closed the connection',
                  observed='COMPLETE before close', required='COMPLETE only after the peer closed')
            elif peer['reset']:
                V('C04-upload-complete-early', f'attempt {ai}: upload COMPLETE although the connection was reset — the '
                  'peer never closed it, nobody knows what it received (and the downloader is not told to ask again)',
                  observed='COMPLETE after a reset', required='FAILED + PeerUploadFailed')
        n_chunks = sum(1 for o in att['ops'] if o == 'chunk')
        chunk = 128 if att.get('lim') else 8192
        clean = all(o in ('chunk', 'close') for o in att['ops']) and 'close' in att['ops'] and \
            att['ops'].index('close') == len(att['ops']) - 1
        if clean and off <= N and n_chunks * chunk >= (N - off) + chunk and st != 'COMPLETE':
            V('C04-upload-no-complete', f'attempt {ai}: fault-free upload from offset {off} of {N} ended {st}',
              observed=st, required='COMPLETE')
        if tr.is_processing() and _task_idle(tr):
            V('C04-stuck-processing', f'attempt {ai}: upload left in {st} with no task', observed=st)
    for e in loop.exceptions:
        obs.append(f"LOOP-EXC {e.get('type')}")
    return obs, lines, vs


# ------------------------------------------------------------------------------------------------
# hs cases: the two raw values of the hand-shake through the real readers
# ------------------------------------------------------------------------------------------------

async def _hs_main(loop, case: dict, tmp: str):
    """an honest peer writes the ticket (4 bytes) / the offset (8 bytes), little endian, `trail` more bytes follow at
    once (the first file bytes); the first `k` bytes of all that arrive, in the given segments; the REAL
    `PeerConnection.receive_transfer_ticket` / `receive_transfer_offset` reads"""
    what, v = case['what'], case['value']
    width = 4 if what == 'ticket' else 8
    trail = (1, case.get('tadd', 0), 0, case.get('trail', 0))
    data = struct.pack('<I' if what == 'ticket' else '<Q', v) + bytes_of([trail])
    k = min(case['k'], len(data))
    net, fnet = _NetStub(), fakenet.FakeNet()
    conn, _lw, _rr, rw = _file_conn(net, fnet, incoming=True)
    task = loop.create_task(conn.receive_transfer_ticket() if what == 'ticket' else conn.receive_transfer_offset())
    await settle()
    pos = 0
    for c in case['cuts']:
        c = min(c, k - pos)
        if c <= 0:
            break
        rw.write(data[pos:pos + c])
        pos += c
        await settle()
        if case.get('gap'):
            await advance(case['gap'])
    if pos < k:
        rw.write(data[pos:k])
    await settle()
    lines = [f'hs {what} {v} {k} {enc_pieces([trail])}']
    vs = []

    def V(sig, text, **kw):
        vs.append(Violation(sig, text, case, **kw))
    if not task.done():
        obs = ['waiting']
        task.cancel()
        await settle()
        if k >= width:
            V('C04-handshake-not-completed', f'all {width} bytes of the {what} ({v}) were delivered in segments '
              f'{case["cuts"]} without any fault, the reader still waits', observed='waiting', required=v)
    elif task.exception() is not None:
        obs = [f'exc {type(task.exception()).__name__}']
        V('C04-handshake-not-completed', f'reading the {what} ({v}) raised {task.exception()!r}', observed=obs[0],
          required=v)
    else:
        val, left = task.result(), len(conn._reader._buffer)
        obs = [f'val={val} left={left}']
        if val != v or k < width:
            V('C04-handshake-value-differs', f'the peer wrote the {what} {v} as {width} little-endian bytes '
              f'({k} bytes delivered), the reader returned {val}', observed=val, required=v)
        elif left != k - width:
            V('C04-handshake-value-differs', f'reading the {what} took {k - left} bytes from the stream instead of '
              f'{width}: the file bytes that follow are out of step', observed=k - left, required=width)
    for e in loop.exceptions:
        obs.append(f"LOOP-EXC {e.get('type')}")
    return obs, lines, vs


# ------------------------------------------------------------------------------------------------
# big cases: a real uploader and a real downloader on one pipe, files beyond 4 GiB (sparse)
# ------------------------------------------------------------------------------------------------

BIG_HEAD = 70000        # bytes at the start of the shared file that hold the pattern (the rest up to the tail is a hole)
BIG_BACK = 4096         # bytes before the initial local size that hold it too (the region compared afterwards)


def _big_write(path: str, size: int, regions, mul: int, add: int):
    with open(path, 'wb') as f:
        f.truncate(size)
        for a, b in regions:
            a, b = max(0, a), min(size, b)
            if a < b:
                f.seek(a)
                f.write(pat(mul, add, a, b - a))


def _big_read(path, a: int, b: int) -> bytes:
    try:
        with open(path, 'rb') as f:
            f.seek(a)
            return f.read(max(0, b - a))
    except (OSError, TypeError):
        return b''


async def _big_main(loop, case: dict, tmp: str):
    """Monitor only. The shared file has `size` bytes (> 4 GiB, sparse), the downloader already holds the first `have`
    of them; real `_initialize_upload` / `_upload_file` and real `_on_peer_transfer_request` / `_on_peer_initialized` /
    `_initialize_download` / `_download_file` talk to each other over one FakeNet pipe (ticket, offset, file bytes);
    the i-th file connection is reset after `cuts[i]` file bytes, the last attempt is fault-free."""
    from aioslsk.events import PeerInitializedEvent
    from aioslsk.network.connection import PeerConnection, PeerConnectionType, ConnectionState, PeerConnectionState
    from aioslsk.transfer.model import Transfer, TransferDirection
    from aioslsk.protocol.messages import PeerTransferRequest
    from aioslsk.network.rate_limiter import LimitedRateLimiter
    N, H0, mul, add = case['size'], case['have'], case['mul'], case['add']
    T0 = max(0, H0 - BIG_BACK)
    dl_dir = os.path.join(tmp, 'dl')
    os.makedirs(dl_dir)
    remote = os.path.join(tmp, 'shared.bin')
    _big_write(remote, N, [(0, BIG_HEAD), (T0, N)], mul, add)
    local = os.path.join(dl_dir, 'f.bin')
    _big_write(local, H0, [(0, min(H0, BIG_HEAD)), (T0, H0)], mul, add)
    _s1, _b1, net_d, _sm1, tm_d = _managers(dl_dir)
    _s2, _b2, net_u, _sm2, tm_u = _managers(os.path.join(tmp, 'dl-u'))
    name = 'music\\f.bin'
    tr_d = await tm_d.add(Transfer('peer', name, TransferDirection.DOWNLOAD))
    await tr_d.state.queue()
    tr_d.local_path = local
    tr_u = await tm_u.add(Transfer('peer', name, TransferDirection.UPLOAD))
    tr_u.local_path = remote
    tr_u.filesize = N
    await tr_u.state.queue()
    fnet = fakenet.FakeNet()
    vs, parts = [], []

    def V(sig, what, **kw):
        vs.append(Violation(sig, what, case, **kw))

    def expected(a: int, b: int) -> bytes:
        return pat(mul, add, a, max(0, min(b, N) - a))

    cuts = list(case.get('cuts', [])) + [None]
    for ai, cut in enumerate(cuts):
        try:
            size_before = os.path.getsize(tr_d.local_path) if tr_d.local_path else 0
        except OSError:
            size_before = 0
        if _state_name(tr_u) in ('FAILED', 'COMPLETE'):
            await tr_u.state.queue()          # the downloader's re-request (`_on_peer_transfer_queue`)
        if _state_name(tr_u) != 'QUEUED' or not _task_idle(tr_u):
            V('C04-stuck-processing', f'attempt {ai}: the upload is {_state_name(tr_u)} '
              f'{"with no task" if _task_idle(tr_u) else "and its task never ends"} — the next attempt cannot start',
              observed=_state_name(tr_u))
            break
        a_r, a_w, b_r, b_w = fnet.make_pair(('10.0.0.9', 40000))
        conns = []
        for (r, w, nt, inc) in ((a_r, a_w, net_u, False), (b_r, b_w, net_d, True)):
            c = PeerConnection('10.0.0.9', 40000, nt, connection_type=PeerConnectionType.FILE, incoming=inc)
            c._reader, c._writer = r, w
            c.state = ConnectionState.CONNECTED
            c.username = 'peer'
            c.set_connection_state(PeerConnectionState.NEGOTIATING_TRANSFER)
            if case.get('lim'):
                c.download_rate_limiter = LimitedRateLimiter(case['lim'])
                c.upload_rate_limiter = LimitedRateLimiter(case['lim'])
            conns.append(c)
        conn_u, conn_d = conns
        if cut is not None:
            a_w.fail_after = 4 + cut             # the ticket, then `cut` file bytes get through

        def guarded_write(data, w=a_w, other=b_w, plain=a_w.write):
            # a write to a connection the other end has closed fails (the RST comes back); an uploader that writes far
            # more than the file has left is stopped (it would fill the memory with a 4 GiB hole)
            if other._closed or len(w.sent) > (N - min(size_before, N)) + 2 ** 21:
                w.reset()
                raise ConnectionResetError('the downloader has closed the connection')
            return plain(data)
        a_w.write = guarded_write
        net_u.next_connection = conn_u
        n0 = len(net_u.peer_msgs)
        utask = loop.create_task(tm_u._initialize_upload(tr_u))
        tr_u._transfer_task = utask
        utask.add_done_callback(tr_u._transfer_task_complete)
        await settle()
        reqs = [m for m in net_u.peer_msgs[n0:] if type(m).__qualname__.startswith('PeerTransferRequest')]
        if not reqs:
            V('C04-stuck-processing', f'attempt {ai}: the uploader did not offer the file', observed=_state_name(tr_u))
            break
        req = PeerTransferRequest.Request(direction=1, ticket=reqs[-1].ticket, filename=name, filesize=reqs[-1].filesize)
        await tm_d._on_peer_transfer_request(req, _PeerStub())
        await settle()
        await tm_d._on_peer_initialized(PeerInitializedEvent(conn_d, requested=False))
        for _ in range(600):
            await advance(1.0)
            if _task_idle(tr_d) and _task_idle(tr_u):
                break
        if not b_w._closed:
            b_w.close()
        await settle()
        await advance(1.0)
        for t in (utask, tr_d._transfer_task):
            if t is not None and t.done() and not t.cancelled() and t.exception() is not None:
                parts.append(f'TASK-EXC {type(t.exception()).__name__}: {t.exception()}')
        # ---- monitor
        dst, ust = _state_name(tr_d), _state_name(tr_u)
        wire = bytes(b_w.sent[:8])
        off = struct.unpack('<Q', wire)[0] if len(wire) == 8 else None
        try:
            L = os.path.getsize(tr_d.local_path) if tr_d.local_path else 0
        except OSError:
            L = 0
        sent = bytes(a_w.sent[4:])
        parts.append(f'#{ai} cut={cut} off={off} down={dst} up={ust} len={L} sent={len(sent)}')
        if off is None:
            V('C04-handshake-not-completed', f'attempt {ai}: local file of {size_before} bytes, no fault before the '
              f'hand-shake: no offset on the wire (download {dst}, upload {ust})', observed=dst,
              required='offset on the wire')
            break
        if off != size_before:
            V('C04-wrong-offset', f'attempt {ai}: offset {off} sent, local file holds {size_before} bytes',
              observed=off, required=size_before)
        due = expected(off, N) if off >= T0 else None
        if due is not None and sent != due[:len(sent)]:
            V('C04-upload-sent-other-bytes', f'attempt {ai}: the downloader asked for the file from byte {off} '
              f'(of {N}); the {len(sent)} bytes the uploader wrote are not the bytes of the shared file from there on',
              observed=fnv(sent), required=fnv(due[:len(sent)]))
        if ust == 'COMPLETE' and due is not None and sent != due:
            V('C04-upload-complete-short', f'attempt {ai}: upload COMPLETE but {len(sent)} bytes were written, '
              f'{len(due)} were due from offset {off}', observed=len(sent), required=len(due))
        loc_tail = _big_read(tr_d.local_path, T0, L)
        if L < size_before:
            V('C04-prefix-lost', f'attempt {ai}: local file shrank from {size_before} to {L} bytes', observed=L,
              required=f'>= {size_before}')
        elif loc_tail != expected(T0, L) or L > N:
            first = next((T0 + i for i, (x, y) in enumerate(zip(loc_tail, expected(T0, L))) if x != y), min(L, N))
            V('C04-prefix-corrupted', f'attempt {ai}: honest uploader, resumed at {off}: the local file ({L} bytes) is '
              f'not a prefix of the shared file ({N} bytes) — first byte that differs: {first}',
              observed=fnv(loc_tail), required=fnv(expected(T0, L)))
        if dst == 'COMPLETE' and (L != N or loc_tail != expected(T0, N)):
            V('C04-complete-but-differs', f'attempt {ai}: COMPLETE but the local file ({L} bytes) differs from the '
              f'shared file ({N} bytes) from byte {off} on', observed={'len': L, 'fnv': fnv(loc_tail)},
              required={'len': N, 'fnv': fnv(expected(T0, N))})
        for tr in (tr_d, tr_u):
            if tr.is_processing() and _task_idle(tr):
                V('C04-stuck-processing', f'attempt {ai}: {"upload" if tr is tr_u else "download"} left in '
                  f'{_state_name(tr)} with no task', observed=_state_name(tr))
        if cut is None and not vs and not (dst == 'COMPLETE' and ust == 'COMPLETE'):
            V('C04-no-complete-after-full-delivery', f'attempt {ai}: no fault, {N - off} bytes missing of {N}: '
              f'download ended {dst}, upload {ust}, local file {L} bytes', observed={'down': dst, 'up': ust},
              required={'down': 'COMPLETE', 'up': 'COMPLETE'})
        if vs or dst == 'COMPLETE':
            break
    return ['; '.join(parts)], [], vs


# ------------------------------------------------------------------------------------------------
# running a case
# ------------------------------------------------------------------------------------------------

def _eval_case(case):
    """→ (impl observations, model lines, violations)"""
    tmp = tempfile.mkdtemp(prefix='c04-')
    logging.disable(logging.CRITICAL)
    try:
        if case['kind'] == 'dl':
            main = _dl_main
        elif case['kind'] == 'ul':
            main = _ul_main
        elif case['kind'] == 'hs':
            main = _hs_main
        elif case['kind'] == 'big':
            main = _big_main
        else:
            from props import c04_pair
            return c04_pair.eval_pair(case, tmp)
        (obs, lines, vs), _loop = simloop.run(main, case, tmp, wall_timeout=120)
        return obs, lines, vs
    except Exception as e:       # harness trouble is reported as an observation, not hidden
        import traceback
        return [f'HARNESS-EXC {type(e).__name__}: {e} {traceback.format_exc()[-600:]}'], ['hash'], []
    finally:
        logging.disable(logging.NOTSET)
        shutil.rmtree(tmp, ignore_errors=True)


# ------------------------------------------------------------------------------------------------
# generators
# ------------------------------------------------------------------------------------------------

SIZES = [0, 1, 127, 128, 129, 255, 256, 300, 8191, 8192, 8193, 3 * 8192, 3 * 8192 + 5]
# offsets beyond 4 GiB a local file can have on any file system in use (a seek the OS refuses — ext4: beyond 16 TiB —
# is an OSError, "File read error": OS semantics, not modelled; no file has 2^63 bytes or more)
BIG_OFFSETS = [2 ** 32 - 1, 2 ** 32, 2 ** 32 + 1, 2 ** 32 + 128, 2 ** 33, 2 ** 33 + 2 ** 32 + 7, 2 ** 40 + 3]
SMALL = [0, 1, 2, 127, 128, 129, 255, 256, 257, 300]


def _segmentation(rng: random.Random, n: int) -> list:
    """cut n bytes into segments [size, burst?]"""
    if n <= 0:
        return []
    style = rng.choice(['whole', 'whole', 'bytes', 'chunky', 'random', 'random', 'halves'])
    out = []
    if style == 'whole':
        out = [n]
    elif style == 'bytes' and n <= 400:
        out = [1] * n
    elif style == 'chunky':
        c = rng.choice([127, 128, 129, 8191, 8192, 8193, 64])
        out = [c] * (n // c) + ([n % c] if n % c else [])
    elif style == 'halves':
        out = [n // 2, n - n // 2] if n > 1 else [n]
    else:
        left = n
        while left > 0:
            s = min(left, rng.choice([1, 2, 7, 100, 128, 129, 1000, 8192, 9000, rng.randint(1, max(1, n))]))
            out.append(s)
            left -= s
            if len(out) > 40:
                out.append(left)
                left = 0
    return [[s, rng.random() < 0.15] for s in out if s > 0]


def _fault_free(rng, N, lim=None) -> dict:
    return {'ann': N, 'lim': lim if lim is not None else rng.choice([0, 0, 1, 4096]), 'mode': 'honest',
            'segs': None, 'end': rng.choice(['stall', 'stall', 'eof'])}


def _fill_segs(rng, att, N, off_guess, cut=None):
    """segments for an honest attempt: all missing bytes, or only `cut` of them"""
    missing = max(0, N - off_guess)
    n = missing if cut is None else min(cut, missing)
    att['segs'] = _segmentation(rng, n)


def _gen_dl_cut(rng: random.Random, N: int, k: int, lim: int, end: str) -> dict:
    """cut after k bytes, then a fault-free attempt"""
    a1 = {'ann': N, 'lim': lim, 'mode': 'honest', 'segs': _segmentation(rng, k), 'end': end, 'hs': _hs_split(rng, 4)}
    a2 = _fault_free(rng, N, lim=rng.choice([0, lim]))
    a2['segs'] = _segmentation(rng, N - k)
    a2['hs'] = _hs_split(rng, 4)
    return {'kind': 'dl', 'flen': N, 'mul': rng.choice([1, 3, 7, 11]), 'add': rng.randint(0, 255), 'pre': None,
            'attempts': [a1, a2], 'gen': 'cut'}


def _gen_dl_random(rng: random.Random) -> dict:
    N = rng.choice(SIZES)
    mul, add = rng.choice([1, 3, 7, 11]), rng.randint(0, 255)
    pre = None
    have = 0
    r = rng.random()
    if r < 0.25 and N > 0:
        have = rng.choice([1, N - 1, N, N // 2, min(N, 128)])
        pre = {'len': have, 'mul': mul, 'add': add}
    elif r < 0.32:
        have = rng.choice([1, N + 1, N + 200, max(1, N // 2)])
        pre = {'len': have, 'mul': GMUL, 'add': GADD}         # a foreign file / longer than announced
    atts = []
    honest = pre is None or (pre['mul'], pre['add']) == (mul, add)
    for _ in range(rng.choice([1, 1, 2, 2, 3, 4])):
        lim = rng.choice([0, 0, 0, 1, 1, 50, 4096])
        if N > 9000 and lim == 1:
            lim = 50
        kind = rng.choice(['full', 'full', 'cut', 'cut', 'cut', 'cutinit', 'dishonest', 'dishonest'])
        if kind == 'full':
            a = _fault_free(rng, N, lim)
            _fill_segs(rng, a, N, have)
            if honest:
                have = max(have, N)
        elif kind == 'cut':
            missing = max(0, N - have)
            k = rng.choice([0, 1, missing, max(0, missing - 1), rng.randint(0, max(0, missing)), 127, 128, 129, 8192])
            k = min(k, missing)
            a = {'ann': N, 'lim': lim, 'mode': 'honest', 'segs': _segmentation(rng, k),
                 'end': rng.choice(['reset', 'reset', 'eof', 'stall'])}
            have = have + k if honest else have
        elif kind == 'cutinit':
            a = {'ann': N, 'lim': lim, 'mode': 'honest', 'segs': [], 'end': 'reset', 'cutinit': True}
        else:
            mode = rng.choice(['from0', 'extra', 'extra', 'ann', 'ann', 'short'])
            ann = N
            extra = 0
            if mode == 'ann':
                ann = max(0, N + rng.choice([-1, 1, -128, 128, -N, 5000]))
                mode = 'honest'
            if mode == 'extra':
                extra = rng.choice([1, 127, 128, 8192, 9000])
            n_send = rng.choice([N + extra, N + extra, max(0, N - have) + extra, rng.randint(0, N + extra)])
            if mode == 'short':
                mode = 'honest'
                n_send = rng.randint(0, max(0, N - have))
            a = {'ann': ann, 'lim': lim, 'mode': mode, 'extra': extra, 'segs': _segmentation(rng, n_send),
                 'end': rng.choice(['eof', 'eof', 'stall', 'reset'])}
            honest = honest and mode == 'honest' and ann == N
            have = None if not honest else have
            if have is None:
                have = 0
        if not a.get('cutinit'):
            a['hs'] = _hs_split(rng, 4)
            r2 = rng.random()
            if r2 < 0.06:
                a['end'], a['inflight'] = 'pausew', rng.choice([1, 128, 129, 8192, 9000])
            elif r2 < 0.09:
                a['end'] = 'pause'
            elif r2 < 0.13:
                a['save'], a['end'] = rng.choice([0, 1, 2]), rng.choice(['crash', a['end']])
        if rng.random() < 0.12:
            a['post'] = [rng.choice(['queue', 'pause', 'save', 'crash']) for _ in range(rng.choice([1, 1, 2, 3]))]
        atts.append(a)
    return {'kind': 'dl', 'flen': N, 'mul': mul, 'add': add, 'pre': pre, 'attempts': atts, 'gen': 'random'}


def _segs_with_boundary(rng: random.Random, n: int, boundary: int | None) -> list:
    """segmentation of n bytes; when `boundary` (0 < boundary < n) is given, one segment ends exactly there and the
    reader runs before the next one arrives (a read ends exactly at that byte)"""
    if boundary is None or not (0 < boundary < n):
        return _segmentation(rng, n)
    head = _segmentation(rng, boundary)
    if head:
        head[-1][1] = False
    return head + _segmentation(rng, n - boundary)


CHANGES = ['grow', 'grow', 'grow', 'shrink', 'shrink-below', 'zero', 'replace', 'replace-size']


def _changed_file(rng: random.Random, mul: int, add: int, n: int, have: int, how: str) -> list:
    """the shared file after it changed (pattern pieces); `have` = bytes the downloader holds"""
    if how == 'grow':
        return [(mul, add, 0, n + rng.choice([1, 127, 128, 129, 1920, 6000, 8192, 8193]))]
    if how == 'shrink':            # still at least what the downloader holds
        return [(mul, add, 0, rng.choice([have, min(n, have + 1), max(have, n - 1), max(have, n - 128), max(have, n // 2)]))]
    if how == 'shrink-below':      # shorter than the local file
        return [(mul, add, 0, max(0, rng.choice([have - 1, have - 128, have // 2, 1])))]
    if how == 'zero':
        return [(mul, add, 0, 0)]
    if how == 'replace':           # other content, same size
        return [(mul + 2, (add + 77) % 256, 0, n)]
    return [(mul + 2, (add + 77) % 256, 0, max(0, n + rng.choice([-1, 1, 128, -128, 5000])))]


def _gen_dl_changing(rng: random.Random) -> dict:
    """the remote file (and with it the announced size) changes between the attempts; the uploader is honest in
    every attempt; every segmentation of the retry, in particular a read that ends exactly at the OLD end of file"""
    N = rng.choice([1, 128, 300, 1280, 5120, 8192, 8193, 20000])
    mul, add = rng.choice([1, 3, 7, 11]), rng.randint(0, 255)
    lim1 = rng.choice([0, 0, 1, 50])
    if rng.random() < 0.4:
        k = max(0, N - 128 * rng.randint(1, max(1, N // 128)))      # old end = a multiple of 128 reads away
    else:
        k = rng.choice([0, 1, N - 1, N // 2, rng.randint(0, N)])
    a1 = {'ann': N, 'lim': lim1, 'mode': 'honest', 'segs': _segmentation(rng, k),
          'end': rng.choice(['reset', 'reset', 'eof', 'stall']), 'hs': _hs_split(rng, 4)}
    atts, have, cur, cur_n = [a1], k, None, N
    for _ in range(rng.choice([1, 1, 1, 2])):
        how = rng.choice(CHANGES)
        f = _changed_file(rng, mul, add, cur_n, have, how)
        n2 = total(f)
        lim = rng.choice([0, 0, 1, 50, lim1])
        if n2 - have > 9000 and lim == 1:
            lim = 50
        missing = max(0, n2 - have)
        last = rng.random() < 0.75
        cutk = missing if last else rng.randint(0, missing)
        a = {'ann': n2, 'file': [list(x) for x in f], 'lim': lim, 'mode': 'honest', 'change': how,
             'segs': _segs_with_boundary(rng, cutk, (cur_n - have) if rng.random() < 0.6 else None),
             'end': rng.choice(['stall', 'stall', 'eof']) if last else rng.choice(['reset', 'eof', 'stall']),
             'hs': _hs_split(rng, 4)}
        if lim and rng.random() < 0.5 and a['segs']:
            a['segs'] = [[cutk, False]]          # one burst: the 128-byte reads do the cutting
        atts.append(a)
        if f[0][0] == mul and n2 >= have:
            have = min(n2, have + cutk)
        cur_n = n2
    return {'kind': 'dl', 'flen': N, 'mul': mul, 'add': add, 'pre': None, 'attempts': atts, 'gen': 'changing'}


def _gen_dl_restart(rng: random.Random) -> dict:
    """the cache is written at some moment, the download goes on, the client dies, a new instance resumes"""
    N = rng.choice([1, 300, 1280, 8192, 8193, 20000, 3 * 8192 + 5])
    mul, add = rng.choice([1, 3, 7, 11]), rng.randint(0, 255)
    lim = rng.choice([0, 0, 0, 1, 50])
    if N > 9000 and lim == 1:
        lim = 50
    k = rng.choice([N // 2, N - 1, rng.randint(0, N), min(N, 8192), min(N, 16384), N])
    segs = _segmentation(rng, k)
    groups = sum(1 for s_ in segs if not s_[1]) or len(segs)
    case = {'kind': 'dl', 'flen': N, 'mul': mul, 'add': add, 'pre': None, 'gen': 'restart', 'attempts': []}
    shape = rng.choice(['mid', 'mid', 'mid', 'before', 'after-cut', 'paused', 'twice'])
    a1 = {'ann': N, 'lim': lim, 'mode': 'honest', 'segs': segs, 'end': 'crash', 'hs': _hs_split(rng, 4)}
    if shape == 'before':
        case['pre_ops'] = ['save']                       # saved before the first attempt: no local path stored yet
    elif shape == 'after-cut':
        a1['end'] = rng.choice(['reset', 'eof', 'stall'])
        a1['post'] = rng.choice([['save', 'crash'], ['crash'], ['save', 'crash', 'crash']])
        a1['save'] = rng.randint(0, groups) if rng.random() < 0.6 else None
    elif shape == 'paused':
        a1['end'] = rng.choice(['pause', 'pausew'])
        a1['inflight'] = rng.choice([1, 128, 129, 8192, 9000])
        a1['save'] = rng.randint(0, groups) if rng.random() < 0.5 else None
        a1['post'] = rng.choice([['save', 'crash', 'queue'], ['crash', 'queue'], ['queue', 'save', 'crash']])
    else:
        a1['save'] = rng.randint(0, groups)
    case['attempts'].append(a1)
    if shape == 'twice':
        a2 = {'ann': N, 'lim': lim, 'mode': 'honest', 'segs': _segmentation(rng, rng.randint(0, max(0, N - k))),
              'end': 'crash', 'save': rng.choice([None, 0, 1]), 'hs': _hs_split(rng, 4)}
        case['attempts'].append(a2)
    a3 = _fault_free(rng, N, lim=rng.choice([0, lim]))
    a3['segs'] = _segmentation(rng, N)                   # generous: what exceeds the missing bytes is not sent
    a3['hs'] = _hs_split(rng, 4)
    case['attempts'].append(a3)
    if rng.random() < 0.3:
        a4 = _fault_free(rng, N, lim=0)
        a4['segs'] = _segmentation(rng, N)
        case['attempts'].append(a4)
    return case


def _gen_dl_pause(rng: random.Random) -> dict:
    """pause() — also while a chunk is with the disk-write thread —, queue(), resume"""
    N = rng.choice([1, 129, 300, 8192, 8193, 20000, 3 * 8192 + 5])
    mul, add = rng.choice([1, 3, 7, 11]), rng.randint(0, 255)
    lim = rng.choice([0, 0, 0, 1, 50])
    if N > 9000 and lim == 1:
        lim = 50
    k = rng.choice([0, 1, N // 2, rng.randint(0, N), min(N, 8192), max(0, N - 1)])
    end = rng.choice(['pausew', 'pausew', 'pausew', 'pause'])
    a1 = {'ann': N, 'lim': lim, 'mode': 'honest', 'segs': _segmentation(rng, k), 'end': end,
          'inflight': rng.choice([1, 127, 128, 129, 8191, 8192, 8193, 20000, max(1, N - k)]),
          'hs': _hs_split(rng, 4),
          'post': rng.choice([['queue'], ['queue'], [], ['pause', 'queue'], ['queue', 'pause', 'queue'], ['queue', 'queue']])}
    atts = [a1]
    if rng.random() < 0.3:
        a = {'ann': N, 'lim': lim, 'mode': 'honest', 'segs': _segmentation(rng, rng.randint(0, N)),
             'end': rng.choice(['pausew', 'reset', 'pause']), 'inflight': rng.choice([1, 128, 8192]),
             'hs': _hs_split(rng, 4), 'post': ['queue']}
        atts.append(a)
    a3 = _fault_free(rng, N, lim=rng.choice([0, lim]))
    a3['segs'] = _segmentation(rng, N)
    a3['hs'] = _hs_split(rng, 4)
    if not a1['post']:
        a3['post'] = ['queue']                    # the request is refused while PAUSED; then queue() and once more
        atts.append(a3)
        a3 = dict(a3, post=[])
    atts.append(a3)
    case = {'kind': 'dl', 'flen': N, 'mul': mul, 'add': add, 'pre': None, 'attempts': atts, 'gen': 'pause'}
    if rng.random() < 0.15:
        case['pre_ops'] = rng.choice([['pause', 'queue'], ['pause']])
    return case


BAD_NAMES = ['music\\a\x00b.bin', 'music\\\x00', 'music\\' + 'x' * 300 + '.bin', 'music\\song\x00.mp3\\f.bin',
             'mu\x00sic\\f.bin', 'music\\' + 'é' * 130 + '.bin']


def _gen_dl_name(rng: random.Random, i: int) -> dict:
    """a peer-chosen file name the file system cannot take (monitor only: the attempt must end with a reason)"""
    N = rng.choice([0, 10, 300])
    return {'kind': 'dl', 'flen': N, 'mul': 1, 'add': 0, 'pre': None, 'gen': 'name', 'monitor_only': True,
            'name': BAD_NAMES[i % len(BAD_NAMES)],
            'attempts': [{'ann': N, 'lim': 0, 'mode': 'honest', 'segs': [[N, False]] if N else [], 'end': 'stall'}]}


def _gen_ul(rng: random.Random) -> dict:
    N = rng.choice(SIZES)
    atts = []
    for _ in range(rng.choice([1, 1, 2, 3])):
        lim = rng.choice([0, 0, 1, 4096])
        if N > 9000 and lim:
            lim = 0 if rng.random() < 0.7 else 4096
        off = rng.choice([0, 0, 1, N, N, max(0, N - 1), N + 1, N + 5000, N // 2, rng.randint(0, N), 127, 128, 129])
        if rng.random() < 0.12:
            # offsets that need more than 4 of the 8 bytes on the wire (the file is small: an honest uploader sends
            # nothing and does not complete — unless it reads the offset as another number)
            off = rng.choice(BIG_OFFSETS + [2 ** 32 + N // 2, 2 ** 32 + N, 2 ** 32 + max(0, N - 1),
                                            rng.choice([1, 2, 3, 255]) * 2 ** 32 + rng.randint(0, N)])
        chunk = 128 if lim else 8192
        need = (max(0, N - off) + chunk - 1) // chunk + 1
        kind = rng.choice(['clean', 'clean', 'clean', 'werr', 'early-close', 'early-reset', 'reset-in-wait', 'extra-chunks'])
        if kind == 'clean':
            ops = ['chunk'] * need + ['close']
        elif kind == 'extra-chunks':
            ops = ['chunk'] * (need + 2) + [rng.choice(['close', 'reset'])]
        elif kind == 'werr':
            k = rng.randint(0, need)
            ops = ['chunk'] * k + ['werr'] + ['chunk'] * rng.choice([0, 1])
        elif kind == 'reset-in-wait':
            ops = ['chunk'] * need + ['reset']
        else:
            k = rng.randint(0, max(0, need - 1))
            ops = ['chunk'] * k + ['close' if kind == 'early-close' else 'reset'] + ['chunk'] * rng.choice([1, 2])
        att = {'off': off, 'lim': lim, 'ops': ops, 'hs': _hs_split(rng, 8)}
        if any(o in ('werr', 'reset') for o in ops) and rng.random() < 0.6:
            # how the send of PeerUploadFailed goes: time passes / the downloader asks again meanwhile; it gets out,
            # no connection to the peer can be made, or the connection dies under the write
            att['ntf'] = rng.choice([['noconn'], ['werr'], ['werr'], ['wait', 'told'], ['requeue', 'told'],
                                     ['requeue', 'werr'], ['wait', 'requeue', 'noconn'], ['wait', 'werr']])
        atts.append(att)
    return {'kind': 'ul', 'flen': N, 'mul': rng.choice([1, 3, 7, 11]), 'add': rng.randint(0, 255), 'attempts': atts,
            'gen': 'ul'}


TICKETS = [0, 1, 255, 256, 65535, 65536, 2 ** 24 + 1, 2 ** 31 - 1, 2 ** 31, 2 ** 32 - 2, 2 ** 32 - 1]
OFFSETS = [0, 1, 255, 256, 65535, 65536, 2 ** 24, 2 ** 31, 2 ** 32 - 1, 2 ** 32, 2 ** 32 + 1, 2 ** 32 + 1148576,
           2 ** 33 + 5, 2 ** 40, 2 ** 48 + 2 ** 32 + 9, 2 ** 56 - 1, 2 ** 63 - 1, 2 ** 63, 2 ** 64 - 1]


def _gen_hs(rng: random.Random, i: int) -> dict:
    """one raw hand-shake value through the real reader: every boundary of every byte, any segmentation, file bytes
    following at once, fewer bytes than the value has (the reader must keep waiting)"""
    what = 'ticket' if i % 3 == 0 else 'offset'
    width = 4 if what == 'ticket' else 8
    vals = TICKETS if what == 'ticket' else OFFSETS
    v = vals[(i // 3) % len(vals)] if i < 3 * len(OFFSETS) else \
        rng.choice([rng.randrange(0, 256 ** width), rng.randrange(0, 256 ** rng.randint(1, width))])
    trail = rng.choice([0, 0, 1, 5, 128, 8192])
    k = rng.choice([width, width, width + trail, width + trail, rng.randint(0, width - 1), width - 1,
                    rng.randint(width, width + trail)])
    hs = _hs_split(rng, max(1, k))
    return {'kind': 'hs', 'what': what, 'value': v, 'trail': trail, 'tadd': rng.randint(0, 255), 'k': k,
            'cuts': hs['cuts'] if hs else [k], 'gap': hs['gap'] if hs else 0, 'gen': 'hs'}


def _gen_big(rng: random.Random, i: int) -> dict:
    """a download that was interrupted beyond (or just before) a multiple of 4 GiB and is resumed; sparse files"""
    base = rng.choice([1, 1, 1, 2, 3]) * 2 ** 32
    missing = rng.choice([1, 128, 8192, 8193, 20000, 25 * 8192])
    have = base + rng.choice([0, 1, 5, 300, 1148576, 2 ** 31, -1, -300, -8192])
    cuts = []
    if have < base:
        missing += base - have
        if rng.random() < 0.8:                 # the first attempt is cut: the next resume starts beyond 4 GiB
            cuts.append(base - have + rng.choice([0, 1, 100]))
    elif rng.random() < 0.4:
        cuts.append(rng.choice([0, 1, missing - 1, rng.randint(0, missing)]))
    cuts = [min(c, missing - 1) for c in cuts if missing > 1]
    if i == 0:
        base, have, missing, cuts = 2 ** 32, 2 ** 32 + 1148576, 25 * 8192, []
    lim = rng.choice([0, 0, 0, 4096])
    return {'kind': 'big', 'size': have + missing, 'have': have, 'cuts': cuts, 'mul': rng.choice([1, 3, 7, 11]),
            'add': rng.randint(0, 255), 'lim': lim, 'monitor_only': True, 'gen': 'big'}


# Witnesses of the defects of the unchanged tree (repaired by fixes/C04-*.patch); replayed first in every run.
WITNESSES = [
    ('C04-no-complete-after-full-delivery',      # empty file
     {'kind': 'dl', 'flen': 0, 'mul': 1, 'add': 0, 'pre': None, 'gen': 'witness',
      'attempts': [{'ann': 0, 'lim': 0, 'mode': 'honest', 'segs': [], 'end': 'stall'}]}),
    ('C04-no-complete-after-full-delivery',      # resume with a complete local file
     {'kind': 'dl', 'flen': 300, 'mul': 3, 'add': 1, 'pre': {'len': 300, 'mul': 3, 'add': 1}, 'gen': 'witness',
      'attempts': [{'ann': 300, 'lim': 0, 'mode': 'honest', 'segs': [], 'end': 'stall'}]}),
    ('C04-stuck-processing',
     {'kind': 'dl', 'flen': 10, 'mul': 1, 'add': 0, 'pre': None, 'gen': 'witness',
      'attempts': [{'ann': 10, 'lim': 0, 'mode': 'honest', 'segs': [], 'end': 'reset', 'cutinit': True},
                   {'ann': 10, 'lim': 0, 'mode': 'honest', 'segs': [[10, False]], 'end': 'stall'}]}),
    ('C04-stuck-processing',                     # NUL in the peer-chosen file name (fixed 4bd19b5)
     {'kind': 'dl', 'flen': 10, 'mul': 1, 'add': 0, 'pre': None, 'gen': 'witness', 'monitor_only': True,
      'name': 'music\\a\x00b.bin',
      'attempts': [{'ann': 10, 'lim': 0, 'mode': 'honest', 'segs': [[10, False]], 'end': 'stall'}]}),
    ('C04-pair-not-finished',                    # the downloader learns of the break before the uploader
     {'kind': 'pair', 'flen': 20000, 'cuts': [5000], 'rst_first': 'down', 'rst_delay': 1.0, 'mul': 1, 'add': 0,
      'lim_up': 0, 'lim_down': 0, 'lat_p': 0.02, 'lat_f': 0.02, 'hs_split': None, 'gen': 'witness'}),
    ('C04-pair-not-finished',                    # PeerUploadFailed cannot be delivered, the downloader had asked already (fixed a074a9b)
     {'kind': 'pair', 'flen': 20000, 'cuts': [5000], 'rst_first': 'down', 'rst_delay': 1.0, 'mul': 1, 'add': 0,
      'lim_up': 0, 'lim_down': 0, 'lat_p': 0.02, 'lat_f': 0.02, 'hs_split': None,
      'pfaults': [{'who': 'up', 'n': 1, 'delay': 0}], 'gen': 'witness'}),
    ('C04-complete-but-differs',                 # two uploaders, same ticket (fixed d97c791)
     {'kind': 'pair', 'flen': 20000, 'mul': 1, 'add': 0, 'second': [{'flen': 20000, 'mul': 3, 'add': 9}], 'stagger': 0,
      'lat_f_by': {'up': 0.5}, 'gen': 'witness'}),
]


def _corpus() -> list:
    import json
    out = []
    d = common.CORPUS / 'C04'
    if d.is_dir():
        for p in sorted(d.glob('*.json')):
            c = json.loads(p.read_text())
            out.append(c.get('case', c))
    return out


def _nontrivial(case) -> bool:
    if case['kind'] == 'dl':
        return len(case['attempts']) >= 2 or bool(case.get('pre_ops')) or case.get('monitor_only') or any(a['end'] == 'reset' or a['mode'] != 'honest' or a.get('cutinit')
                                                 for a in case['attempts']) or bool(case.get('pre'))
    if case['kind'] == 'ul':
        return any(a['off'] > 0 or any(o != 'chunk' and o != 'close' for o in a['ops']) for a in case['attempts'])
    if case['kind'] == 'hs':
        return case['value'] >= 256 or case['k'] != (4 if case['what'] == 'ticket' else 8) or len(case['cuts']) > 1
    return True


class C04(Property):
    id = 'C04'
    props_module = 'AioslskVerif.Props.C04'
    driver_module = 'AioslskVerif.Driver.C04'
    rule = ('dl cases: file sizes {0,1,127,128,129,255,256,300,8191,8192,8193,3 chunks(+5)}, (a) every cut point k in '
            '0..size for sizes <= 300 (quick: a seeded third of them, thorough: all; larger sizes sampled) x {reset, '
            'close, stall} followed by a fault-free attempt, (b) random histories of 1..4 attempts over {fault-free, cut '
            'after k bytes, break before the offset went out, dishonest sender: ignores the offset / extra bytes / '
            'other announced size / stops early, pause() with or without a chunk in the disk-write thread, death of the '
            'process after a cache write} with queue() / pause() / write_cache() / restart between the attempts, optional '
            'pre-existing local file (prefix of F, all of F, foreign, longer than announced), (b2) 220 quick / 4000 '
            'thorough "changing" cases: the remote file grows / shrinks (to >= or < the local size) / becomes empty / is '
            'replaced (same or other size) between the attempts of an honest uploader that announces the new size, the '
            'retry segmented with a boundary exactly at the old end of file (60 %), in one burst under a 128-byte-read '
            'limit with the old end a multiple of 128 away, or like (a); 110/2000 "restart" cases (cache written before the '
            'first attempt / after the k-th delivery / after a cut / while PAUSED, more data, process dies — file '
            'truncated to what had reached the OS —, new TransferManager + read_cache(), fault-free attempt); 110/2000 '
            '"pause" cases (pause() with a chunk of 1..20000 bytes in the disk-write thread or while waiting, queue(), '
            'request refused while PAUSED, resume); 6 unusable-name cases (monitor only); '
            'segmentations {whole, byte-wise, 127/128/129/8191/8192/8193-sized, halves, random, '
            'bursts}, the 4-byte ticket arriving whole / byte-wise / split anywhere (0..0.5 s between the pieces), download '
            'limiter off / 1 / 50 / 4096 KiB/s; ul cases (8-byte offset arriving whole / byte-wise / split anywhere): same sizes, offsets {0,1,size-1,size,'
            'size+1,beyond,random,127..129}, limiter on/off, ops {one send_file iteration, write error, peer close, peer '
            'reset} incl. re-attempts after FAILED/COMPLETE; pair cases (40 quick / 400 thorough): two full clients + '
            'simulated server with per-connection latencies, file connection reset after k bytes 0..3 times (the '
            'uploader (2/3) or the downloader (1/3) learns of the reset first, the other end 0..400 s later, so '
            'PeerUploadFailed / the re-queue request arrive before or after), then fault-free; control-plane state '
            'sampled every virtual second around the faults; + 8 / 80 cases with 2-3 uploaders at once (equal / '
            'different sizes, requests 0..2 s apart, one file connection slower; all uploaders share a file of the SAME '
            'name, so the downloads compete for one local name; in half of these cases every thread-pool round trip '
            '— aiofiles, create_directory — suspends its caller for a loop iteration as on a real loop, and most of '
            'those start in the same instant) + 16 / 160 "pfault" cases: the peer '
            'connection(s) that exist when the file connection breaks are broken too — the next control write of the '
            'uploader / the downloader / both on them fails (at once or 0.5 / 5 s later, the first 0..2 writes still get through; the writer is told, nothing '
            'a write had accepted is lost; new connections work), half of them with the downloader learning first and the '
            'uploader\'s next write failing, a quarter with the downloader\'s second / third write failing (its reply to '
            'the next offer), an eighth with all peer connections closed and the downloader unreachable for 5 / 30 / 100 s '
            '(the uploader learns first: PeerUploadFailed takes the whole connection attempt, ~60 s, then fails; the '
            'downloader\'s request arrives meanwhile). ul cases: when a fault '
            'makes the uploader send PeerUploadFailed the send is suspended (60 % of the attempts with a fault): 15 '
            'virtual seconds pass and / or the downloader asks again meanwhile, then it gets out / no connection to the '
            'peer (PeerConnectionError) / the connection dies under the write (ConnectionWriteError); 12 % of the '
            'offsets are >= 2^32-1 (up to 2^40+3: small file, nothing is due). hs cases (150 / 1500): ticket values '
            '{0,1,255,256,65535,65536,2^24+1,2^31-1,2^31,2^32-2,2^32-1} / offset values {..., 2^32-1, 2^32, 2^32+1, '
            '2^32+1148576, 2^33+5, 2^40, 2^48+2^32+9, 2^56-1, 2^63-1, 2^63, 2^64-1} + random, 0..8192 file bytes '
            'following, delivered whole / byte-wise / split anywhere / fewer bytes than the value has. big cases '
            '(24 / 300, monitor only): shared file of m*2^32 + d + missing bytes (m in 1..3, d in {0,1,5,300,1148576,2^31,'
            '-1,-300,-8192}, missing in {1,128,8192,8193,20000,25*8192}), sparse, the downloader holds the first m*2^32+d '
            'bytes, 0..1 cuts (for d < 0 the cut attempt crosses the 4 GiB line), limiter off / 4096. '
            'All from VERIF_SEED. '
            'Non-trivial: >= 2 attempts, or a cut / dishonest sender / pre-existing file / offset > 0 / failure op / user '
            'or restart op; hs: value >= 256 or split / short delivery. Distinct = distinct canonical case')
    assumptions = [
        'the local file is written only by this download (append mode) and the shared file does not change WHILE it is '
        'uploaded (between attempts it may); OS file semantics (append, getsize, seek/read, user-space buffering) are '
        'exercised on real temp files, not modelled: a restart takes the number of bytes that had reached the OS as an '
        'input of the environment (>= the size the file had when the attempt opened it)',
        'TCP is modelled by FakeNet: in-order delivery into a real asyncio.StreamReader, segment boundaries chosen by '
        'the schedule, reset = ConnectionResetError on both ends (unread bytes are lost), close = EOF after the '
        'buffered bytes; write back-pressure is not simulated',
        'aiofiles runs inline (SimLoop executor: the call is atomic for the caller) except in the pause-in-write '
        'cases, where a write is performed at once and its completion is withheld, and in half of the multi-uploader '
        'pair cases, where every executor call completes one loop iteration later (the caller is suspended, other '
        'tasks run in between; the work itself is still done at the moment of the call); time is virtual; the 180 s transfer read time-out is the only timer '
        'that matters at loop level and is exercised by the "stall" ending',
        'abort(), removal and re-queueing a COMPLETE download (a NEW file, C09) are out of scope here (C03, C06); an '
        'honest uploader announces the size the file has when the attempt starts and sends the file from the offset it '
        'was sent; when the remote file changed between attempts nothing is claimed about the bytes before the offset '
        '(the protocol cannot compare them) nor about any outcome other than "not COMPLETE" when the file became '
        'shorter than the local file',
        'pair level: faults are RESETS of the file connection (either end first, any delay), optionally together with '
        'the peer connections that exist at that moment: their next control write fails and the WRITER IS TOLD '
        '(ConnectionWriteError), messages a write had accepted are delivered, new connections work. Silent loss of an '
        'accepted control message is not repairable without acknowledgements and is not generated; nor is a queue '
        'request that cannot be delivered over a NEW connection while the download is already QUEUED (it changes no '
        'state, so no management cycle retries it: side observation, replay instrument `pwrites`). A downloader that gives '
        'up by its own read time-out closes the connection in an orderly way: if its re-queue request overtakes that '
        'close the uploader ignores it and then takes the close for the end of a complete upload — not repairable '
        'without a protocol change; silent stalls are not generated at pair level',
        'hand-shake values: numbers are unbounded in the model; the theorems cover tickets < 2^32 and offsets < 2^64 '
        '(what the senders can write), the real readers are exercised up to 2^32-1 / 2^64-1, the real seek + send with '
        'offsets up to 2^40+3 on small files (model-compared) and with real sparse files of up to 3*2^32+2^31 bytes '
        '(big cases, monitor only; only the regions around the resume point hold data). Offsets the OS cannot seek to '
        '(>= 16 TiB on ext4: OSError -> FAILED "File read error"; >= 2^63: see fixes/C04-unseekable-offset.md) are not '
        'generated: no honest downloader has such a file',
        'Lean control-plane model (FileXfer.Ctl): tickets are not modelled (a stale reply is accepted: more behaviours); '
        'C04_pair_progress_partial starts from quiescent states; that every fair fault-free continuation reaches '
        'quiescence is exercised (3600 virtual seconds per pair), not proved; the tie of the control-plane model is the '
        'invariant evaluated on sampled real states, not an exact trace correspondence',
    ]
    modelled = ('PeerConnection.receive_file / send_file / receive_until_eof (loops, chunk sizes 128 / 8192 from the '
                'regenerated limiter constants, EOF / error outcomes); TransferManager._on_peer_transfer_request '
                '(download branch: accept / refuse COMPLETE, PAUSED / ignore while processing), _initialize_download from the '
                'announced size and the offset on (filesize = request.filesize, offset = local file size whatever the '
                'counter says, bytes_transfered = offset, failure to send the offset), '
                '_download_file (remaining = filesize - offset, outcome by is_transfered), the cancellation of the download '
                'task by pause() inside the disk write (chunk written, not counted), Paused/Incomplete/FailedState.queue, '
                'write_cache / read_cache (persisted state, counter, size, path; DOWNLOADING restored as INCOMPLETE / '
                'COMPLETE), _initialize_upload from the '
                'received offset on, _upload_file (seek, send loop, write error, EOF wait, read error in the EOF wait, '
                'FAILED before PeerUploadFailed is sent, the send as a suspension point with its three outcomes — sent / '
                'PeerConnectionError / ConnectionWriteError -> a still FAILED upload is re-queued —, a re-request during '
                'the send, outcome by is_transfered), Transfer.is_transfered / progress callback; the raw hand-shake '
                'values (FileXfer.Wire: what the senders write — uint32 ticket, uint64 offset —, how many bytes '
                'receive_transfer_ticket / receive_transfer_offset take from the stream and how many of them they decode: '
                'REGENERATED from the behaviour of the two readers, Generated/XferWire.lean); control plane '
                '(FileXfer.Ctl): manage_transfers re-queue decision + remotely_queued, _on_peer_transfer_queue, '
                '_on_peer_transfer_request / reply, _on_peer_upload_failed, hand-shake time-outs, reset_queue_vars, '
                'control writes that fail (PeerUploadFailed undeliverable -> upload re-queued; PeerTransferQueue / '
                'PeerTransferReply that cannot be written -> download back to QUEUED). '
                'Exercised, not modelled: _on_peer_initialized, time passing between the pieces of a hand-shake value '
                '(the model sees which prefix has arrived), the (username, ticket) matching of file connections (multi-uploader pair '
                'cases), aiofiles / Python file buffering, '
                'the transfer state classes, rate limiter timing (C20), naming (C09), full clients + server '
                '(pair cases)')

    def regenerate(self):
        return [rate_constants.generate(common.REPO, common.LEAN), xfer_wire.generate(common.REPO, common.LEAN)]

    def _cases(self, seed, tier, widen):
        rng = random.Random(f'C04-{seed}')
        quick = tier == 'quick'
        cases = [c for _s, c in WITNESSES]
        cases += [c for c in _corpus() if c not in cases]
        n_fixed = len(cases)
        # (a) cut points
        for N in SMALL:
            ks = list(range(0, N + 1))
            if quick and widen == 1:
                ks = sorted(set(rng.sample(ks, max(1, len(ks) // 3)) + [0, N, max(0, N - 1), min(N, 128), min(N, 127)]))
            for k in ks:
                lim = rng.choice([0, 0, 1, 4096])
                cases.append(_gen_dl_cut(rng, N, k, lim, rng.choice(['reset', 'reset', 'eof', 'stall'])))
        for N in [8191, 8192, 8193, 3 * 8192]:
            for k in sorted(set([0, 1, 127, 128, 129, 8191, 8192, 8193, N - 1, N] +
                                [rng.randint(0, N) for _ in range(6 if quick else 60)])):
                if k <= N:
                    cases.append(_gen_dl_cut(rng, N, k, rng.choice([0, 0, 50, 4096]),
                                             rng.choice(['reset', 'reset', 'eof', 'stall'])))
        # (b) random histories, (c) uploads
        cases += [_gen_dl_random(rng) for _ in range((500 if quick else 9000) * widen)]
        # (b2) the remote file changes between attempts; restarts from a cache written mid-download; pause / queue
        cases += [_gen_dl_changing(rng) for _ in range((220 if quick else 4000) * widen)]
        cases += [_gen_dl_restart(rng) for _ in range((110 if quick else 2000) * widen)]
        cases += [_gen_dl_pause(rng) for _ in range((110 if quick else 2000) * widen)]
        cases += [_gen_dl_name(rng, i) for i in range(len(BAD_NAMES))]
        cases += [_gen_ul(rng) for _ in range((350 if quick else 6000) * widen)]
        # (c2) the raw hand-shake values through the real readers; resumes beyond 4 GiB (sparse files)
        cases += [_gen_hs(rng, i) for i in range((150 if quick else 1500) * widen)]
        cases += [_gen_big(rng, i) for i in range((24 if quick else 300) * widen)]
        # (d) pairs
        try:
            from props import c04_pair
            cases += c04_pair.gen_cases(rng, (40 if quick else 400) * widen)
        except ImportError:
            pass
        return cases, n_fixed

    def correspondence(self, seed, tier, model_ok, widen=1):
        res = KResult()
        cases, n_fixed = self._cases(seed, tier, widen)
        results = common.parallel_map(_eval_case, cases, chunksize=4)
        model = None
        if model_ok:
            lines, spans = [], []
            for (_obs, ml, _vs) in results:
                spans.append((len(lines), len(ml)))
                lines += ml
            out = common.run_driver(self.driver_file, lines)
            model = [out[a:a + k] for a, k in spans]
        else:
            res.model_available = False
        for i, c in enumerate(cases):
            obs, ml, vs = results[i]
            res.evaluations += 1
            res.count('kind:' + c['kind'])
            res.count('gen:' + c.get('gen', '?'))
            if 'flen' in c:
                res.count(f"size:{c['flen']}")
            if c['kind'] == 'hs':
                res.count(f"hs:{c['what']}:" + ('short' if c['k'] < (4 if c['what'] == 'ticket' else 8) else
                                                 '>=2^32' if c['value'] >= 2 ** 32 else '>=2^16' if c['value'] >= 65536
                                                 else 'small'))
                res.count('hs:delivery=' + ('whole' if len(c['cuts']) == 1 else 'split'))
            if c['kind'] == 'big':
                res.count(f"big:resume-at-{'>=' if c['have'] >= 2 ** 32 else '<'}4GiB:cuts={len(c['cuts'])}")
            for a in c.get('attempts', []):
                if c['kind'] == 'dl':
                    res.count('dl-attempt:end=' + ('cutinit' if a.get('cutinit') else a['end']))
                    if a.get('change'):
                        res.count('dl-attempt:remote-file=' + a['change'])
                    if a.get('save') is not None:
                        res.count('dl-attempt:cache-saved-mid-download')
                    for o in a.get('post', []):
                        res.count('dl-post-op:' + o)
                    res.count('dl-attempt:mode=' + a['mode'] + ('' if a['ann'] == c['flen'] else '+other-size'))
                    res.count('dl-attempt:limiter=' + ('on' if a.get('lim') else 'off'))
                    res.count('dl-attempt:ticket=' + ('whole' if not a.get('hs') else 'bytewise' if
                                                      a['hs']['cuts'] == [1] * 4 else 'split'))
                elif c['kind'] == 'ul':
                    res.count('ul-attempt:limiter=' + ('on' if a.get('lim') else 'off'))
                    res.count('ul-attempt:offset-bytes=' + ('whole' if not a.get('hs') else 'bytewise' if
                                                            a['hs']['cuts'] == [1] * 8 else 'split'))
                    res.count('ul-attempt:offset=' + ('0' if a['off'] == 0 else 'size' if a['off'] == c['flen'] else
                                                      '>=2^32' if a['off'] >= 2 ** 32 else
                                                      'beyond' if a['off'] > c['flen'] else 'inside'))
                    if a.get('ntf'):
                        res.count('ul-attempt:PeerUploadFailed=' + '+'.join(a['ntf']))
                    for o in set(a['ops']):
                        res.count('ul-op:' + o)
            for o in obs:
                if o and not o.startswith('h='):
                    res.count('obs:' + o.split(' ')[0])
            if _nontrivial(c):
                res.nontrivial_keys.add(common.sha(c))
            res.violations += vs
            if any(o and (o.startswith('HARNESS-EXC')) for o in obs):
                # the real code raised where the harness drives it directly: never silent — the case counts as
                # a broken correspondence (failing-input search follows)
                res.notes.append(f'harness exception: {obs[-1][:300]} on {str(c)[:200]}')
                res.disagreements.append(Disagreement(c, obs[-1][:300], None, 'exception while driving the real code'))
                continue
            if model is not None and c['kind'] != 'pair' and not c.get('monitor_only'):
                res.traces_validated += 1
                mo = model[i]
                cmp_obs = obs       # an exception that escaped into the event loop shows as an extra line
                bad = None
                if len(mo) != len(cmp_obs):
                    bad = min(len(mo), len(cmp_obs))
                else:
                    for j, (a, b) in enumerate(zip(mo, cmp_obs)):
                        if b is not None and a != b:
                            bad = j
                            break
                if bad is not None:
                    res.disagreements.append(Disagreement(
                        c, cmp_obs[bad] if bad < len(cmp_obs) else None, mo[bad] if bad < len(mo) else None,
                        f'line #{bad}: {ml[bad] if bad < len(ml) else ""}'))
            elif c['kind'] == 'pair' or c.get('monitor_only'):
                res.traces_validated += 1
                if model is not None and c['kind'] == 'pair':
                    # the invariant of `C04_pair_no_requeue_lost`, evaluated by the Lean definitions on every sampled
                    # control-plane state of the real pair
                    for j, (line, mo) in enumerate(zip(ml, model[i])):
                        res.count('pair-sample:' + ' '.join(line.split(' ')[1:4]))
                        if not mo.startswith('inv=1'):
                            res.disagreements.append(Disagreement(
                                c, line, mo, f'sample #{j}: the real pair is in a state the control-plane model '
                                'cannot reach (invariant of C04_pair_no_requeue_lost)'))
                            break
            if len(res.samples) < 3 and i >= n_fixed and len(str(c)) < 400 and _nontrivial(c):
                res.samples.append({'case': c, 'impl': obs[:12]})
        return res

    def replay(self, case):
        return _eval_case(case)[2]

    def known_witnesses(self):
        # the findings of the unchanged tree are repaired by fixes/C04-*.patch (no `known` entry): their
        # witnesses run first in every correspondence run instead
        return []


PROPERTY = C04()
