"""C09 — peer-chosen names never escape the download directory or clobber a file.

Correspondence K_C09 + monitor (see DESIGN.md, C09; model lean/AioslskVerif/Model/Naming.lean).

Two kinds of cases, both on REAL temp directories:

* ``chain``: the real ``SharesManager.calculate_download_path`` (→ ``chain_strategies`` → the shipped
  strategies) for a strategy list over D(efault) K(eep-directory) N(umber-duplicate) in any order, a
  remote path built from a hostile component alphabet, and a pre-populated download directory.
* ``conc``: 2..3 real ``TransferManager._download_file`` tasks (real ``Transfer`` objects and state
  machine, real aiofiles) on a ``GatedLoop``: every executor call (``aiofiles.os.path.exists``,
  ``makedirs``, ``aiofiles.open``, ``write``, ``close``) is parked until the schedule releases it, so the
  schedule decides how the start-ups interleave.
"""
from __future__ import annotations

import asyncio
import itertools
import logging
import os
import random
import shutil
import tempfile
import types

from vlib import common
from vlib.common import KResult, Violation, Disagreement, Property
from vlib.simloop import SimLoop, settle

LETTER = {'D': 'DefaultNamingStrategy', 'K': 'KeepDirectoryStrategy', 'N': 'NumberDuplicateStrategy'}


# ------------------------------------------------------------------------------------------------
# encoding shared with the Lean driver
# ------------------------------------------------------------------------------------------------

def enc_name(s: str) -> str:
    return '.'.join(str(ord(c)) for c in s) if s else '-'


def enc_path(parts) -> str:
    return '/'.join(enc_name(p) for p in parts) if parts else '~'


def enc_entry(kind: str, parts, name: str) -> str:
    return f'{kind}:{enc_path(parts)}:{enc_name(name)}'


def _strategies(letters: str):
    import aioslsk.naming as naming
    return [getattr(naming, LETTER[c])() for c in letters]


# ------------------------------------------------------------------------------------------------
# real directory helpers
# ------------------------------------------------------------------------------------------------

def _populate(dl: str, tree: list):
    os.makedirs(dl, exist_ok=True)
    for kind, parts, name in tree:
        d = os.path.join(dl, *parts) if parts else dl
        os.makedirs(d, exist_ok=True)
        p = os.path.join(d, name)
        if kind == 'd':
            os.makedirs(p, exist_ok=True)
        elif not os.path.lexists(p):
            with open(p, 'wb') as f:
                f.write(b'old')


def _dump_tree(dl: str) -> list[str]:
    out = []
    for root, dirs, files in os.walk(dl):
        rel = os.path.relpath(root, dl)
        parts = [] if rel == '.' else rel.split(os.sep)
        for d in dirs:
            out.append(enc_entry('d', parts, d))
        for f in files:
            out.append(enc_entry('f', parts, f))
    return sorted(out)


def _tree_lines(tree: list) -> str:
    """`fs` line for the driver: every directory on the way is an entry too (as on disk)."""
    ents = set()
    for kind, parts, name in tree:
        for k in range(len(parts)):
            ents.add(enc_entry('d', parts[:k], parts[k]))
        ents.add(enc_entry(kind, parts, name))
    return 'fs ' + ' '.join(sorted(ents))


def _split_result(dl: str, path: str):
    """Directory returned by the code → components below the download dir (textual, NOT normalised)."""
    if path == dl:
        return []
    if path.startswith(dl + os.sep):
        return [c for c in path[len(dl) + 1:].split(os.sep) if c != '']
    return None


def _fmt(kind: str, dl: str, d: str, n: str) -> str:
    parts = _split_result(dl, d)
    if parts is None:
        return f'{kind} ABS:{d!r} {enc_name(n)}'
    return f'{kind} {enc_path(parts)} {enc_name(n)}'


def _exc_obs(e: BaseException) -> str:
    if isinstance(e, IndexError):
        return 'err noName'
    if isinstance(e, ValueError):
        return 'err emptyName'
    return f'EXC {type(e).__name__}'


def _make_managers(dl: str, letters: str):
    from aioslsk.settings import Settings
    from aioslsk.events import EventBus
    from aioslsk.shares.manager import SharesManager
    settings = Settings(credentials={'username': 'u', 'password': 'p'}, shares={'download': dl})
    bus = EventBus()
    net = types.SimpleNamespace()
    sm = SharesManager(settings, bus, net)
    sm.naming_strategies = _strategies(letters)
    return settings, bus, net, sm


# ------------------------------------------------------------------------------------------------
# monitor pieces (the property statement, on what the real code returned / did)
# ------------------------------------------------------------------------------------------------

def _strictly_inside(dl: str, full: str) -> bool:
    """Lexical walk from the download directory: never above it, and ends at least one level below."""
    if not (full == dl or full.startswith(dl + os.sep)):
        return False
    depth = 0
    for c in full[len(dl):].split(os.sep):
        if c in ('', '.'):
            continue
        if c == '..':
            depth -= 1
            if depth < 0:
                return False
        else:
            depth += 1
    return depth >= 1


def _check_choice(case, dl: str, d: str, n: str, existed: bool, letters: str) -> list[Violation]:
    vs = []
    full = os.path.join(d, n)
    norm = os.path.normpath(full)
    if n in ('', '.', '..') or os.sep in n:
        vs.append(Violation('C09-irregular-name', f'file name chosen is {n!r}', case,
                            observed={'dir': os.path.relpath(d, dl), 'name': n},
                            required="a regular file name (not '', '.', '..', no separator)"))
    if not _strictly_inside(dl, full):
        vs.append(Violation('C09-escape', f'chosen path {os.path.relpath(norm, dl)!r} is not strictly inside the '
                            'download directory', case, observed={'dir': d.replace(dl, '<dl>'), 'name': n},
                            required='strictly inside the download directory'))
    if letters.endswith('N') and existed:
        vs.append(Violation('C09-not-fresh', 'chain ends in NumberDuplicateStrategy but the chosen path exists',
                            case, observed={'dir': d.replace(dl, '<dl>'), 'name': n}, required='path does not exist yet'))
    return vs


# ------------------------------------------------------------------------------------------------
# chain cases
# ------------------------------------------------------------------------------------------------

def _run_chain(case: dict):
    tmp = tempfile.mkdtemp(prefix='c09-')
    try:
        dl = os.path.join(tmp, 'dl')
        _populate(dl, case['tree'])
        _s, _b, _n, sm = _make_managers(dl, case['strategies'])
        vs: list[Violation] = []
        try:
            d, n = sm.calculate_download_path(case['remote'])
        except Exception as e:
            return [_exc_obs(e)], vs
        existed = os.path.lexists(os.path.join(d, n))
        vs += _check_choice(case, dl, d, n, existed, case['strategies'])
        return [_fmt('ok', dl, d, n)], vs
    finally:
        shutil.rmtree(tmp, ignore_errors=True)


def _chain_lines(case: dict) -> list[str]:
    return [_tree_lines(case['tree']), f"chain {case['strategies'] or '-'} {enc_name(case['remote'])}"]


# ------------------------------------------------------------------------------------------------
# concurrent cases
# ------------------------------------------------------------------------------------------------

class GatedLoop(SimLoop):
    """Executor calls are parked until the schedule releases them (per library task)."""

    def __init__(self):
        super().__init__()
        self.jobs: list = []

    def run_in_executor(self, executor, func, *args):
        fut = self.create_future()
        t = asyncio.current_task(self)
        self.jobs.append((t.get_name() if t else None, fut, func, args))
        return fut

    def release(self, name: str) -> bool:
        for k, (owner, fut, func, args) in enumerate(self.jobs):
            if owner == name:
                del self.jobs[k]
                if fut.done():
                    return self.release(name)
                try:
                    fut.set_result(func(*args))
                except BaseException as e:  # noqa
                    fut.set_exception(e)
                return True
        return False


class _StubConnection:
    """Stands in for the file connection: delivers the payload in two chunks through the real handle."""

    def __init__(self, payload: bytes):
        self.payload = payload
        self.username = 'peer'

    def set_connection_state(self, state):
        pass

    async def disconnect(self, *a, **k):
        pass

    async def receive_file(self, handle, filesize, callback=None):
        half = max(1, len(self.payload) // 2)
        for chunk in (self.payload[:half], self.payload[half:]):
            if chunk:
                await handle.write(chunk)
                if callback is not None:
                    callback(chunk)


def _payload(i: int) -> bytes:
    return (f'<{i}>'.encode()) * 3


async def _conc_main(loop: GatedLoop, case: dict, dl: str, tmp: str):
    from aioslsk.transfer.manager import TransferManager
    from aioslsk.transfer.model import Transfer, TransferDirection
    from aioslsk.transfer.state import TransferState
    letters = case['strategies']
    settings, bus, net, sm = _make_managers(dl, letters)
    tm = TransferManager(settings, bus, types.SimpleNamespace(), sm, net)
    vs: list[Violation] = []
    choices = []
    real_calc = sm.calculate_download_path

    def recording_calc(remote_path):
        d, n = real_calc(remote_path)
        choices.append((d, n, os.path.lexists(os.path.join(d, n))))
        return d, n

    sm.calculate_download_path = recording_calc
    transfers, tasks = {}, {}
    finished: set = set()
    obs, model_lines = [], [_tree_lines(case['tree'])]
    obs.append('ok')

    def active():
        return {i: t for i, t in transfers.items()
                if i in tasks and not tasks[i].done() and t.local_path is not None}

    async def observe():
        await settle()
        for i, task in tasks.items():
            if task.done() and i not in finished:
                finished.add(i)
                model_lines.append(f'finish {i}')
                obs.append('done')
        act = []
        for i, t in active().items():
            d, n = os.path.split(t.local_path)
            parts = _split_result(dl, d)
            act.append(f"{i}:{enc_path(parts) if parts is not None else 'ABS'}:{enc_name(n)}")
        obs.append('active ' + ','.join(sorted(act)) + ' fs ' + ','.join(_dump_tree(dl)))
        model_lines.append('dump')
        # monitor: two downloads active at the same time never hold the same local path
        if letters.endswith('N'):
            seen = {}
            for i, t in active().items():
                key = os.path.normpath(t.local_path)
                if key in seen:
                    vs.append(Violation('C09-same-path-concurrent',
                                        f'downloads {seen[key]} and {i} are active with the same local path '
                                        f'{os.path.relpath(key, dl)!r}', case,
                                        observed={str(j): os.path.relpath(x.local_path, dl) for j, x in active().items()},
                                        required='distinct local paths'))
                seen[key] = i

    for op in case['schedule']:
        if op[0] == 'spawn':
            i = op[1]
            tr = Transfer('user%d' % i, case['downloads'][i], TransferDirection.DOWNLOAD)
            tr.state = TransferState.init_from_state(TransferState.INITIALIZING, tr)
            tr.filesize = len(_payload(i))
            await tm.add(tr)
            transfers[i] = tr
            n_before = len(choices)
            tasks[i] = loop.create_task(tm._download_file(tr, _StubConnection(_payload(i))), name=f'dl-{i}')
            await settle()
            model_lines.append(f"start {i} {letters or '-'} {enc_name(case['downloads'][i])}")
            task = tasks[i]
            if tr.local_path is None:
                exc = task.exception() if task.done() else None
                obs.append(_exc_obs(exc) if exc is not None else 'EXC no-path-no-exception')
            else:
                d, n = os.path.split(tr.local_path)
                failed = task.done() and tr.state.VALUE == TransferState.FAILED
                obs.append(_fmt('oserror' if failed else 'chosen', dl, d, n))
                for (cd, cn, existed) in choices[n_before:]:
                    vs.extend(_check_choice(case, dl, cd, cn, existed, letters))
        elif op[0] == 'release':
            loop.release(f'dl-{op[1]}')
        await observe()
    # drain: let every download finish, round-robin
    for _ in range(200):
        if all(t.done() for t in tasks.values()):
            break
        for i in list(tasks):
            loop.release(f'dl-{i}')
        await observe()
    for i, task in tasks.items():
        if task.done() and not task.cancelled():
            task.exception()       # retrieved
    # monitor: nothing was created outside the download directory, nothing was clobbered
    outside = sorted(os.listdir(tmp))
    if outside != ['dl']:
        vs.append(Violation('C09-escape', f'files created outside the download directory: {outside}', case,
                            observed=outside, required=['dl']))
    if letters.endswith('N'):
        for i, tr in transfers.items():
            if tr.local_path and tasks[i].done() and tr.state.VALUE == TransferState.COMPLETE:
                try:
                    data = open(tr.local_path, 'rb').read()
                except OSError:
                    data = None
                if data != _payload(i):
                    vs.append(Violation('C09-clobbered', f'download {i} completed but its file holds {data!r}', case,
                                        observed=repr(data), required=repr(_payload(i))))
        for kind, parts, name in case['tree']:
            if kind == 'f':
                p = os.path.join(dl, *parts, name)
                try:
                    if open(p, 'rb').read() != b'old':
                        vs.append(Violation('C09-clobbered', f'pre-existing file {os.path.relpath(p, dl)!r} was modified',
                                            case, required='untouched'))
                except OSError:
                    vs.append(Violation('C09-clobbered', f'pre-existing file {os.path.relpath(p, dl)!r} vanished', case))
    return obs, vs, model_lines


def _run_conc(case: dict):
    tmp = tempfile.mkdtemp(prefix='c09-')
    loop = GatedLoop()
    logging.disable(logging.CRITICAL)
    try:
        dl = os.path.join(tmp, 'dl')
        _populate(dl, case['tree'])
        asyncio.set_event_loop(loop)
        obs, vs, lines = loop.run_until_complete(_conc_main(loop, case, dl, tmp))
        return obs, vs, lines
    finally:
        try:
            pending = [t for t in asyncio.all_tasks(loop) if not t.done()]
            for t in pending:
                t.cancel()
            for _ in range(50):
                if not loop.jobs:
                    break
                owner = loop.jobs[0][0]
                loop.release(owner)
            if pending:
                loop.run_until_complete(asyncio.gather(*pending, return_exceptions=True))
        except BaseException:
            pass
        asyncio.set_event_loop(None)
        loop.close()
        logging.disable(logging.NOTSET)
        shutil.rmtree(tmp, ignore_errors=True)


# ------------------------------------------------------------------------------------------------
# generator
# ------------------------------------------------------------------------------------------------

SPECIAL = ['..', '.', '', '@@x', '@@', '@@abc', 'C:', 'c:', 'z:x', 'é:', '1:', '@', '...', '..x', '.x', 'x..']
PLAIN = ['dir', 'sub', 'Music', 'a b', 'ünï', '日本語', 'x (1)', 'q', 'L' * 120]
FILES = ['x', 'x.mp3', 'song.flac', 'a.b.c', '.hidden', 'x.', 'x (1).mp3', 'x (1)', 'ünï.ogg', '日本語.flac',
         'tab\tname', ' ', 'x (2).mp3', 'noext', '..', '.', '...', '(1)', 'x ()', 'W' * 300]
SEPS = ['\\', '\\', '\\', '/', '\\\\', '//', '\\/', '/\\\\']
CHAINS = ['DN', 'DN', 'DKN', 'DKN', 'KDN', 'DNK', 'NDK', 'NKD', 'KND', 'D', 'DK', 'KD', 'K', 'N', '', 'DKKN', 'DNN',
          'NDN', 'DD', 'KN', 'NK', 'DNKN']


def _variants(rng: random.Random, fname: str) -> list[str]:
    stem, ext = os.path.splitext(fname)
    ks = rng.sample([0, 1, 1, 2, 3, 4, 5, 7, 10, 11, 99, 1000], rng.randint(0, 5))
    out = [fname] if rng.random() < 0.75 else []
    for k in ks:
        out.append(f'{stem} ({k}){ext}')
    extra = [f'{stem} (01){ext}', f'{stem} (2){ext}.bak', f'{stem} (){ext}', f'{stem} (x){ext}', f'{stem}(3){ext}',
             f'{stem} (3) copy{ext}', f'{stem} (6', f'{stem.upper()} (1){ext}', f'{stem} (1)', f'{stem} (12)']
    out += rng.sample(extra, rng.randint(0, 3))
    return [o for o in out if o not in ('', '.', '..') and len(o.encode()) < 250 and '/' not in o]


def _gen_remote(rng: random.Random, fname: str | None = None) -> tuple[str, list[str]]:
    comps = []
    for _ in range(rng.choice([0, 1, 1, 2, 2, 3, 4])):
        comps.append(rng.choice(SPECIAL) if rng.random() < 0.55 else rng.choice(PLAIN))
    comps.append(fname if fname is not None else rng.choice(FILES))
    if rng.random() < 0.2:
        comps += rng.choice([['..'], ['.'], [''], ['..', '..'], ['.', '']])
    s = ''
    if rng.random() < 0.3:
        s += rng.choice(SEPS)
    for k, c in enumerate(comps):
        s += c
        if k < len(comps) - 1:
            s += rng.choice(SEPS)
    if rng.random() < 0.15:
        s += rng.choice(SEPS)
    return s, comps


def _gen_tree(rng: random.Random, remotes: list[list[str]], short: bool) -> list:
    tree = []
    for comps in remotes:
        usable = [c for c in comps if c not in ('', '.', '..')]
        if not usable:
            continue
        fname = usable[-1]
        if len(fname.encode()) > 200:
            continue
        dirs = [[]]
        if len(usable) > 1 and len(usable[-2].encode()) < 200:
            dirs.append([usable[-2]])
        if rng.random() < 0.15 and len(usable) > 1:
            dirs.append([usable[-2], usable[-2]])
        for d in dirs:
            if rng.random() < 0.7:
                for v in _variants(rng, fname):
                    tree.append(['d' if rng.random() < 0.12 else 'f', d, v])
            if rng.random() < 0.2:
                for v in _variants(rng, ''):
                    tree.append(['f', d, v])
        if rng.random() < 0.08 and len(usable) > 1:
            tree.append(['f', [], usable[-2]])        # a file where keep-directory wants a directory
    rng.shuffle(tree)
    kinds: dict = {}
    for kind, d, n in tree:
        key = tuple(d) + (n,)
        if key in kinds or any(kinds.get(key[:k]) == 'f' for k in range(1, len(key))):
            continue
        for k in range(1, len(key)):
            kinds.setdefault(key[:k], 'd')
        kinds[key] = kind
    return [[kind, list(key[:-1]), key[-1]] for key, kind in sorted(kinds.items())]


def _gen_chain_case(rng: random.Random) -> dict:
    remote, comps = _gen_remote(rng)
    if rng.random() < 0.04:
        remote, comps = rng.choice([('', ['']), ('\\', ['']), ('..', ['..']), ('.\\..', ['.', '..'])])
    letters = rng.choice(CHAINS) if rng.random() < 0.8 else ''.join(rng.choice('DKN') for _ in range(rng.randint(1, 4)))
    return {'kind': 'chain', 'strategies': letters, 'remote': remote, 'tree': _gen_tree(rng, [comps], False)}


def _gen_conc_case(rng: random.Random) -> dict:
    n = rng.choice([2, 2, 3])
    fname = rng.choice([f for f in FILES if len(f) < 50 and f not in ('..', '.', '...')])
    remotes, compss = [], []
    for _ in range(n):
        r, c = _gen_remote(rng, fname if rng.random() < 0.85 else rng.choice(FILES[:8]))
        c = [x if len(x) < 100 else 'longdir' for x in c]
        r = r.replace('L' * 120, 'longdir')
        remotes.append(r)
        compss.append(c)
    letters = rng.choice(['DN', 'DN', 'DKN', 'DKN', 'KDN', 'NDN', 'DKKN', 'DNN', 'D', 'DK', 'DNK'])
    order = list(range(n))
    rng.shuffle(order)
    sched, spawned = [], []
    for i in order:
        sched.append(['spawn', i])
        spawned.append(i)
        for _ in range(rng.choice([0, 0, 0, 1, 2, 3, 6])):
            sched.append(['release', rng.choice(spawned)])
    return {'kind': 'conc', 'strategies': letters, 'downloads': remotes, 'schedule': sched,
            'tree': _gen_tree(rng, compss, True) if rng.random() < 0.7 else []}


# Witnesses of the defects of the unchanged tree (repaired by fixes/C09-*.patch); replayed every run.
WITNESSES = [
    ('C09-escape', {'kind': 'chain', 'strategies': 'DKN', 'remote': 'a\\..\\x.mp3', 'tree': []}),
    ('C09-irregular-name', {'kind': 'chain', 'strategies': 'D', 'remote': 'a\\..', 'tree': []}),
    ('C09-irregular-name', {'kind': 'chain', 'strategies': 'K', 'remote': 'a\\b', 'tree': []}),
    ('C09-same-path-concurrent', {'kind': 'conc', 'strategies': 'DN', 'downloads': ['a\\x.mp3', 'b\\x.mp3'],
                                  'schedule': [['spawn', 0], ['spawn', 1]], 'tree': []}),
    ('C09-escape', {'kind': 'conc', 'strategies': 'DKN', 'downloads': ['a\\..\\x.mp3'],
                    'schedule': [['spawn', 0]], 'tree': []}),
]


def _corpus() -> list:
    import json
    out = []
    d = common.CORPUS / 'C09'
    if d.is_dir():
        for p in sorted(d.glob('*.json')):
            c = json.loads(p.read_text())
            out.append(c.get('case', c))
    return out


def _eval_case(case):
    """→ (impl observations, violations, model lines)"""
    try:
        if case['kind'] == 'chain':
            obs, vs = _run_chain(case)
            return ['ok'] + obs, vs, _chain_lines(case)
        return _run_conc(case)
    except Exception as e:       # harness trouble is reported as an observation, not hidden
        return [f'HARNESS-EXC {type(e).__name__}: {e}'], [], ['dump']


def _nontrivial(case, obs) -> bool:
    if case['kind'] == 'chain':
        r = case['remote']
        special = any(c in ('..', '.', '') or c.startswith('@@') or c[1:2] == ':' for c in
                      r.replace('/', '\\').split('\\'))
        return special or '32.40' in obs[-1] or obs[-1].startswith('err')
    return sum(1 for o in obs if o.startswith('chosen')) >= 2


class C09(Property):
    id = 'C09'
    props_module = 'AioslskVerif.Props.C09'
    driver_module = 'AioslskVerif.Driver.C09'
    rule = ("chain cases: strategy list over {default, keep-directory, number-duplicate} (all orders of all subsets, "
            "repetitions, empty), remote path = components from {'..','.','','@@alias','C:',dot names, long, non-ASCII, "
            "'x (1).mp3'…} joined by mixed/repeated \\ and / with optional leading/trailing separators, download "
            "directory pre-populated with the name, numbered variants and near-misses (files and directories, also in the "
            "kept sub-directory); conc cases: 2..3 real _download_file tasks of (mostly) equally named files, start-ups "
            "interleaved by a schedule that releases executor calls one at a time. All from VERIF_SEED. Non-trivial: "
            "chain case with a special component / a numbered result / a raise; conc case in which at least two "
            "downloads chose a path. Distinct = distinct canonical case")
    assumptions = [
        'POSIX path semantics (os.sep == "/"); Windows drive-relative names, reserved device names and case-insensitive '
        'file systems are not modelled',
        'the download directory holds regular files and directories only (no symbolic links), and only the library '
        'creates files in it while downloads are starting',
        'os.path.exists / os.listdir / os.makedirs / open agree with the model file system (exercised on real temp '
        'directories, not modelled further); names are shorter than NAME_MAX in the concurrent cases',
        "re.match's \\d is modelled for ASCII digits only",
        'asyncio runs the code between two suspension points atomically; executor calls are the suspension points the '
        'schedule controls',
    ]
    modelled = ('naming.py (split_local_parts, the three strategies incl. splitext / numbering pattern / next free index, '
                'chain_strategies), utils.split_remote_path, SharesManager.calculate_download_path, the choose-and-claim '
                'step of TransferManager._prepare_download_path; exercised but not modelled: the rest of _download_file '
                '(state machine, aiofiles writes), OS file semantics')

    def correspondence(self, seed, tier, model_ok, widen=1):
        res = KResult()
        rng = random.Random(f'C09-{seed}')
        n_chain = (2600 if tier == 'quick' else 40000) * widen
        n_conc = (500 if tier == 'quick' else 6000) * widen
        cases = [c for _s, c in WITNESSES]
        cases += [c for c in _corpus() if c not in cases]
        n_fixed = len(cases)
        cases += [_gen_chain_case(rng) for _ in range(n_chain)]
        cases += [_gen_conc_case(rng) for _ in range(n_conc)]
        results = common.parallel_map(_eval_case, cases, chunksize=16)
        model = None
        if model_ok:
            lines, spans = [], []
            for (_obs, _vs, ml) in results:
                spans.append((len(lines), len(ml)))
                lines += ml
            out = common.run_driver(self.driver_file, lines)
            model = [out[a:a + k] for a, k in spans]
        else:
            res.model_available = False
        for i, c in enumerate(cases):
            obs, vs, _ml = results[i]
            res.evaluations += 1
            res.count('kind:' + c['kind'])
            res.count('chain:' + (c['strategies'] if c['strategies'] in CHAINS else 'other'))
            for o in obs:
                res.count('obs:' + o.split(' ')[0] + (' ' + o.split(' ')[1] if o.startswith('err') else ''))
            if _nontrivial(c, obs):
                res.nontrivial_keys.add(common.sha(c))
            if c['tree']:
                res.count('tree:non-empty')
            if any('32.40.' in o.split(' ')[-1] for o in obs if o.startswith(('ok ', 'chosen '))):
                res.count('result:numbered')
            if c['kind'] == 'conc':
                res.count(f"conc:downloads={len(c['downloads'])}")
                res.count('conc:schedule-ops', len(c['schedule']))
            res.violations += vs
            if any(o.startswith('HARNESS-EXC') for o in obs):
                res.notes.append(f'harness exception: {obs[-1]} on {c}')
                continue
            if model is not None:
                res.traces_validated += 1
                if model[i] != obs:
                    k = next((j for j, (a, b) in enumerate(zip(model[i], obs)) if a != b), min(len(model[i]), len(obs)))
                    res.disagreements.append(Disagreement(c, obs[k] if k < len(obs) else None,
                                                          model[i][k] if k < len(model[i]) else None, f'line #{k}'))
            if len(res.samples) < 3 and i >= n_fixed and len(str(c)) < 300 and _nontrivial(c, obs):
                res.samples.append({'case': c, 'impl': obs})
        return res

    def replay(self, case):
        return _eval_case(case)[1]

    def known_witnesses(self):
        # the findings of the unchanged tree are repaired by fixes/C09-*.patch (no `known` entry): their
        # witnesses run first in every correspondence run instead
        return []


PROPERTY = C09()
