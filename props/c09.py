"""C09 — peer-chosen names never escape the download directory or clobber a file.

Correspondence K_C09 + monitor (see DESIGN.md, C09; model lean/AioslskVerif/Model/Naming.lean).

Two kinds of cases, both on REAL temp directories:

* ``chain``: the real ``SharesManager.calculate_download_path`` (→ ``chain_strategies`` → the shipped
  strategies) for a strategy list over D(efault) K(eep-directory) N(umber-duplicate) in any order, a
  remote path built from a hostile component alphabet, and a pre-populated download directory.
  The alphabet holds the components that are dangerous as they are (``..``, ``.``, empty, aliases, drives)
  AND the ones that only BECOME dangerous when some later step normalises them: dots padded with white
  space / control / zero-width characters, trailing dots and spaces, Unicode look-alikes of ``.``, ``/``
  and ``\\`` (NFKC folds them), percent-encoded dots, names around and beyond NAME_MAX (255 bytes, with
  multi-byte characters straddling the limit), and the directory holds what a shortening / trimming of the
  name would produce. The verdict is given on the FINAL joined path, resolved by the real file system.
* ``conc``: 2..3 real ``TransferManager._download_file`` tasks (real ``Transfer`` objects and state
  machine, real aiofiles) on a ``GatedLoop``: every executor call (``aiofiles.os.path.exists``,
  ``makedirs``, ``aiofiles.open``, ``write``, ``close``) is parked until the schedule releases it, so the
  schedule decides how the start-ups interleave. A start may be hit by an OSError in the claiming step
  (``os.makedirs`` / the claiming ``open``), a download may be cut off (INCOMPLETE) and any download whose
  task has ended may be started again through the real state transitions (``queue()``, ``initialize()``).
  What is judged is the path ACTUALLY used: ``Transfer.local_path`` against a snapshot of the directory
  taken before the start, the holders of a path while their tasks run, and, at the end, the bytes found in
  every file in and around the download directory.
"""
from __future__ import annotations

import asyncio
import errno
import logging
import os
import random
import shutil
import tempfile
import types

from vlib import common
from vlib.common import KResult, Violation, Disagreement, Property
from vlib.simloop import SimLoop, WallClockGuard, settle

LETTER = {'D': 'DefaultNamingStrategy', 'K': 'KeepDirectoryStrategy', 'N': 'NumberDuplicateStrategy'}
NAME_MAX = 255          # = Naming.nameMax of the model; checked against the real temp directory at run time


# ------------------------------------------------------------------------------------------------
# encoding shared with the Lean driver
# ------------------------------------------------------------------------------------------------

def enc_name(s: str) -> str:
    return '.'.join(str(ord(c)) for c in s) if s else '-'


def enc_path(parts) -> str:
    return '/'.join(enc_name(p) for p in parts) if parts else '~'


def enc_entry(kind: str, parts, name: str) -> str:
    return f'{kind}:{enc_path(parts)}:{enc_name(name)}'


def _strategies(letters: str):
    import aioslsk.naming as naming
    return [getattr(naming, LETTER[c])() for c in letters]


def _blen(s: str) -> int:
    return len(s.encode('utf-8', 'surrogatepass'))


def _creatable(name: str) -> bool:
    return name not in ('', '.', '..') and '/' not in name and '\x00' not in name and _blen(name) <= NAME_MAX


# ------------------------------------------------------------------------------------------------
# real directory helpers
# ------------------------------------------------------------------------------------------------

def _link_target(dl: str, parts, name: str) -> str:
    """where a (dangling) symbolic link of the pre-populated directory points: OUTSIDE the download dir"""
    return os.path.join(os.path.dirname(dl), 'linked-' + common.sha([parts, name])[:10])


def _populate(dl: str, tree: list):
    os.makedirs(dl, exist_ok=True)
    for kind, parts, name in tree:
        d = os.path.join(dl, *parts) if parts else dl
        os.makedirs(d, exist_ok=True)
        p = os.path.join(d, name)
        if kind == 'd':
            os.makedirs(p, exist_ok=True)
        elif os.path.lexists(p):
            continue
        elif kind == 'l':
            os.symlink(_link_target(dl, parts, name), p)
        else:
            with open(p, 'wb') as f:
                f.write(b'old')


def _dump_tree(dl: str) -> list[str]:
    out = []
    for root, dirs, files in os.walk(dl):
        rel = os.path.relpath(root, dl)
        parts = [] if rel == '.' else rel.split(os.sep)
        for d in dirs:
            out.append(enc_entry('d', parts, d))
        for f in files:                      # regular files and (dangling) symbolic links
            out.append(enc_entry('f', parts, f))
    return sorted(out)


def _tree_lines(tree: list) -> str:
    """`fs` line for the driver: every directory on the way is an entry too (as on disk); a symbolic
    link is a non-directory entry."""
    ents = set()
    for kind, parts, name in tree:
        for k in range(len(parts)):
            ents.add(enc_entry('d', parts[:k], parts[k]))
        ents.add(enc_entry('d' if kind == 'd' else 'f', parts, name))
    return 'fs ' + ' '.join(sorted(ents))


def _split_result(dl: str, path: str):
    """Directory returned by the code → components below the download dir (textual, NOT normalised)."""
    if path == dl:
        return []
    if path.startswith(dl + os.sep):
        return [c for c in path[len(dl) + 1:].split(os.sep) if c != '']
    return None


def _final(dl: str, full: str) -> str:
    """the joined path string the code will open, as the driver prints it (below the download dir)"""
    if full.startswith(dl):
        return enc_name(full[len(dl):])
    return f'ABS:{full!r}'


def _fmt(kind: str, dl: str, d: str, n: str, full: str | None = None) -> str:
    parts = _split_result(dl, d)
    if parts is None:
        return f'{kind} ABS:{d!r} {enc_name(n)}'
    out = f'{kind} {enc_path(parts)} {enc_name(n)}'
    if full is not None:
        out += ' ' + _final(dl, full)
    return out


def _exc_obs(e: BaseException) -> str:
    if isinstance(e, IndexError):
        return 'err noName'
    if isinstance(e, ValueError) and 'did not produce a filename' in str(e):
        return 'err emptyName'
    return f'EXC {type(e).__name__}'


def _make_managers(dl: str, letters: str):
    from aioslsk.settings import Settings
    from aioslsk.events import EventBus
    from aioslsk.shares.manager import SharesManager
    settings = Settings(credentials={'username': 'u', 'password': 'p'}, shares={'download': dl})
    bus = EventBus()
    net = types.SimpleNamespace()
    sm = SharesManager(settings, bus, net)
    sm.naming_strategies = _strategies(letters)
    return settings, bus, net, sm


# ------------------------------------------------------------------------------------------------
# monitor pieces (the property statement, on what the real code returned / did)
# ------------------------------------------------------------------------------------------------

def _inside_final(dl: str, full: str) -> bool:
    """The FINAL path, as the real file system resolves it, is strictly inside the download directory:
    `normpath` (what the kernel's walk amounts to without symbolic links) and `realpath` of the directory
    part (with the links that are really there) both end below the download directory."""
    norm = os.path.normpath(full)
    if not norm.startswith(dl + os.sep) or norm == dl:
        return False
    try:
        # a symbolic link that was ALREADY in the download directory and stands where a directory is wanted is
        # the owner's (followed by design when it leads to a directory; `makedirs` fails on a dangling one):
        # the resolution through it is not the peer's doing — what is really written is judged by the
        # effect-level monitor of the concurrent cases
        d = os.path.dirname(norm)
        while len(d) > len(dl):
            if os.path.islink(d):
                return True
            d = os.path.dirname(d)
        rdl = os.path.realpath(dl)
        real = os.path.join(os.path.realpath(os.path.dirname(full)), os.path.basename(full))
        real = os.path.normpath(real)
    except ValueError:           # embedded NUL: nothing can be created there; the lexical verdict stands
        return True
    return real.startswith(rdl + os.sep) and real != rdl


def _rel(dl: str, p: str) -> str:
    try:
        return os.path.relpath(os.path.normpath(p), dl)
    except ValueError:
        return repr(p)


def _check_choice(case, dl: str, d: str, n: str, existed: bool, letters: str) -> list[Violation]:
    vs = []
    full = os.path.join(d, n)
    if n in ('', '.', '..') or os.sep in n:
        vs.append(Violation('C09-irregular-name', f'file name chosen is {n!r}', case,
                            observed={'dir': _rel(dl, d), 'name': n},
                            required="a regular file name (not '', '.', '..', no separator)"))
    if not _inside_final(dl, full):
        vs.append(Violation('C09-escape', f'chosen path {_rel(dl, full)!r} is not strictly inside the '
                            'download directory', case, observed={'dir': d.replace(dl, '<dl>'), 'name': n},
                            required='strictly inside the download directory'))
    if letters.endswith('N') and existed:
        vs.append(Violation('C09-not-fresh', 'chain ends in NumberDuplicateStrategy but the chosen path exists'
                            + (' (as a dangling symbolic link)' if os.path.islink(full) and not os.path.exists(full)
                               else ''),
                            case, observed={'dir': d.replace(dl, '<dl>'), 'name': n}, required='path does not exist yet'))
    return vs


# ------------------------------------------------------------------------------------------------
# chain cases
# ------------------------------------------------------------------------------------------------

def _run_chain(case: dict):
    tmp = tempfile.mkdtemp(prefix='c09-')
    try:
        dl = os.path.join(tmp, 'dl')
        _populate(dl, case['tree'])
        _s, _b, _n, sm = _make_managers(dl, case['strategies'])
        vs: list[Violation] = []
        try:
            d, n = sm.calculate_download_path(case['remote'])
        except Exception as e:
            return [_exc_obs(e)], vs
        full = os.path.join(d, n)
        existed = os.path.lexists(full)
        vs += _check_choice(case, dl, d, n, existed, case['strategies'])
        return [_fmt('ok', dl, d, n, full)], vs
    finally:
        shutil.rmtree(tmp, ignore_errors=True)


def _chain_lines(case: dict) -> list[str]:
    return [_tree_lines(case['tree']), f"chain {case['strategies'] or '-'} {enc_name(case['remote'])}"]


# ------------------------------------------------------------------------------------------------
# concurrent cases
# ------------------------------------------------------------------------------------------------

class GatedLoop(SimLoop):
    """Executor calls are parked until the schedule releases them (per library task)."""

    def __init__(self):
        super().__init__()
        self.jobs: list = []

    def run_in_executor(self, executor, func, *args):
        fut = self.create_future()
        t = asyncio.current_task(self)
        owner = t.get_name() if t else None
        if owner is None or not owner.startswith('dl-'):
            # a call the schedule itself makes into the library (queue(), add() …): nobody would release it
            try:
                fut.set_result(func(*args))
            except BaseException as e:  # noqa
                fut.set_exception(e)
            return fut
        self.jobs.append((owner, fut, func, args))
        return fut

    def release(self, name: str) -> bool:
        for k, (owner, fut, func, args) in enumerate(self.jobs):
            if owner == name:
                del self.jobs[k]
                if fut.done():
                    return self.release(name)
                try:
                    fut.set_result(func(*args))
                except BaseException as e:  # noqa
                    fut.set_exception(e)
                return True
        return False


class _StubConnection:
    """Stands in for the file connection: delivers the payload in two chunks through the real handle;
    `cut`: the connection is lost after the first chunk (the library's ConnectionReadError)."""

    def __init__(self, payload: bytes, cut: bool = False):
        self.payload = payload
        self.cut = cut
        self.username = 'peer'

    def set_connection_state(self, state):
        pass

    async def disconnect(self, *a, **k):
        pass

    async def receive_file(self, handle, filesize, callback=None):
        half = max(1, len(self.payload) // 2)
        for k, chunk in enumerate((self.payload[:half], self.payload[half:])):
            if k == 1 and self.cut:
                from aioslsk.exceptions import ConnectionReadError
                raise ConnectionReadError('connection lost (harness)')
            if chunk:
                await handle.write(chunk)
                if callback is not None:
                    callback(chunk)


def _payload(i: int) -> bytes:
    return (f'<{i}>'.encode()) * 3


def _whose(data: bytes, n: int):
    """the downloads of which `data` is a prefix of the payload (every download writes only its own bytes)"""
    return [i for i in range(n) if _payload(i).startswith(data)]


def _outside_state(tmp: str) -> dict:
    """everything next to the download directory: name → content (files) / None (anything else)"""
    out = {}
    for name in sorted(os.listdir(tmp)):
        if name == 'dl':
            continue
        p = os.path.join(tmp, name)
        try:
            out[name] = open(p, 'rb').read().decode('latin-1') if os.path.isfile(p) and not os.path.islink(p) else None
        except OSError:
            out[name] = None
    return out


def _all_entries(dl: str) -> set:
    out = set()
    for root, dirs, files in os.walk(dl):
        for x in dirs + files:
            out.add(os.path.join(root, x))
    return out


class _Faults:
    """An OSError injected into the claiming step of ONE start (the synchronous part of
    `_prepare_download_path`): `m` = `os.makedirs` raises, `o` = the claiming `open` raises."""

    def __init__(self):
        self.fired = False

    def arm(self, kind: str):
        import aioslsk.transfer.manager as tmod
        self.fired = False
        self._tmod = tmod
        self._kind = kind
        if kind == 'o':
            def failing_open(*a, **k):
                self.fired = True
                raise OSError(errno.EMFILE, 'Too many open files (injected)')
            self._had = 'open' in tmod.__dict__
            self._saved = tmod.__dict__.get('open')
            tmod.open = failing_open
        elif kind == 'm':
            self._saved = os.makedirs

            def failing_makedirs(*a, **k):
                self.fired = True
                raise OSError(errno.ENOSPC, 'No space left on device (injected)')
            os.makedirs = failing_makedirs

    def disarm(self):
        if self._kind == 'o':
            if self._had:
                self._tmod.open = self._saved
            else:
                del self._tmod.open
        elif self._kind == 'm':
            os.makedirs = self._saved


def _norm_op(op):
    """['spawn', i] | ['spawn', i, fault, cut] (fault '-', 'm', 'o') | ['release', i] | ['remove', i] | ['requeue', i] | ['abort', i]"""
    if op[0] == 'spawn':
        return ('spawn', op[1], op[2] if len(op) > 2 else '-', bool(op[3]) if len(op) > 3 else False)
    return (op[0], op[1], '-', False)


async def _conc_main(loop: GatedLoop, case: dict, dl: str, tmp: str):
    from aioslsk.transfer.manager import TransferManager
    from aioslsk.transfer.model import Transfer, TransferDirection
    from aioslsk.transfer.state import TransferState
    letters = case['strategies']
    fresh_promised = letters.endswith('N')
    settings, bus, net, sm = _make_managers(dl, letters)
    tm = TransferManager(settings, bus, types.SimpleNamespace(), sm, net)
    vs: list[Violation] = []
    choices = []
    real_calc = sm.calculate_download_path

    def recording_calc(remote_path):
        d, n = real_calc(remote_path)
        choices.append((d, n, os.path.lexists(os.path.join(d, n))))
        return d, n

    sm.calculate_download_path = recording_calc
    transfers, tasks, cut_now, runs = {}, {}, {}, {}
    moved_away: set = set()        # completed downloads whose file the user has moved out of the download directory
    requeued: set = set()          # queue() already called (by a `requeue` op) and the download not started since
    reported: set = set()
    n_dl = len(case['downloads'])
    obs, model_lines = [], [_tree_lines(case['tree'])]
    obs.append('ok')
    outside0 = _outside_state(tmp)
    faults = _Faults()

    def running():
        return {i: t for i, t in transfers.items()
                if i in tasks and not tasks[i].done() and t.local_path is not None}

    async def observe():
        await settle()
        for i, task in tasks.items():
            if task.done() and (i, runs[i]) not in reported:
                reported.add((i, runs[i]))
                model_lines.append(f"{'cut' if cut_now.get(i) else 'finish'} {i}")
                obs.append('done')
        held = []
        for i, t in transfers.items():
            if t.local_path is None:
                continue
            d, n = os.path.split(t.local_path)
            parts = _split_result(dl, d)
            st = 'r' if not tasks[i].done() else ('g' if i in moved_away else
                                                 'c' if t.state.VALUE == TransferState.COMPLETE else 'b')
            held.append(f"{i}:{enc_path(parts) if parts is not None else 'ABS'}:{enc_name(n)}:{st}")
        obs.append('held ' + ','.join(sorted(held)) + ' fs ' + ','.join(_dump_tree(dl)))
        model_lines.append('dump')
        # monitor: two downloads active at the same time never hold the same local path
        if fresh_promised:
            seen = {}
            for i, t in running().items():
                key = os.path.normpath(t.local_path)
                if key in seen:
                    vs.append(Violation('C09-same-path-concurrent',
                                        f'downloads {seen[key]} and {i} are active with the same local path '
                                        f'{_rel(dl, key)!r}', case,
                                        observed={str(j): _rel(dl, x.local_path) for j, x in running().items()},
                                        required='distinct local paths'))
                seen[key] = i

    async def start(i: int, fault: str, cut: bool):
        remote = case['downloads'][i]
        if i in tasks and not tasks[i].done():
            model_lines.append(f"start {i} {letters or '-'} {enc_name(remote)} -")
            obs.append('busy')
            return
        if i not in transfers:
            tr = Transfer('user%d' % i, remote, TransferDirection.DOWNLOAD)
            tr.state = TransferState.init_from_state(TransferState.INITIALIZING, tr)
            tr.filesize = len(_payload(i))
            await tm.add(tr)
            transfers[i] = tr
        else:                           # started again: the library's own transitions decide what is kept
            tr = transfers[i]
            if i not in requeued:
                await tr.state.queue()
            await tr.state.initialize()
            requeued.discard(i)
            if tr.local_path is None:
                moved_away.discard(i)
            if tr.filesize is None:
                tr.filesize = len(_payload(i))
        held_before = tr.local_path
        before = _all_entries(dl) if fresh_promised else set()
        n_before = len(choices)
        cut_now[i] = cut
        runs[i] = runs.get(i, 0) + 1
        # what the peer sends: the rest of the file as the library itself asks for it (the offset it calculates from the
        # file it is about to append to — a file that is not its own gives an offset that is not its own)
        conn = _StubConnection(_payload(i)[tr.bytes_transfered:], cut)
        if fault != '-':
            faults.arm(fault)
        try:
            tasks[i] = loop.create_task(tm._download_file(tr, conn), name=f'dl-{i}')
            await settle()
        finally:
            if fault != '-':
                faults.disarm()
        fired = fault if (fault != '-' and faults.fired) else '-'
        model_lines.append(f"start {i} {letters or '-'} {enc_name(remote)} {fired}")
        task = tasks[i]
        exc = task.exception() if task.done() and not task.cancelled() else None
        new = choices[n_before:]
        if exc is not None:
            obs.append(_exc_obs(exc))
        elif new and (tr.local_path is None or (task.done() and tr.state.VALUE == TransferState.FAILED)):
            obs.append(_fmt('oserror', dl, new[-1][0], new[-1][1]))
        elif tr.local_path is not None:
            d, n = os.path.split(tr.local_path)
            obs.append(_fmt('chosen' if new else 'resumed', dl, d, n, tr.local_path))
        else:
            obs.append('EXC no-path-no-exception')
        for (cd, cn, existed) in new:
            vs.extend(_check_choice(case, dl, cd, cn, existed, letters))
        # the path actually stored for this start
        if new and tr.local_path is not None and tr.local_path != held_before:
            lp = tr.local_path
            if not _inside_final(dl, lp):
                vs.append(Violation('C09-escape', f'local path {_rel(dl, lp)!r} given to download {i} is not strictly '
                                    'inside the download directory', case, observed=lp.replace(dl, '<dl>'),
                                    required='strictly inside the download directory'))
            if fresh_promised and os.path.normpath(lp) in before:
                vs.append(Violation('C09-not-fresh', f'local path {_rel(dl, lp)!r} given to download {i} existed '
                                    'before the download started (it is not the path that was checked)', case,
                                    observed=lp.replace(dl, '<dl>'), required='path does not exist yet'))

    async def move_away(i: int):
        """the user moves the file of a COMPLETED download out of the download directory"""
        tr = transfers.get(i)
        if (tr is None or not tasks[i].done() or tr.state.VALUE != TransferState.COMPLETE or not tr.local_path
                or i in moved_away or not os.path.isfile(tr.local_path)):
            obs.append('noop')
        else:
            os.remove(tr.local_path)
            moved_away.add(i)
            obs.append('removed')
        model_lines.append(f'remove {i}')

    async def requeue(i: int):
        """`TransferManager.queue()` on a download whose task has ended; it is NOT started yet (peer busy / offline)"""
        tr = transfers.get(i)
        if tr is not None and tasks[i].done() and i not in requeued:
            await tm.queue(tr)
            requeued.add(i)
            if tr.local_path is None:
                moved_away.discard(i)
        obs.append('done')
        model_lines.append(f'requeue {i}')

    async def abort(i: int):
        """`TransferManager.abort()` on a download that ended early and holds a path (INCOMPLETE, or queued again)"""
        tr = transfers.get(i)
        if (tr is None or not tasks[i].done() or not tr.local_path
                or tr.state.VALUE not in (TransferState.INCOMPLETE, TransferState.QUEUED)):
            obs.append('noop')
        else:
            await tm.abort(tr)
            requeued.discard(i)
            obs.append('removed')
        model_lines.append(f'abort {i}')

    for raw in case['schedule']:
        kind, i, fault, cut = _norm_op(raw)
        if kind == 'spawn':
            await start(i, fault, cut)
        elif kind == 'release':
            loop.release(f'dl-{i}')
        elif kind == 'remove':
            if not fresh_promised:
                # a chain that does not end in the number-duplicate strategy lets two downloads hold ONE file (nothing is
                # promised about them): whose file the user moves away, and who re-creates it when, is not modelled
                continue
            await observe()                 # the ends of the tasks are reported before the user looks at the directory
            await move_away(i)
        elif kind == 'requeue':
            await observe()
            await requeue(i)
        elif kind == 'abort':
            if not fresh_promised:          # as for `remove`: one file may be held by two downloads
                continue
            await observe()
            await abort(i)
        await observe()
    # drain: let every download finish, round-robin
    for _ in range(200):
        if all(t.done() for t in tasks.values()):
            break
        for i in list(tasks):
            loop.release(f'dl-{i}')
        await observe()
    for i, task in tasks.items():
        if task.done() and not task.cancelled():
            task.exception()       # retrieved
    # monitor: nothing was created or changed outside the download directory
    outside1 = _outside_state(tmp)
    if outside1 != outside0:
        changed = sorted(k for k in set(outside0) | set(outside1) if outside0.get(k, '∅') != outside1.get(k, '∅'))
        vs.append(Violation('C09-escape', f'files created or changed outside the download directory: {changed}', case,
                            observed={k: outside1.get(k, '<gone>') for k in changed},
                            required={k: outside0.get(k, '<absent>') for k in changed}))
    # monitor: nothing was clobbered — judged by the bytes that really ended up in the files
    if fresh_promised:
        for i, tr in transfers.items():
            if i in moved_away:             # its file is where the user has put it
                continue
            if tr.local_path and tasks[i].done() and tr.state.VALUE == TransferState.COMPLETE:
                try:
                    data = open(tr.local_path, 'rb').read()
                except OSError:
                    data = None
                if data != _payload(i):
                    vs.append(Violation('C09-clobbered', f'download {i} completed but its file holds {data!r}', case,
                                        observed=repr(data), required=repr(_payload(i))))
        initial = {}
        for kind, parts, name in case['tree']:
            initial[os.path.join(dl, *parts, name)] = kind
        for p, kind in initial.items():
            if kind == 'f':
                try:
                    if open(p, 'rb').read() != b'old':
                        vs.append(Violation('C09-clobbered', f'pre-existing file {_rel(dl, p)!r} was modified',
                                            case, required='untouched'))
                except OSError:
                    vs.append(Violation('C09-clobbered', f'pre-existing file {_rel(dl, p)!r} vanished', case))
            elif kind == 'l' and not (os.path.islink(p) and not os.path.exists(p)):
                vs.append(Violation('C09-clobbered', f'pre-existing dangling link {_rel(dl, p)!r} was written through '
                                    'or replaced', case, required='untouched'))
        for p in sorted(_all_entries(dl)):
            if p in initial or not os.path.isfile(p) or os.path.islink(p):
                continue
            data = open(p, 'rb').read()
            if not _whose(data, n_dl):
                vs.append(Violation('C09-clobbered', f'file {_rel(dl, p)!r} holds bytes of more than one download '
                                    f'or of none: {data[:60]!r}', case, observed=repr(data[:200]),
                                    required='the bytes of one download'))
    return obs, vs, model_lines


def _run_conc(case: dict):
    tmp = tempfile.mkdtemp(prefix='c09-')
    loop = GatedLoop()
    logging.disable(logging.CRITICAL)
    try:
        dl = os.path.join(tmp, 'dl')
        _populate(dl, case['tree'])
        for name in case.get('outside', []):       # files NEXT TO the download directory
            with open(os.path.join(tmp, name), 'wb') as f:
                f.write(b'outside')
        asyncio.set_event_loop(loop)
        obs, vs, lines = loop.run_until_complete(_conc_main(loop, case, dl, tmp))
        return obs, vs, lines
    finally:
        try:
            pending = [t for t in asyncio.all_tasks(loop) if not t.done()]
            for t in pending:
                t.cancel()
            for _ in range(50):
                if not loop.jobs:
                    break
                owner = loop.jobs[0][0]
                loop.release(owner)
            if pending:
                loop.run_until_complete(asyncio.gather(*pending, return_exceptions=True))
        except BaseException:
            pass
        asyncio.set_event_loop(None)
        loop.close()
        logging.disable(logging.NOTSET)
        shutil.rmtree(tmp, ignore_errors=True)


# ------------------------------------------------------------------------------------------------
# generator
# ------------------------------------------------------------------------------------------------

SPECIAL = ['..', '.', '', '@@x', '@@', '@@abc', 'C:', 'c:', 'z:x', 'é:', '1:', '@', '...', '..x', '.x', 'x..']
PLAIN = ['dir', 'sub', 'Music', 'a b', 'ünï', '日本語', 'x (1)', 'q', 'L' * 120]
FILES = ['x', 'x.mp3', 'song.flac', 'a.b.c', '.hidden', 'x.', 'x (1).mp3', 'x (1)', 'ünï.ogg', '日本語.flac',
         'tab\tname', ' ', 'x (2).mp3', 'noext', '..', '.', '...', '(1)', 'x ()', 'W' * 300]
SEPS = ['\\', '\\', '\\', '/', '\\\\', '//', '\\/', '/\\\\']
CHAINS = ['DN', 'DN', 'DKN', 'DKN', 'KDN', 'DNK', 'NDK', 'NKD', 'KND', 'D', 'DK', 'KD', 'K', 'N', '', 'DKKN', 'DNN',
          'NDN', 'DD', 'KN', 'NK', 'DNKN']

# --- components that BECOME '.', '..', '' or a separator when something normalises them -------------
# what a strip / trim / "remove junk characters" step takes away
def _u(*codes) -> str:
    return ''.join(chr(c) for c in codes)


PADS = ([' ', '  ', '\t', '\n', '\r', '\r\n', '\x0b', '\x0c', '\x1c', '\x1f', '\x7f', '.', '. ', ' .', '"', "'"]
        # NEL, NBSP, soft hyphen, Ogham space, en quad, em space, thin space, line separator, zero-width space,
        # LRM, RLO, word joiner, ideographic space, BOM
        + [_u(c) for c in (0x85, 0xa0, 0xad, 0x1680, 0x2000, 0x2003, 0x2009, 0x2028, 0x200b, 0x200e, 0x202e, 0x2060,
                           0x3000, 0xfeff)])
# what a Unicode (NFKC / confusables) / percent / entity decoding turns into dots and separators:
# two dot leader, fullwidth full stop x2, one dot leader x2 / x1, fullwidth full stop, ellipsis, mixed,
# ideographic full stop x2, halfwidth ideographic full stop x2, middle dot x2, Syriac supralinear full stop x2
UNICODE_DOTS = [_u(0x2025), _u(0xff0e, 0xff0e), _u(0x2024, 0x2024), _u(0x2024), _u(0xff0e), _u(0x2026),
                '.' + _u(0xff0e), _u(0x3002, 0x3002), _u(0xff61, 0xff61), _u(0xb7, 0xb7), _u(0x701, 0x701)]
LOOKALIKES = UNICODE_DOTS + ['%2e%2e', '%2E%2E', '%2e', '.%2e', '%252e%252e', '&#46;&#46;', '\\x2e\\x2e', '..%2f',
                             '..%5c', '%2f..', '..%00', '..;', '..:', '..|', '..?', '..*', '..<', '..>']
# fullwidth solidus / reverse solidus, division slash, fraction slash, big solidus / reverse solidus, set minus
SEP_LIKE = [_u(c) for c in (0xff0f, 0xff3c, 0x2215, 0x2044, 0x29f8, 0x29f5, 0x2216)] + ['%2f', '%5c', ':']
TRAILING = ['dir.', 'dir ', 'dir. .', 'dir..', ' dir', 'dir\t', 'x. ', 'x .', 'CON', 'nul', 'aux.txt', 'COM1', 'x::$DATA',
            'x' + _u(0x301), 'e' + _u(0x301), _u(0xe9), _u(0xff38), 'DIR', 'Dir']
E_ACUTE, NICHI, NOTE = _u(0xe9), _u(0x65e5), _u(0x1f3b5)        # 2-, 3- and 4-byte characters
LONG_DIRS = ['D' * 255, 'D' * 256, E_ACUTE * 127, E_ACUTE * 128, NICHI * 85, NICHI * 86, 'M' * 1000,
             '. ' + 'P' * 254, 'Q' * 254 + '.']


def _normalisable(rng: random.Random, nul_ok: bool) -> str:
    """a component that is harmless as it stands and dangerous after some normalisation"""
    r = rng.random()
    if r < 0.45:
        base = rng.choice(['..', '..', '..', '.', ''])
        pads = PADS + (['\x00'] if nul_ok else [])
        left = rng.choice(pads) if rng.random() < 0.45 else ''
        right = rng.choice(pads) if (rng.random() < 0.7 or not left) else ''
        if base == '..' and rng.random() < 0.2:          # junk between the dots
            return left + '.' + rng.choice(pads) + '.' + right
        return left + base + right
    if r < 0.65:
        return rng.choice(LOOKALIKES)
    if r < 0.78:
        sep = rng.choice(SEP_LIKE)
        return rng.choice(['a' + sep + '..' + sep + 'b', '..' + sep + 'x', 'x' + sep + '..', sep + 'etc', '..' + sep,
                           sep + '..', '.' + sep + '.'])
    if r < 0.9:
        return rng.choice(TRAILING)
    return rng.choice(LONG_DIRS)


def _long_name(rng: random.Random) -> str:
    """a file name around or beyond NAME_MAX bytes; multi-byte characters may straddle the limit"""
    unit = rng.choice(['W', 'W', E_ACUTE, NICHI, NOTE, 'ab ', 'x.', _u(0x3a9) + ' '])
    ext = rng.choice(['.mp3', '.mp3', '.flac', '', '.' + E_ACUTE, '.' + 'e' * 20])
    total = rng.choice([240, 249, 250, 251, 252, 253, 254, 255, 255, 256, 257, 259, 260, 300, 300, 511, 1000])
    room = max(total - _blen(ext), 1)
    stem = unit * (room // _blen(unit))
    stem += 'z' * (room - _blen(stem))
    return (stem + ext).strip() or 'z' * total


def _shortenings(name: str) -> list[str]:
    """what cutting / trimming `name` to the limits of a file system would make of it"""
    out = []
    stem, ext = os.path.splitext(name)
    for limit in (NAME_MAX, NAME_MAX - 1, 250, 240, 200, 128, 64):
        if _blen(name) <= limit:
            continue
        whole = name.encode()[:limit].decode('utf-8', 'ignore')
        keep = stem.encode()[:max(limit - _blen(ext), 0)].decode('utf-8', 'ignore') + ext
        out += [whole, keep, name[:limit], stem[:max(limit - len(ext), 0)] + ext, whole.rstrip(' .'), keep.rstrip(' .')]
    for t in (name.strip(), name.rstrip(' .'), name.strip(''.join(p for p in PADS if len(p) == 1))):
        if t != name:
            out.append(t)
    seen, res = set(), []
    for o in out:
        if o not in seen and _creatable(o):
            seen.add(o)
            res.append(o)
    return res


def _variants(rng: random.Random, fname: str) -> list[str]:
    stem, ext = os.path.splitext(fname)
    ks = rng.sample([0, 1, 1, 2, 3, 4, 5, 7, 10, 11, 99, 1000], rng.randint(0, 5))
    out = [fname] if rng.random() < 0.75 else []
    for k in ks:
        out.append(f'{stem} ({k}){ext}')
    if rng.random() < 0.12:
        # a long RUN of numbered duplicates (the 10th, 11th, 100th copy: the order in which a listing or a sort presents
        # " (10)" and " (2)" is not the numeric one), sometimes with a gap or starting late
        lo = rng.choice([1, 1, 1, 2, 5])
        hi = lo + rng.choice([8, 9, 10, 11, 12, 20, 101])
        gap = rng.choice([None, None, rng.randrange(lo, hi + 1)])
        out = [fname] + [f'{stem} ({k}){ext}' for k in range(lo, hi + 1) if k != gap]
    extra = [f'{stem} (01){ext}', f'{stem} (2){ext}.bak', f'{stem} (){ext}', f'{stem} (x){ext}', f'{stem}(3){ext}',
             f'{stem} (3) copy{ext}', f'{stem} (6', f'{stem.upper()} (1){ext}', f'{stem} (1)', f'{stem} (12)']
    out += rng.sample(extra, rng.randint(0, 3))
    short = _shortenings(fname) + [s for k in (1, 2) for s in _shortenings(f'{stem} ({k}){ext}')]
    if short:
        out += rng.sample(short, min(len(short), rng.randint(0, 3)))
    return [o for o in out if _creatable(o)]


def _gen_remote(rng: random.Random, fname: str | None = None, hostile: float = 0.0,
                nul_ok: bool = False, parent: str | None = None) -> tuple[str, list[str]]:
    """`hostile`: probability that the containing directory / the file name is a normalisable component;
    `parent`: the containing directory (the component keep-directory looks at) is this one"""
    comps = []
    for _ in range(rng.choice([0, 1, 1, 2, 2, 3, 4])):
        r = rng.random()
        comps.append(rng.choice(SPECIAL) if r < 0.5 else _normalisable(rng, nul_ok) if r < 0.62 else rng.choice(PLAIN))
    if parent is not None:
        comps.append(parent)
    elif comps and rng.random() < hostile:
        comps[-1] = _normalisable(rng, nul_ok)          # the component keep-directory looks at
    if fname is None:
        r = rng.random()
        fname = _long_name(rng) if r < 0.12 else _normalisable(rng, nul_ok) if r < 0.12 + hostile / 2 else rng.choice(FILES)
    comps.append(fname)
    if rng.random() < 0.2:
        comps += rng.choice([['..'], ['.'], [''], ['..', '..'], ['.', ''], ['.. '], [' ..', ''], ['\t.']])
    s = ''
    if rng.random() < 0.3:
        s += rng.choice(SEPS)
    for k, c in enumerate(comps):
        s += c
        if k < len(comps) - 1:
            s += rng.choice(SEPS)
    if rng.random() < 0.15:
        s += rng.choice(SEPS)
    return s, comps


def _gen_tree(rng: random.Random, remotes: list[list[str]], links: bool) -> list:
    """`links`: dangling symbolic links may occupy names (only offered where the chain promises a fresh path)"""
    tree = []

    def kind():
        r = rng.random()
        return 'd' if r < 0.12 else 'l' if (links and r < 0.22) else 'f'

    for comps in remotes:
        usable = [c for c in comps if c not in ('', '.', '..') and '/' not in c and '\\' not in c]
        if not usable:
            continue
        fname = usable[-1]
        dirs = [[]]
        if len(usable) > 1 and _creatable(usable[-2]):
            dirs.append([usable[-2]])
            if rng.random() < 0.15:
                dirs.append([usable[-2], usable[-2]])
            t = usable[-2].strip()
            if t != usable[-2] and _creatable(t) and rng.random() < 0.3:
                dirs.append([t])                          # the directory a trimmed name would land in
        for d in dirs:
            if rng.random() < 0.7:
                for v in _variants(rng, fname):
                    tree.append([kind(), d, v])
            if rng.random() < 0.2:
                for v in _variants(rng, ''):
                    tree.append(['f', d, v])
        if rng.random() < 0.08 and len(usable) > 1 and _creatable(usable[-2]):
            tree.append([rng.choice(['f', 'l']) if links else 'f', [], usable[-2]])   # a non-directory where
            #                                                                  keep-directory wants a directory
    rng.shuffle(tree)
    kinds: dict = {}
    for knd, d, n in tree:
        key = tuple(d) + (n,)
        if key in kinds or any(kinds.get(key[:k]) in ('f', 'l') for k in range(1, len(key))):
            continue
        for k in range(1, len(key)):
            kinds.setdefault(key[:k], 'd')
        kinds[key] = knd
    return [[knd, list(key[:-1]), key[-1]] for key, knd in sorted(kinds.items())]


def _gen_chain_case(rng: random.Random) -> dict:
    letters = rng.choice(CHAINS) if rng.random() < 0.8 else ''.join(rng.choice('DKN') for _ in range(rng.randint(1, 4)))
    remote, comps = _gen_remote(rng, hostile=0.35, nul_ok=True)
    if rng.random() < 0.04:
        remote, comps = rng.choice([('', ['']), ('\\', ['']), ('..', ['..']), ('.\\..', ['.', '..']),
                                    ('.. \\x', ['.. ', 'x']), (' ', [' ']), ('\t..\\ ', ['\t..', ' '])])
    return {'kind': 'chain', 'strategies': letters, 'remote': remote,
            'tree': _gen_tree(rng, [comps], letters.endswith('N'))}


def _gen_literal_number_case(rng: random.Random) -> dict:
    """One download whose OWN name already looks numbered (`song (3).mp3`) between duplicates of the plain name: the name it
    takes as it is must be seen by the next numbering — whatever the strategy remembers about the directory."""
    stem, ext = rng.choice([('song', '.mp3'), ('x', '.mp3'), ('x', ''), ('ünï', '.ogg'), ('a.b', '.c')])
    base = stem + ext
    j = rng.choice([0, 0, 1, 2])                                   # numbered copies already in the directory
    tree = [['f', [], base]] + [['f', [], f'{stem} ({k}){ext}'] for k in range(1, j + 1)]
    lit = f'{stem} ({j + 2}){ext}'                                  # the index AFTER the one the first duplicate gets
    names = [base, lit, base]
    if rng.random() < 0.3:
        names = [base, base, lit]
    users = ['a', 'b', 'c']
    downloads = [f'{u}\\{nm}' for u, nm in zip(users, names)]
    order = [0, 1, 2] if rng.random() < 0.7 else rng.sample([0, 1, 2], 3)
    sched = []
    for i in order:
        sched.append(['spawn', i])
        for _ in range(rng.choice([0, 0, 1, 2])):
            sched.append(['release', rng.choice(order[:order.index(i) + 1])])
    letters = rng.choice(['DN', 'DN', 'DKN', 'NDN'])
    return {'kind': 'conc', 'strategies': letters, 'downloads': downloads, 'schedule': sched, 'tree': tree, 'outside': []}


def _gen_conc_case(rng: random.Random) -> dict:
    if rng.random() < 0.08:
        return _gen_literal_number_case(rng)
    n = rng.choice([2, 2, 3])
    r = rng.random()
    if r < 0.3:
        fname = _long_name(rng)
    elif r < 0.4:
        fname = _normalisable(rng, False)
        if fname in ('', '.', '..') or '/' in fname or '\\' in fname:
            fname = fname + 'x'
    else:
        fname = rng.choice([f for f in FILES if len(f) < 50 and f not in ('..', '.', '...')])
    remotes, compss = [], []
    same_parent = rng.random() < 0.4         # equally named files in equally named directories (the same album)
    parent = None
    for _ in range(n):
        rm, c = _gen_remote(rng, fname if rng.random() < 0.85 else rng.choice(FILES[:8]), hostile=0.3, parent=parent)
        remotes.append(rm)
        compss.append(c)
        if same_parent and parent is None:
            usable = [x for x in c if x not in ('', '.', '..')]
            parent = usable[-2] if len(usable) > 1 else rng.choice(PLAIN[:8])
    letters = rng.choice(['DN', 'DN', 'DN', 'DKN', 'DKN', 'KDN', 'NDN', 'DKKN', 'DNN', 'D', 'DK', 'DNK'])
    order = list(range(n))
    rng.shuffle(order)
    sched, spawned = [], []
    eventful = rng.random() < 0.45          # faults, cut-off downloads, downloads started again

    def spawn(i):
        if not eventful:
            return ['spawn', i]
        fault = rng.choice(['-', '-', '-', 'o', 'o', 'm'])
        return ['spawn', i, fault, rng.random() < 0.3]

    for i in order:
        sched.append(spawn(i))
        spawned.append(i)
        for _ in range(rng.choice([0, 0, 0, 1, 2, 3, 6])):
            sched.append(['release', rng.choice(spawned)])
        if eventful and rng.random() < 0.5:
            j = rng.choice(spawned)
            for _ in range(rng.choice([0, 12, 12])):        # (mostly) let it end first
                sched.append(['release', j])
            sched.append(spawn(j))
    if eventful:
        for _ in range(rng.choice([0, 1, 2])):
            j = rng.choice(spawned)
            for _ in range(rng.choice([0, 12])):
                sched.append(['release', j])
            sched.append(spawn(j))
    if rng.random() < 0.35:
        # the afterlife of a finished download: the user moves the file away and / or queues the download again, it waits
        # for its peer while other downloads of the same name come and go, then it starts
        for _ in range(rng.choice([1, 1, 2])):
            j = rng.choice(spawned)
            for _ in range(rng.choice([12, 12, 12, 3, 0])):
                sched.append(['release', j])
            steps = rng.choice([['remove', 'requeue'], ['remove', 'requeue'], ['requeue'], ['remove'],
                                ['requeue', 'remove'], ['remove', 'requeue', 'requeue'], ['abort'], ['requeue', 'abort'],
                                ['abort', 'requeue']])
            for st in steps:
                sched.append([st, j])
            others = [i for i in range(n) if i != j]
            for _ in range(rng.choice([0, 1, 1, 2])):
                k = rng.choice(others)
                sched.append(spawn(k))
                for _ in range(rng.choice([0, 0, 1, 3, 12])):
                    sched.append(['release', k])
            sched.append(spawn(j))
            for _ in range(rng.choice([0, 1, 3])):
                sched.append(['release', rng.choice(range(n))])
    links = letters.endswith('N')
    outside = sorted({c[-1] for c in compss if _creatable(c[-1])} |
                     {s for c in compss for s in _shortenings(c[-1])[:2]})
    return {'kind': 'conc', 'strategies': letters, 'downloads': remotes, 'schedule': sched,
            'tree': _gen_tree(rng, compss, links) if rng.random() < 0.7 else [], 'outside': outside}


# Witnesses of the defects of the unchanged tree (repaired by fixes/C09-*.patch); replayed every run.
WITNESSES = [
    ('C09-escape', {'kind': 'chain', 'strategies': 'DKN', 'remote': 'a\\..\\x.mp3', 'tree': []}),
    ('C09-irregular-name', {'kind': 'chain', 'strategies': 'D', 'remote': 'a\\..', 'tree': []}),
    ('C09-irregular-name', {'kind': 'chain', 'strategies': 'K', 'remote': 'a\\b', 'tree': []}),
    ('C09-same-path-concurrent', {'kind': 'conc', 'strategies': 'DN', 'downloads': ['a\\x.mp3', 'b\\x.mp3'],
                                  'schedule': [['spawn', 0], ['spawn', 1]], 'tree': []}),
    ('C09-escape', {'kind': 'conc', 'strategies': 'DKN', 'downloads': ['a\\..\\x.mp3'],
                    'schedule': [['spawn', 0]], 'tree': []}),
    # fixes/C09-dangling-symlink.patch: a dangling symbolic link counted as a free name
    ('C09-not-fresh', {'kind': 'chain', 'strategies': 'DN', 'remote': 'a\\x.mp3', 'tree': [['l', [], 'x.mp3']]}),
    ('C09-escape', {'kind': 'conc', 'strategies': 'DN', 'downloads': ['a\\x.mp3'], 'schedule': [['spawn', 0]],
                    'tree': [['l', [], 'x.mp3']], 'outside': ['x.mp3']}),
    # fixes/C09-unclaimed-path-kept.patch: the path of a failed claim was kept and used later without a check
    ('C09-same-path-concurrent', {'kind': 'conc', 'strategies': 'DN', 'downloads': ['a\\x.mp3', 'b\\x.mp3'],
                                  'schedule': [['spawn', 0, 'o', False], ['spawn', 1], ['spawn', 0]], 'tree': []}),
    # a completed download whose file was moved away is queued again and waits; another download takes the free name
    (None, {'kind': 'conc', 'strategies': 'DN', 'downloads': ['a\\x.mp3', 'b\\x.mp3'],
            'schedule': [['spawn', 0]] + [['release', 0]] * 12 + [['remove', 0], ['requeue', 0], ['spawn', 1], ['spawn', 0]],
            'tree': [], 'outside': []}),
    # over-long names: refused by the file system, nothing is claimed, nothing is shared
    (None, {'kind': 'conc', 'strategies': 'DN', 'downloads': ['a\\' + 'W' * 296 + '.mp3', 'b\\' + 'W' * 296 + '.mp3'],
            'schedule': [['spawn', 0], ['spawn', 1], ['spawn', 0]], 'tree': [], 'outside': []}),
    (None, {'kind': 'conc', 'strategies': 'DN', 'downloads': ['a\\' + 'é' * 125 + '.mp3'] * 3,
            'schedule': [['spawn', 0], ['spawn', 1], ['spawn', 2]], 'tree': [], 'outside': []}),
]


def _corpus() -> list:
    import json
    out = []
    d = common.CORPUS / 'C09'
    if d.is_dir():
        for p in sorted(d.glob('*.json')):
            c = json.loads(p.read_text())
            out.append(c.get('case', c))
    return out


def _eval_case(case):
    """→ (impl observations, violations, model lines)"""
    try:
        if case['kind'] == 'chain':
            obs, vs = _run_chain(case)
            return ['ok'] + obs, vs, _chain_lines(case)
        return _run_conc(case)
    except (Exception, WallClockGuard) as e:       # harness trouble is reported as an observation, not hidden
        return [f'HARNESS-EXC {type(e).__name__}: {e}'], [], ['dump']


def _comps(remote: str) -> list[str]:
    return remote.replace('/', '\\').split('\\')


def _becomes_special(c: str) -> bool:
    """harmless as it stands, `.`/`..`/empty/over-long matter after a normalisation or for the file system"""
    if c in ('', '.', '..'):
        return False
    junk = ''.join(p for p in PADS if len(p) == 1) + '\x00'
    return (c.strip(junk) in ('', '.', '..') or c.rstrip(' .') != c or _blen(c) > 200
            or any(x in c for x in UNICODE_DOTS + SEP_LIKE) or '%2' in c.lower())


def _nontrivial(case, obs) -> bool:
    if case['kind'] == 'chain':
        cs = _comps(case['remote'])
        special = any(c in ('..', '.', '') or c.startswith('@@') or c[1:2] == ':' or _becomes_special(c) for c in cs)
        return special or '32.40' in obs[-1] or obs[-1].startswith('err')
    return sum(1 for o in obs if o.startswith(('chosen', 'resumed', 'oserror'))) >= 2


class C09(Property):
    id = 'C09'
    props_module = 'AioslskVerif.Props.C09'
    driver_module = 'AioslskVerif.Driver.C09'
    rule = ("chain cases: strategy list over {default, keep-directory, number-duplicate} (all orders of all subsets, "
            "repetitions, empty), remote path = components from {'..','.','','@@alias','C:',dot names, long, non-ASCII, "
            "'x (1).mp3'…} and from the components that only BECOME '.', '..', '' or a separator after a normalisation "
            "(dots padded with / interleaved by white space, control, zero-width and quote characters, trailing dots and "
            "spaces, Unicode look-alikes of '.', '/' and '\\', percent / entity encodings, NUL, names of 240..1000 bytes "
            "with 1..4-byte characters straddling NAME_MAX), preferably in the two positions the strategies look at, "
            "joined by mixed/repeated \\ and / with optional leading/trailing separators; download directory "
            "pre-populated with the name, numbered variants, near-misses and what cutting / trimming the name would give "
            "(files, directories and — where the chain promises a fresh path — dangling symbolic links, also in the kept "
            "sub-directory). conc cases: 2..3 real _download_file tasks of (mostly) equally named files (30 % over-long "
            "names), start-ups interleaved by a schedule that releases executor calls one at a time; 45 % of them with "
            "OSErrors injected into the claiming step, downloads cut off, and downloads started again after their task "
            "ended; 35 % with the afterlife of a finished download (the user moves the file of a completed download away, the "
            "download is queued again and waits while other downloads of the same name start, an interrupted download is "
            "aborted, then it starts); equally "
            "named files NEXT TO the download directory. All from VERIF_SEED. Non-trivial: chain case "
            "with a special or normalisable component / a numbered result / a raise; conc case in which at least two "
            "starts chose, resumed or failed to claim a path. Distinct = distinct canonical case")
    assumptions = [
        'POSIX path semantics (os.sep == "/"); Windows drive-relative names, reserved device names and case-insensitive '
        'file systems are not modelled; NAME_MAX = 255 bytes (checked on the temp directory), paths shorter than PATH_MAX',
        'the download directory is not the root directory and is not reached through a name the peer knows; '
        'sub-directories of it are real directories (a symbolic link to a directory placed there by the user is followed '
        'by design); dangling symbolic links in place of FILES are part of the generated directory contents',
        'only the library creates or removes entries of the download directory while a download holds a path in it — '
        'except that the user may move the file of a COMPLETED download away (op `remove`); a PARTIAL file deleted by '
        'hand while its download is paused is re-created on resume without a new check (outside the quantifier)',
        'os.path.exists / os.listdir / os.makedirs / open agree with the model file system (exercised on real temp '
        'directories, not modelled further); names with an embedded NUL only in the chain cases (the library lets the '
        "ValueError of os.makedirs escape; that is not this property's subject)",
        "re.match's \\d is modelled for ASCII digits only",
        'asyncio runs the code between two suspension points atomically; executor calls are the suspension points the '
        'schedule controls; the injected OSErrors hit os.makedirs / the claiming open() of _prepare_download_path',
    ]
    modelled = ('naming.py (split_local_parts, the three strategies incl. splitext / numbering pattern / next free index, '
                'chain_strategies), utils.split_remote_path, SharesManager.calculate_download_path, os.path.join of the '
                'result (final path string), the choose-and-claim step of TransferManager._prepare_download_path incl. '
                'OSErrors (injected, ENAMETOOLONG, a non-directory in the way), which path a download holds over '
                'complete / cut-off / started-again / file moved away / queued again without being started / aborted after its end; exercised but not modelled: the rest of _download_file (state '
                'machine, aiofiles writes), OS file semantics')

    def correspondence(self, seed, tier, model_ok, widen=1):
        res = KResult()
        rng = random.Random(f'C09-{seed}')
        n_chain = (2600 if tier == 'quick' else 40000) * widen
        n_conc = (700 if tier == 'quick' else 8000) * widen
        cases = [c for _s, c in WITNESSES]
        cases += [c for c in _corpus() if c not in cases]
        n_fixed = len(cases)
        cases += [_gen_chain_case(rng) for _ in range(n_chain)]
        cases += [_gen_conc_case(rng) for _ in range(n_conc)]
        try:
            name_max = os.pathconf(tempfile.gettempdir(), 'PC_NAME_MAX')
            if name_max != NAME_MAX:
                res.notes.append(f'NAME_MAX of the temp directory is {name_max}, the model assumes {NAME_MAX}')
        except (OSError, ValueError):
            pass
        results = common.parallel_map(_eval_case, cases, chunksize=16)
        model = None
        if model_ok:
            lines, spans = [], []
            for (_obs, _vs, ml) in results:
                spans.append((len(lines), len(ml)))
                lines += ml
            out = common.run_driver(self.driver_file, lines)
            model = [out[a:a + k] for a, k in spans]
        else:
            res.model_available = False
        for i, c in enumerate(cases):
            obs, vs, _ml = results[i]
            res.evaluations += 1
            res.count('kind:' + c['kind'])
            res.count('chain:' + (c['strategies'] if c['strategies'] in CHAINS else 'other'))
            for o in obs:
                res.count('obs:' + o.split(' ')[0] + (' ' + o.split(' ')[1] if o.startswith('err') else ''))
            if _nontrivial(c, obs):
                res.nontrivial_keys.add(common.sha(c))
            if c['tree']:
                res.count('tree:non-empty')
            if any(k == 'l' for k, _d, _n in c['tree']):
                res.count('tree:dangling-link')
            remotes = [c['remote']] if c['kind'] == 'chain' else c['downloads']
            comps = [x for r in remotes for x in _comps(r)]
            if any(_becomes_special(x) for x in comps):
                res.count('remote:normalisable-component')
            if any(x.strip(''.join(p for p in PADS if len(p) == 1 and p != '.') + '\x00') in ('.', '..')
                   and x not in ('.', '..') for x in comps):
                res.count('remote:padded-dots')
            if any(_blen(x) > 240 for x in comps):
                res.count('remote:name-around-or-beyond-NAME_MAX')
            if any('32.40.' in o.split(' ')[2] for o in obs if o.startswith(('ok ', 'chosen ')) and len(o.split(' ')) > 2):
                res.count('result:numbered')
            if c['kind'] == 'conc':
                res.count(f"conc:downloads={len(c['downloads'])}")
                res.count('conc:schedule-ops', len(c['schedule']))
                ops = [_norm_op(o) for o in c['schedule']]
                res.count('conc:fault-armed', sum(1 for o in ops if o[2] != '-'))
                res.count('conc:cut-off', sum(1 for o in ops if o[3]))
                res.count('conc:started-again', sum(1 for k, o in enumerate(ops) if o[0] == 'spawn'
                                                   and any(p[0] == 'spawn' and p[1] == o[1] for p in ops[:k])))
                res.count('conc:file-moved-away', sum(1 for o in obs if o == 'removed'))
                res.count('conc:requeued-not-started', sum(1 for o in ops if o[0] == 'requeue'))
                res.count('conc:aborted-after-its-end', sum(1 for k, o in enumerate(ops) if o[0] == 'abort'))
            res.violations += vs
            if any(o.startswith('HARNESS-EXC') for o in obs):       # the case could not be driven: nothing was compared
                res.notes.append(f'harness exception: {obs[-1]} on {c}'[:600])
                res.disagreements.append(Disagreement(c, obs[-1][:300], '(the harness could not drive the implementation '
                                                      'on this case)', 'harness'))
                continue
            if model is not None:
                res.traces_validated += 1
                if model[i] != obs:
                    k = next((j for j, (a, b) in enumerate(zip(model[i], obs)) if a != b), min(len(model[i]), len(obs)))
                    res.disagreements.append(Disagreement(c, obs[k] if k < len(obs) else None,
                                                          model[i][k] if k < len(model[i]) else None, f'line #{k}'))
            if len(res.samples) < 3 and i >= n_fixed and len(str(c)) < 300 and _nontrivial(c, obs):
                res.samples.append({'case': c, 'impl': obs})
        return res

    def replay(self, case):
        return _eval_case(case)[1]

    def known_witnesses(self):
        # the findings of the unchanged tree are repaired by fixes/C09-*.patch (no `known` entry): their
        # witnesses run first in every correspondence run instead
        return []


PROPERTY = C09()
