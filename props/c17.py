"""C17 — transfers survive a restart: correspondence K_C17 + monitor (see DESIGN.md, C17).

Real code under test: `TransferShelveCache` on a temp directory, `Transfer.__getstate__/__setstate__`,
`TransferManager.add / remove / store_data / load_data / stop / _get_queued_transfers` with stub collaborators.
Model: lean/AioslskVerif/Model/Cache.lean through Driver/C17.lean.

Families of cases:
  * op lists with the cache written at quiescent points (add / mut / rm / store / legacy / restart / sched / cycle);
  * caches left by ANOTHER release of the writer than the reader (model-backed): `prev` writes the entry the *pinned* writer
    (`Transfer.__getstate__` as pinned by theorem C17_fields_pinned = HEAD's) leaves for a transfer — every persisted
    attribute present, the remote-queue mark set in every state — whatever the tree under test writes itself; the frozen
    writer is checked byte for byte against corpus/C17/head-writer-records.json (pickles produced by the unmodified HEAD
    `TransferShelveCache.write`), and `prevc` loads those very bytes; `dupkey` leaves one transfer under both key formats;
  * `read_cache()` split at ITS suspension points (model-backed): `restartc` runs `load_data()` as its own task, suspended
    in the application's `TransferAddedEvent` listener after every entry it registers; `loadr` resumes it; `add()` /
    `remove()` / attribute changes / writes of entries it has (not) reached happen in between; plus *loadsweeps* (monitor
    only): `load_data()` next to tasks calling the public `download()` for entries of the cache, slow listeners;
  * *phased* op lists (model-backed): `add()` / `remove()` run as their own tasks and are suspended in their listeners
    (`TransferAddedEvent`, the state listeners of the abort transition, `TransferRemovedEvent`); attribute changes,
    further operations, cache writes (`store_data()` / `stop()` + `store_data()`) and the end of the process happen
    while they are suspended;
  * *sweeps* (monitor only — loop-iteration granularity is runtime glue the model does not express): operations and
    real state transitions run concurrently with listeners that write the cache themselves / suspend, cancelled
    tasks that take several iterations to die, a deferred executor, and a periodic writer that fires at every loop
    iteration; every write is followed by a crash (copy of the data directory loaded by a fresh manager).
The monitor compares what a fresh manager loads with what the user could observe at the time of the last write:
the public list + attributes at that instant, and the *ghost* sets "addition reported" / "removal reported"
(events delivered / calls returned), which the harness keeps itself from the real events.
"""
from __future__ import annotations

import asyncio
import base64
import copyreg
import hashlib
import io
import json
import logging
import os
import pickle
import random
import shelve
import shutil
import sys
import tempfile
import types
from collections import Counter, defaultdict
from pathlib import Path
from typing import Any, Optional

from vlib import common, simloop
from vlib.common import KResult, Violation, Disagreement, Property
from translate import cache_constants

logging.getLogger('aioslsk').addHandler(logging.NullHandler())
logging.getLogger('aioslsk').propagate = False      # refused transitions etc. are logged by the library; not our output

IN_PROGRESS = (3, 5, 6)             # INITIALIZING, DOWNLOADING, UPLOADING
ST_QUEUED, ST_INIT, ST_INCOMPLETE, ST_DL, ST_UL, ST_COMPLETE, ST_FAILED, ST_ABORTED = 1, 3, 4, 5, 6, 7, 8, 9
ALL_STATES = [0, 1, 3, 4, 5, 6, 7, 8, 9, 10]
FIELDS = ['u', 'p', 'd', 'st', 'lp', 'fs', 'bt', 'fr', 'ar', 'rq', 'piq', 'qa', 'lqa', 'ura', 'lura', 'stt', 'ct',
          'off', 'tk']
NOW = 1000                          # SimLoop's start instant; time.time() is the virtual clock, which never advances here


# --------------------------------------------------------------------------------------------
# encoding shared by both sides
# --------------------------------------------------------------------------------------------

def _xs(s: Optional[str]) -> str:
    return '-' if s is None else 'x' + s.encode('utf-8').hex()


def _on(v) -> str:
    return '-' if v is None else _num(v)


def _num(v) -> str:
    if isinstance(v, bool):
        return repr(v)
    if isinstance(v, float) and v == int(v):
        return str(int(v))
    if isinstance(v, int):
        return str(v)
    return repr(v)


def _spec_line(s: dict) -> str:
    return (f"u={_xs(s['u'])} p={_xs(s['p'])} d={s['d']} st={s['st']} lp={_xs(s['lp'])} fs={_on(s['fs'])} "
            f"bt={s['bt']} fr={_xs(s['fr'])} ar={_xs(s['ar'])} rq={int(s['rq'])} piq={_on(s['piq'])} qa={s['qa']} "
            f"lqa={s['lqa']} ura={s['ura']} lura={s['lura']} stt={_on(s['stt'])} ct={_on(s['ct'])} "
            f"off={int(s['off'])} tk={s['tk']}")


def _model_lines(case: dict, trace: Optional[list] = None) -> list[str]:
    """One driver line per op. The order in which shelve hands out the entries to a phased load is the environment's
    choice: it is read off the implementation trace (`order` of the `restartc` event) and told to the model."""
    out = []
    orders = {ev['i']: ev['order'] for ev in (trace or []) if ev.get('op') == 'restartc' and 'order' in ev}
    for i, op in enumerate(case['ops']):
        k = op[0]
        if k == 'add':
            out.append('add ' + _spec_line(op[1]))
        elif k == 'mut':
            out.append('mut ' + _spec_line(op[1]))
        elif k == 'rm':
            out.append(f'rm {_xs(op[1])} {_xs(op[2])} {op[3]} {NOW}')
        elif k == 'addc':
            out.append('addc ' + _spec_line(op[1]))
        elif k == 'addr':
            out.append(f'addr {_xs(op[1])} {_xs(op[2])} {op[3]}')
        elif k == 'rmc':
            out.append(f'rmc {_xs(op[1])} {_xs(op[2])} {op[3]} {NOW}')
        elif k == 'rms':
            out.append(f'rms {_xs(op[1])} {_xs(op[2])} {op[3]}')
        elif k == 'legacy':
            _, u, p, d, a, o, kk, s = op
            out.append(f'legacy {_xs(u)} {_xs(p)} {d} {int(a)} {int(o)} {int(kk)} {int(s)}')
        elif k in ('sched', 'cycle'):
            # `cycle`: the peers told by the first management cycle of the real job = the scheduler's choice
            out.append('sched ' + ','.join(_xs(u) for u in op[1]))
        elif k == 'prev':
            out.append('prev ' + _spec_line(op[1]) + f' ok={int(op[2])}')
        elif k == 'prevc':
            out.append('prev ' + _spec_line(corpus()['records'][op[1]]['spec']) + ' ok=0')
        elif k == 'dupkey':
            out.append(f'dupkey {_xs(op[1])} {_xs(op[2])} {op[3]}')
        elif k == 'restartc':
            out.append(('loadc ' + ';'.join(_sid(tuple(x)) for x in orders.get(i, []))).strip())
        elif k == 'loadr':
            out.append('loadr')
        elif k in ('new', 'store', 'restart'):
            out.append(k)             # ['store', 'stop'] = stop() + store_data(): the same write for the model
        else:
            raise ValueError(f'unknown op {op!r}')
    return out


def _canon(line: str, model_side: bool) -> str:
    """Order-free canonical form of one observation line (database / list orders carry no meaning)."""
    if line.startswith('keys'):
        body, _, rest = line[4:].strip().partition(' there=')
        if not _ and body.startswith('there='):
            body, rest = '', body[len('there='):]
        there, _, gone = rest.partition(' gone=')
        ks = [k for k in body.strip().split(',') if k]
        if model_side:
            ks = [hashlib.sha256(bytes.fromhex(k)).hexdigest() for k in ks]
        return ('keys ' + ','.join(sorted(ks)) + ' there=' + ';'.join(sorted(x for x in there.strip().split(';') if x)) +
                ' gone=' + ';'.join(sorted(x for x in gone.strip().split(';') if x)))
    if line.startswith('loaded '):      # (a `loading …` line names one identity: nothing to sort)
        parts = line.split(' ', 3)
        body = parts[3] if len(parts) > 3 else ''
        return ' '.join(parts[:3]) + ' ' + '|'.join(sorted(x for x in body.split('|') if x))
    if line.startswith('dl='):
        dl, _, ul = line.partition(' ul=')
        return ('dl=' + '|'.join(sorted(x for x in dl[3:].split('|') if x)) +
                ' ul=' + '|'.join(sorted(x for x in ul.split('|') if x)))
    return line


# --------------------------------------------------------------------------------------------
# implementation side
# --------------------------------------------------------------------------------------------

class _Raw:
    """Stand-in for Transfer when the monitor reads raw pickles (does not run __setstate__)."""

    def __setstate__(self, st):
        self.st = st


class _RawUnpickler(pickle.Unpickler):
    def find_class(self, module, name):
        if module == 'aioslsk.transfer.model' and name == 'Transfer':
            return _Raw
        return super().find_class(module, name)


class _LegacyWriter:
    """Pickles as `Transfer.__new__(Transfer)` + `__setstate__(state)` with an arbitrary state dict."""

    def __init__(self, state):
        self.state = state

    def __reduce__(self):
        from aioslsk.transfer.model import Transfer
        return (copyreg._reconstructor, (Transfer, object, None), self.state)


class _HarnessError(BaseException):
    """A failure of harness code (not of the code under test)."""


# --------------------------------------------------------------------------------------------
# the pinned writer: what the release the model transcribes (`persist`, theorem C17_fields_pinned) leaves in the cache
# --------------------------------------------------------------------------------------------

CORPUS_FILE = Path(__file__).resolve().parent.parent / 'corpus' / 'C17' / 'head-writer-records.json'


def _norm_spec(s: dict) -> dict:
    """equal strings become one object (pickle memoises strings by identity: byte-identity needs the same sharing)"""
    return {k: sys.intern(v) if isinstance(v, str) else v for k, v in s.items()}


def _pinned_state(s: dict) -> dict:
    """`Transfer.__getstate__()` of the pinned release for a transfer with the attributes of spec `s`: the whole
    `__dict__` in `__init__` order minus the runtime-only fields (`_offset`, assigned later, comes last), state by value."""
    from aioslsk.transfer.model import TransferDirection
    from aioslsk.transfer.state import TransferState
    s = _norm_spec(s)
    st = {
        'state': TransferState.State(s['st']), 'direction': TransferDirection(s['d']),
        'username': s['u'], 'remote_path': s['p'], 'local_path': s['lp'], 'remotely_queued': bool(s['rq']),
        'place_in_queue': s['piq'], 'fail_reason': s['fr'], 'abort_reason': s['ar'], 'filesize': s['fs'],
        'bytes_transfered': s['bt'], 'queue_attempts': s['qa'], 'last_queue_attempt': float(s['lqa']),
        'upload_request_attempts': s['ura'], 'last_upload_request_attempt': float(s['lura']),
        'start_time': None if s['stt'] is None else float(s['stt']),
        'complete_time': None if s['ct'] is None else float(s['ct']),
    }
    if s['off']:
        st['_offset'] = 0
    return st


class _PinnedPickler(pickle.Pickler):
    """Pickles a Transfer as the pinned release does (`copyreg.__newobj__(Transfer)` + state dict) with a state WE
    supply — the `__getstate__` of the tree under test is not asked."""

    def reducer_override(self, obj):
        st = getattr(obj, '__dict__', {}).get('_c17_pinned_state')
        if st is not None:
            return (copyreg.__newobj__, (type(obj),), st)
        return NotImplemented


def _pinned_pickle(s: dict) -> bytes:
    from aioslsk.transfer.model import Transfer
    o = Transfer.__new__(Transfer)
    o.__dict__['_c17_pinned_state'] = _pinned_state(s)
    f = io.BytesIO()
    _PinnedPickler(f, pickle.DEFAULT_PROTOCOL).dump(o)      # what shelve does with a value
    return f.getvalue()


def _pinned_key(u: str, p: str, d: int, old: bool = False) -> str:
    """cache key of the pinned release (`old`: of the release before fixes/C17-cache-key-ambiguous)"""
    text = (u + p + str(d)) if old else (str(len(u)) + ':' + u + p + str(d))
    return hashlib.sha256(text.encode('utf-8')).hexdigest()


_CORPUS: Optional[dict] = None


def corpus() -> dict:
    """Records written by the unmodified HEAD `TransferShelveCache.write` (see `write_corpus`)."""
    global _CORPUS
    if _CORPUS is None:
        c = json.loads(CORPUS_FILE.read_text())
        for r in c['records']:
            r['bytes'] = base64.b64decode(r['pickle'])
        _CORPUS = c
    return _CORPUS


def _corpus_specs() -> list[dict]:
    """The grid of the corpus: every state x direction x remote-queue mark, each with five attribute profiles (defaults;
    every falsy legal value; mid-transfer values; all bytes there; large / non-ASCII values)."""
    profiles = [
        dict(lp=None, fs=None, bt=0, fr=None, ar=None, piq=None, qa=0, lqa=0, ura=0, lura=0, stt=None, ct=None, off=False),
        dict(lp='', fs=0, bt=0, fr='', ar='', piq=0, qa=0, lqa=0, ura=0, lura=0, stt=0, ct=0, off=False),
        dict(lp='/nonexistent-c17/dl/a.mp3', fs=100, bt=40, fr=None, ar=None, piq=3, qa=1, lqa=1234, ura=2, lura=99,
             stt=1700000000, ct=None, off=True),
        dict(lp='/nonexistent-c17/dl/b.mp3', fs=100, bt=100, fr='Cancelled', ar='Requested', piq=None, qa=9, lqa=1,
             ura=0, lura=0, stt=1700000000, ct=1700000100, off=False),
        dict(lp='/nonexistent-c17/é (1).mp3', fs=2 ** 33 + 5, bt=2 ** 33 + 4, fr='File not shared.', ar='Blocked', piq=250,
             qa=1, lqa=0, ura=1, lura=1, stt=1, ct=None, off=True),
    ]
    specs = []
    for st in ALL_STATES:
        for d in (0, 1):
            for rq in (False, True):
                for pi, prof in enumerate(profiles):
                    u = f'u{st}' if pi < 4 else f'é日本 {st}'
                    p = f'@@c17\\{d}\\p{pi}-{int(rq)}.mp3' if pi != 1 else ('' if (st, d, rq) == (1, 1, True) else f'{pi}{int(rq)}')
                    if pi == 1 and (st, d, rq) == (4, 1, True):
                        u = ''
                    specs.append({'u': u, 'p': p, 'd': d, 'st': st, 'rq': rq, 'tk': 0, **prof})
    assert len({(x['u'], x['p'], x['d']) for x in specs}) == len(specs)
    return specs


def write_corpus(repo: str = '/repo') -> int:
    """(Re)generate corpus/C17/head-writer-records.json with the UNMODIFIED code of `repo` (run it on the pinned tree only:
    `VERIF_REPO=/repo /venv/bin/python -m props.c17 write-corpus`): real Transfer objects, the real
    `TransferShelveCache.write`, the raw bytes and keys read back from the dbm file."""
    import subprocess
    from aioslsk.transfer.model import Transfer, TransferDirection
    from aioslsk.transfer.cache import TransferShelveCache
    specs = _corpus_specs()
    tmp = tempfile.mkdtemp(prefix='c17-corpus-')

    async def build(loop):
        ts = []
        for sp in specs:
            sp = _norm_spec(sp)
            t = Transfer(sp['u'], sp['p'], TransferDirection(sp['d']))
            _apply_spec(t, sp, loop)
            ts.append(t)
        TransferShelveCache(tmp).write(ts)
    simloop.run(build, wall_timeout=60.0)
    recs = []
    with shelve.open(os.path.join(tmp, 'transfers'), flag='r') as sh:
        raw = {(k.decode() if isinstance(k, bytes) else k): bytes(sh.dict[k]) for k in sh.dict.keys()}
    for sp in specs:
        key = _pinned_key(sp['u'], sp['p'], sp['d'])
        recs.append({'spec': sp, 'key': key, 'pickle': base64.b64encode(raw.pop(key)).decode()})
    assert not raw, 'the writer left entries under keys the pinned key format does not produce'
    shutil.rmtree(tmp, ignore_errors=True)
    head = subprocess.run(['git', '-C', repo, 'rev-parse', 'HEAD'], capture_output=True, text=True).stdout.strip()
    dirty = subprocess.run(['git', '-C', repo, 'status', '--porcelain', 'src/aioslsk/transfer'], capture_output=True,
                           text=True).stdout.strip()
    CORPUS_FILE.parent.mkdir(parents=True, exist_ok=True)
    CORPUS_FILE.write_text(json.dumps({
        'what': 'transfer cache entries written by the unmodified TransferShelveCache.write / Transfer.__getstate__ of the '
                'pinned tree (key, pickle bytes as stored by shelve, and the attribute values they were written from)',
        'written_by_commit': head, 'worktree_clean': not dirty, 'python': sys.version.split()[0],
        'pickle_protocol': pickle.DEFAULT_PROTOCOL, 'records': recs}, indent=0, ensure_ascii=False))
    return len(recs)


def _corpus_self_check() -> list[str]:
    """The frozen writer above IS the writer that produced the corpus: same key, same bytes, for every record."""
    bad = []
    for i, r in enumerate(corpus()['records']):
        sp = r['spec']
        if _pinned_key(sp['u'], sp['p'], sp['d']) != r['key']:
            bad.append(f'record {i}: key')
        elif _pinned_pickle(sp) != r['bytes']:
            bad.append(f'record {i}: bytes')
    # remote-queue mark set / not set in every state x direction; every persisted field with its falsy legal value
    grid = {(r['spec']['st'], r['spec']['d'], bool(r['spec']['rq'])) for r in corpus()['records']}
    bad += [f'grid: no record with state {st}, direction {d}, remotely_queued {rq}'
            for st in ALL_STATES for d in (0, 1) for rq in (False, True) if (st, d, rq) not in grid]
    for k, v in BOUNDARY.items():
        if not any(r['spec'][k] is not None and r['spec'][k] == v and type(r['spec'][k]) is type(v)
                   for r in corpus()['records']):
            bad.append(f'grid: no record with {k} = {v!r}')
    return bad


def _tree_writer_differs() -> int:
    """How many corpus records the writer of the tree UNDER TEST would store differently (information only: a release may
    change what it writes as long as it still reads what its predecessors wrote)."""
    from aioslsk.transfer.model import Transfer, TransferDirection
    n = 0

    async def run(loop):
        nonlocal n
        for r in corpus()['records']:
            sp = _norm_spec(r['spec'])
            t = Transfer(sp['u'], sp['p'], TransferDirection(sp['d']))
            _apply_spec(t, sp, loop)
            try:
                if pickle.dumps(t, pickle.DEFAULT_PROTOCOL) != r['bytes']:
                    n += 1
            except Exception:
                n += 1
    simloop.run(run, wall_timeout=60.0)
    return n


class _StubNet:
    """The network as the first management cycle sees it: peer messages are recorded and then stay in flight."""

    def __init__(self):
        self.sent: list = []
        self.unknown: list = []        # attributes the code asked for that this stub does not have

    def __getattr__(self, name):
        if not name.startswith('__'):
            self.__dict__.setdefault('unknown', []).append(name)
        raise AttributeError(name)

    async def send_peer_messages(self, username, *messages, raise_on_error=True):
        for m in messages:
            self.sent.append([username, type(m).__qualname__.split('.')[0], getattr(m, 'filename', None)])
        await asyncio.get_running_loop().create_future()


class _StubUsers:
    def __init__(self):
        self.offline: set = set()

    def get_user_object(self, username):
        from aioslsk.user.model import User, UserStatus
        return User(name=username, status=UserStatus.OFFLINE if username in self.offline else UserStatus.UNKNOWN)

    # tracking requests go to the server in the real UserManager: they suspend the caller, nothing else
    async def track_user(self, username, flag=None):
        await asyncio.sleep(0)

    async def untrack_user(self, username, flag=None):
        await asyncio.sleep(0)


def _tid(t) -> tuple:
    return (t.username, t.remote_path, t.direction.value)


def _sid(ident) -> str:
    return f'{_xs(ident[0])},{_xs(ident[1])},{ident[2]}'


class _Ghost:
    """What the user has been told, kept from the REAL events and call returns (no model involved).
    `there`: addition reported (TransferAddedEvent delivered / add() returned the new transfer / loaded) and no
    remove() called since; `gone`: removal reported (TransferRemovedEvent delivered / remove() returned) and no add()
    called since (an add() called while the removal was in progress makes that removal's report say nothing).
    Everything else is unspecified."""

    def __init__(self):
        self.there: set = set()
        self.gone: set = set()
        self.removing: dict = {}       # ident -> {'tainted': bool}
        self.adding: dict = {}         # ident -> {'rm_called': bool}   (add() called, not returned)

    def add_called(self, ident):
        if ident in self.removing:
            self.removing[ident]['tainted'] = True
        self.gone.discard(ident)
        self.adding.setdefault(ident, {'rm_called': False, 'n': 0})['n'] += 1

    def added_reported(self, ident):
        self.there.add(ident)
        self.gone.discard(ident)

    def add_returned(self, ident, was_added: bool):
        rec = self.adding.get(ident)
        if rec is None:
            return
        if was_added and not rec['rm_called']:
            self.there.add(ident)
        rec['n'] -= 1
        if rec['n'] <= 0:
            del self.adding[ident]

    def remove_called(self, ident):
        self.there.discard(ident)
        self.removing[ident] = {'tainted': False}
        if ident in self.adding:
            self.adding[ident]['rm_called'] = True

    def removed_reported(self, ident):
        rec = self.removing.get(ident)
        self.there.discard(ident)
        if rec is not None and not rec['tainted']:
            self.gone.add(ident)

    def remove_returned(self, ident, ok: bool = True):
        rec = self.removing.pop(ident, None)
        if ok and rec is not None and not rec['tainted']:
            self.there.discard(ident)
            self.gone.add(ident)

    def restarted(self, idents):
        self.__init__()
        self.there = set(idents)

    def view(self) -> dict:
        return {'there': sorted(map(list, self.there)), 'gone': sorted(map(list, self.gone)),
                'inflight': sorted(map(list, set(self.removing) | set(self.adding)))}


class _Pend:
    """An operation running as its own task, suspended at a gate inside one of the application's listeners."""

    def __init__(self):
        self.task = None
        self.gate = None
        self.at = None
        self.transfer = None
        # a `load_data()` task only:
        self.gates: list = []          # its suspended TransferAddedEvent deliveries (one, unless it registers concurrently)
        self.registered: list = []     # identities read_cache() has registered so far
        self.touched: set = set()      # identities other operations were called for while it was running
        self.wrote = False             # the cache was written while it was running


class _App:
    """The application: listens to TransferAddedEvent / TransferRemovedEvent on the bus and to state changes of the
    transfers it is interested in; each listener suspends at a gate when the schedule says so."""

    def __init__(self, loop, ghost: _Ghost):
        self.loop = loop
        self.ghost = ghost
        self.added = 0
        self.removed = 0
        self.pend: dict = {}           # ('add' | 'rm', ident) -> _Pend
        self.load: Optional[_Pend] = None      # `load_data()` running as its own task
        self.mine: list = []                   # Transfer objects the harness created itself (anything else comes from the cache)

    async def _gate(self, rec: _Pend, at: str):
        rec.at = at
        rec.gate = self.loop.create_future()
        await rec.gate

    async def on_added(self, event):
        self.added += 1
        ident = _tid(event.transfer)
        ld = self.load
        if ld is not None and not ld.task.done() and not any(event.transfer is x for x in self.mine):
            # registered by read_cache(): as far as the user can tell its add() was called just now
            self.ghost.add_called(ident)
            self.ghost.added_reported(ident)
            ld.registered.append(ident)
            fut = self.loop.create_future()
            ld.gates.append(fut)
            await fut
            self.ghost.add_returned(ident, True)
            return
        self.ghost.added_reported(ident)
        for rec in self.pend.get(('add', ident), []):          # add() calls suspended for this identity, oldest first
            if rec.transfer is event.transfer:
                await self._gate(rec, 'added')
                break

    async def on_removed(self, event):
        self.removed += 1
        ident = _tid(event.transfer)
        self.ghost.removed_reported(ident)
        rec = self.pend.get(('rm', ident))
        if rec is not None:
            await self._gate(rec, 'removed')

    async def on_transfer_state_changed(self, transfer, old, new):
        rec = self.pend.get(('rm', _tid(transfer)))
        if rec is not None and rec.transfer is transfer:
            await self._gate(rec, 'state')


def _apply_spec(t, s: dict, loop):
    from aioslsk.transfer.state import TransferState
    t.state = TransferState.init_from_state(TransferState.State(s['st']), t)
    t.local_path = s['lp']
    t.filesize = s['fs']
    t.bytes_transfered = s['bt']
    t.fail_reason = s['fr']
    t.abort_reason = s['ar']
    t.remotely_queued = bool(s['rq'])
    t.place_in_queue = s['piq']
    t.queue_attempts = s['qa']
    t.last_queue_attempt = float(s['lqa'])
    t.upload_request_attempts = s['ura']
    t.last_upload_request_attempt = float(s['lura'])
    t.start_time = None if s['stt'] is None else float(s['stt'])
    t.complete_time = None if s['ct'] is None else float(s['ct'])
    if s['off']:
        t._offset = 0
    else:
        t.__dict__.pop('_offset', None)
    t._transfer_task = loop.create_future() if s['tk'] >= 1 else None
    t._remotely_queue_task = loop.create_future() if s['tk'] >= 2 else None


def _fields(t, mgr=None) -> dict:
    d = {
        'u': t.username, 'p': t.remote_path, 'd': t.direction.value, 'st': t.state.VALUE.value,
        'lp': t.local_path, 'fs': t.filesize, 'bt': t.bytes_transfered, 'fr': t.fail_reason, 'ar': t.abort_reason,
        'rq': t.remotely_queued, 'piq': t.place_in_queue, 'qa': t.queue_attempts, 'lqa': t.last_queue_attempt,
        'ura': t.upload_request_attempts, 'lura': t.last_upload_request_attempt, 'stt': t.start_time,
        'ct': t.complete_time, 'off': '_offset' in t.__dict__,
        'tk': sum(x is not None for x in (t._remotely_queue_task, t._transfer_task)),
    }
    if mgr is not None:
        ls = [l for l in t.state_listeners if not isinstance(l, _App)]     # (the harness listens too while it removes)
        d['ls'] = f'{len(ls)}/{sum(1 for l in ls if l is mgr)}'
    return d


def _show(f: dict) -> str:
    return (f"u={_xs(f['u'])} p={_xs(f['p'])} d={f['d']} st={f['st']} lp={_xs(f['lp'])} fs={_on(f['fs'])} "
            f"bt={_num(f['bt'])} fr={_xs(f['fr'])} ar={_xs(f['ar'])} rq={int(f['rq']) if isinstance(f['rq'], bool) else f['rq']!r} "
            f"piq={_on(f['piq'])} qa={_num(f['qa'])} lqa={_num(f['lqa'])} ura={_num(f['ura'])} lura={_num(f['lura'])} "
            f"stt={_on(f['stt'])} ct={_on(f['ct'])} off={int(f['off'])} ls={f['ls']} tk={f['tk']}")


def _raw_enum(v, enum_cls):
    """value of an enum member however the writer stored it (member / value / name); '?' = not understood"""
    if isinstance(v, enum_cls):
        return v.value
    try:
        if isinstance(v, str):
            return enum_cls[v].value
        if isinstance(v, int) and not isinstance(v, bool):
            return enum_cls(v).value
    except (KeyError, ValueError):
        pass
    return '?'


def _raw_db(tmp: str) -> list[dict]:
    """The pickled dicts in the shelve, read without running any aioslsk code."""
    from aioslsk.transfer.model import TransferDirection
    from aioslsk.transfer.state import TransferState
    out = []
    with shelve.open(os.path.join(tmp, 'transfers'), flag='c') as sh:
        for k in list(sh.dict.keys()):          # (the order in which `TransferShelveCache.read` will get them)
            obj = _RawUnpickler(io.BytesIO(sh.dict[k])).load()
            st = obj.st
            out.append({'key': k.decode() if isinstance(k, bytes) else k, 'h': hashlib.sha256(bytes(sh.dict[k])).hexdigest()[:16],
                        'u': st.get('username'), 'p': st.get('remote_path'),
                        'd': _raw_enum(st.get('direction'), TransferDirection),
                        'st': _raw_enum(st.get('state'), TransferState.State),
                        'lp': st.get('local_path'), 'fs': st.get('filesize'), 'bt': st.get('bytes_transfered'),
                        'fr': st.get('fail_reason'), 'ar': st.get('abort_reason', '!'), 'rq': st.get('remotely_queued')})
    return out


def _legacy_rewrite(tmp: str, u, p, d, a, o, kk, s):
    """Environment action: rewrite the stored entry of identity (u,p,d) as an older release would have left it:
    without `abort_reason` (a), with `_offset` (o), under the pre-fix key (kk), or with a state that has no class (s).
    Works on the raw pickles; returns None when no entry has this identity."""
    from aioslsk.transfer.state import TransferState
    with shelve.open(os.path.join(tmp, 'transfers'), flag='c') as sh:
        found = None
        for key in list(sh.dict.keys()):
            st = _RawUnpickler(io.BytesIO(sh.dict[key])).load().st
            if st.get('username') == u and st.get('remote_path') == p and st['direction'].value == d:
                found = (key, dict(st))
                break
        if found is None:
            return None
        key, st = found
        if a:
            st.pop('abort_reason', None)
            st['bytes_read'] = 0          # attributes of an older release (ignored by the code)
            st['bytes_written'] = 0
        if o:
            st['_offset'] = 0
        if s:
            st['state'] = TransferState.State.UNSET
        data = pickle.dumps(_LegacyWriter(st))
        if kk:
            del sh.dict[key]
            key = hashlib.sha256((u + p + str(d)).encode('utf-8')).hexdigest().encode()
        sh.dict[key] = data
        return key


def _raw_put(tmp: str, key: str, data: bytes):
    """Environment action: one raw entry appears in the cache file."""
    with shelve.open(os.path.join(tmp, 'transfers'), flag='c') as sh:
        sh.dict[key.encode()] = data


def _dupkey(tmp: str, u, p, d):
    """Environment action: the stored entry of identity (u,p,d) is also present under the key of the release before the
    key fix (one transfer, two keys). Returns None when no entry has this identity."""
    with shelve.open(os.path.join(tmp, 'transfers'), flag='c') as sh:
        for key in list(sh.dict.keys()):
            st = _RawUnpickler(io.BytesIO(sh.dict[key])).load().st
            if st.get('username') == u and st.get('remote_path') == p and st['direction'].value == d:
                sh.dict[_pinned_key(u, p, d, old=True).encode()] = sh.dict[key]
                return key
    return None


def _ambiguous(raw: list[dict]) -> bool:
    """the cache holds one identity in two entries that differ: which one a load keeps is shelve's order (unspecified)"""
    seen: dict = {}
    for r in raw:
        if seen.setdefault(_id(r), r['h']) != r['h']:
            return True
    return False


def _new_manager(tmp: str, users: _StubUsers, app=None):
    from aioslsk.transfer.manager import TransferManager
    from aioslsk.transfer.cache import TransferShelveCache
    from aioslsk.settings import Settings
    from aioslsk.events import EventBus, TransferAddedEvent, TransferRemovedEvent
    bus = EventBus()
    if app is not None:
        bus.register(TransferAddedEvent, app.on_added)
        bus.register(TransferRemovedEvent, app.on_removed)
    settings = Settings(credentials={'username': 'me', 'password': 'pw'})
    settings.transfers.limits.upload_slots = 64        # (slot arithmetic is C05's subject: never the limiting factor here)
    mgr = TransferManager(settings, bus, users, types.SimpleNamespace(), _StubNet(), cache=TransferShelveCache(tmp))
    return mgr, bus


async def _run_ops(loop, case: dict, tmp: str):
    from aioslsk.transfer.model import Transfer, TransferDirection
    from aioslsk.transfer.state import TransferState
    from aioslsk.transfer.manager import _RequestFlag
    obs: list[str] = []
    trace: list[dict] = []
    users = _StubUsers()
    ghost = _Ghost()
    keep = []                              # strong refs (EventBus holds listeners weakly; abandoned tasks)
    app = _App(loop, ghost)
    mgr, bus = _new_manager(tmp, users, app)
    keep.append((bus, app))

    def wipe():
        for fn in os.listdir(tmp):
            os.unlink(os.path.join(tmp, fn))

    def find(m, u, p, d):
        for t in m.transfers:
            if t.username == u and t.remote_path == p and t.direction.value == d:
                return t
        return None

    def abandon():
        """the process ends: whatever is suspended is never resumed"""
        keep.extend(app.pend.values())
        app.pend.clear()
        if app.load is not None:
            keep.append(app.load)
            app.load = None

    def touch(ident):
        """an operation on this identity is called while `load_data()` is running"""
        if app.load is not None:
            app.load.touched.add(tuple(ident))

    def load_outcome(k, idx, ld, extra=None):
        """where a `load_data()` task stands now: suspended after the entry it has just registered / ended"""
        n = len(mgr.transfers)
        ev = {'op': k, 'i': idx, **(extra or {})}
        if not ld.task.done():
            if not any(not g.done() for g in ld.gates):
                ev['phase'] = 'stuck'
                trace.append(ev)
                return f'stuck {n} {app.added}'
            ev.update(phase='loading', registered=[list(i) for i in ld.registered])
            trace.append(ev)
            return f'loading {n} {app.added} {_sid(ld.registered[-1])}'
        app.load = None
        exc = ld.task.exception() if not ld.task.cancelled() else asyncio.CancelledError()
        ev.update(phase='ended', touched=sorted(map(list, ld.touched)), wrote=ld.wrote,
                  registered=[list(i) for i in ld.registered])
        if exc is not None:
            ev['error'] = f'{type(exc).__name__}: {exc}'[:200]
            ev['loaded_before_error'] = n
            trace.append(ev)
            return 'error no-state-class' if 'no state class' in str(exc) else f'EXC {k} {type(exc).__name__}'
        loaded = [_fields(t, mgr) for t in mgr.transfers]
        ev.update(loaded=loaded, added_events=app.added,
                  cycle_requested=bool(mgr._management_flags & _RequestFlag.TRANSFER_CHANGE))
        trace.append(ev)
        return f'loaded {n} {app.added} ' + '|'.join(_show(f) for f in loaded)

    def pending_recs():
        for key, v in app.pend.items():
            yield from (v if key[0] == 'add' else [v])

    def finish_rm(ident, rec):
        """outcome of a remove() task that is no longer (or not yet again) suspended"""
        n = len(mgr.transfers)
        if rec.task.done():
            del app.pend[('rm', ident)]
            if rec.transfer is not None and app in rec.transfer.state_listeners:
                rec.transfer.state_listeners.remove(app)
            exc = rec.task.exception() if not rec.task.cancelled() else asyncio.CancelledError()
            if exc is not None:
                ghost.remove_returned(ident, ok=False)
                raise exc
            ghost.remove_returned(ident)
            return f'done {n} {app.removed}'
        if rec.at == 'state':
            return f'aborting {n} {app.removed} st={rec.transfer.state.VALUE.value}'
        if rec.at == 'removed':
            return f'announcing {n} {app.removed}'
        return f'stuck {n} {app.removed}'

    for idx, op in enumerate(case['ops']):
        k = op[0]
        try:
            if k == 'new':
                wipe()
                abandon()
                ghost.restarted([])
                app = _App(loop, ghost)
                mgr, bus = _new_manager(tmp, users, app)
                keep.append((bus, app))
                obs.append('ok')
                trace.append({'op': 'new'})
            elif k in ('add', 'addc'):
                s = op[1]
                t = Transfer(s['u'], s['p'], TransferDirection(s['d']))
                _apply_spec(t, s, loop)
                app.mine.append(t)
                ident = _tid(t)
                trace.append({'op': k})
                touch(ident)
                ghost.add_called(ident)
                if k == 'add':
                    r = await mgr.add(t)
                    ghost.add_returned(ident, r is t)
                    obs.append(f'ok {len(mgr.transfers)} {app.added}')
                else:
                    rec = _Pend()
                    rec.transfer = t
                    app.pend.setdefault(('add', ident), []).append(rec)
                    rec.task = loop.create_task(mgr.add(t))
                    await simloop.settle()
                    if rec.task.done():
                        app.pend[('add', ident)].remove(rec)
                        if not app.pend[('add', ident)]:
                            del app.pend[('add', ident)]
                        r = rec.task.result()
                        ghost.add_returned(ident, r is t)
                        obs.append(f'{"dup" if r is not t else "returned"} {len(mgr.transfers)} {app.added}')
                    else:
                        obs.append(f'{"pending" if rec.at == "added" else "stuck"} {len(mgr.transfers)} {app.added}')
            elif k == 'addr':
                ident = (op[1], op[2], op[3])
                trace.append({'op': 'addr'})
                recs = app.pend.get(('add', ident))
                if not recs:
                    obs.append('no-pending')
                else:
                    rec = recs[0]
                    rec.gate.set_result(None)
                    await simloop.settle()
                    if rec.task.done():
                        recs.remove(rec)
                        if not recs:
                            del app.pend[('add', ident)]
                        r = rec.task.result()
                        ghost.add_returned(ident, r is rec.transfer)
                        obs.append(f'ok {len(mgr.transfers)}')
                    else:
                        obs.append(f'stuck {len(mgr.transfers)}')
            elif k == 'mut':
                s = op[1]
                t = find(mgr, s['u'], s['p'], s['d'])
                touch((s['u'], s['p'], s['d']))
                if t is None:
                    obs.append('not-found')
                else:
                    _apply_spec(t, s, loop)
                    obs.append('ok')
                trace.append({'op': 'mut'})
            elif k in ('rm', 'rmc'):
                ident = (op[1], op[2], op[3])
                t = find(mgr, *ident)
                trace.append({'op': k})
                touch(ident)
                if t is None:
                    obs.append('not-found')
                elif ('rm', ident) in app.pend:
                    obs.append('busy')            # removals of one identity do not overlap (harness rule, see assumptions)
                elif k == 'rm':
                    ghost.remove_called(ident)
                    try:
                        await mgr.remove(t)
                    except BaseException:
                        ghost.remove_returned(ident, ok=False)
                        raise
                    ghost.remove_returned(ident)
                    obs.append(f'ok {len(mgr.transfers)}')
                else:
                    rec = _Pend()
                    rec.transfer = t
                    app.pend[('rm', ident)] = rec
                    t.state_listeners.append(app)
                    ghost.remove_called(ident)
                    rec.task = loop.create_task(mgr.remove(t))
                    await simloop.settle()
                    obs.append(finish_rm(ident, rec))
            elif k == 'rms':
                ident = (op[1], op[2], op[3])
                trace.append({'op': 'rms'})
                rec = app.pend.get(('rm', ident))
                if rec is None:
                    obs.append('no-pending')
                else:
                    rec.at = None
                    rec.gate.set_result(None)
                    await simloop.settle()
                    obs.append(finish_rm(ident, rec))
            elif k == 'store':
                how = op[1] if len(op) > 1 else 'store'
                ev = {'op': 'store', 'how': how}
                try:
                    if how == 'stop':               # what client.stop() does with this service
                        cancelled = await mgr.stop()
                        await asyncio.gather(*cancelled, return_exceptions=True)
                    ev['snapshot'] = [_fields(t) for t in mgr.transfers]
                    ev.update(ghost.view())
                    if app.load is not None:
                        app.load.wrote = True
                    await mgr.store_data()
                except Exception as e:
                    obs.append(f'EXC store {type(e).__name__}')
                    ev.setdefault('snapshot', [])
                    ev['error'] = f'{type(e).__name__}: {e}'[:200]
                    trace.append(ev)
                    continue
                with shelve.open(os.path.join(tmp, 'transfers'), flag='c') as sh:
                    keys = sorted(x.decode() if isinstance(x, bytes) else x for x in sh.dict.keys())
                obs.append('keys ' + ','.join(keys) + ' there=' + ';'.join(_sid(tuple(i)) for i in ev['there']) +
                           ' gone=' + ';'.join(_sid(tuple(i)) for i in ev['gone']))
                trace.append(ev)
            elif k == 'legacy':
                _, u, p, d, a, o, kk, s = op
                found = None
                try:
                    found = _legacy_rewrite(tmp, u, p, d, a, o, kk, s)
                except Exception as e:
                    raise _HarnessError(f'legacy rewrite failed: {e!r}') from e
                if found is None:
                    obs.append('not-found')
                    trace.append({'op': 'legacy', 'result': 'not-found'})
                else:
                    obs.append('ok')
                    trace.append({'op': 'legacy', 'result': 'ok', 'db_after': _raw_db(tmp)})
            elif k in ('prev', 'prevc', 'dupkey'):
                try:
                    if k == 'prev':       # the entry the pinned writer leaves for this transfer (frozen writer)
                        sp = op[1]
                        _raw_put(tmp, _pinned_key(sp['u'], sp['p'], sp['d'], old=bool(op[2])), _pinned_pickle(sp))
                        found = True
                    elif k == 'prevc':    # the very bytes the unmodified HEAD writer produced (corpus)
                        r = corpus()['records'][op[1]]
                        _raw_put(tmp, r['key'], r['bytes'])
                        found = True
                    else:
                        found = _dupkey(tmp, op[1], op[2], op[3])
                except Exception as e:
                    raise _HarnessError(f'{k} failed: {e!r}') from e
                if found is None:
                    obs.append('not-found')
                    trace.append({'op': k, 'result': 'not-found'})
                else:
                    obs.append('ok')
                    trace.append({'op': k, 'result': 'ok', 'db_after': _raw_db(tmp)})
            elif k == 'restart':
                abandon()
                raw = _raw_db(tmp)
                app = _App(loop, ghost)
                mgr, bus = _new_manager(tmp, users, app)
                keep.append((bus, app))
                try:
                    await mgr.load_data()
                except Exception as e:
                    ghost.restarted([])
                    if 'no state class' in str(e):
                        obs.append('error no-state-class')
                    else:
                        obs.append(f'EXC restart {type(e).__name__}')
                    trace.append({'op': 'restart', 'i': idx, 'error': f'{type(e).__name__}: {e}'[:200],
                                  'loaded_before_error': len(mgr.transfers)})
                    # the model's manager is empty after a failed load; make sure the real one is too
                    continue
                ghost.restarted([_tid(t) for t in mgr.transfers])
                loaded = [_fields(t, mgr) for t in mgr.transfers]
                obs.append(f'loaded {len(mgr.transfers)} {app.added} ' + '|'.join(_show(f) for f in loaded))
                trace.append({'op': 'restart', 'i': idx, 'loaded': loaded, 'added_events': app.added,
                              'ambiguous': _ambiguous(raw),
                              'cycle_requested': bool(mgr._management_flags & _RequestFlag.TRANSFER_CHANGE)})
            elif k == 'restartc':
                # the process ends; a new one runs load_data() as its own task, next to whatever else the application does
                abandon()
                raw = _raw_db(tmp)
                app = _App(loop, ghost)
                mgr, bus = _new_manager(tmp, users, app)
                keep.append((bus, app))
                ghost.restarted([])
                ld = _Pend()
                app.load = ld
                ld.task = loop.create_task(mgr.load_data())
                await simloop.settle()
                obs.append(load_outcome(k, idx, ld, {'order': [list(_id(r)) for r in raw], 'ambiguous': _ambiguous(raw)}))
            elif k == 'loadr':
                ld = app.load
                if ld is None:
                    obs.append('no-pending')
                    trace.append({'op': k, 'i': idx, 'phase': 'none'})
                else:
                    for g in [g for g in ld.gates if not g.done()]:
                        g.set_result(None)
                    await simloop.settle()
                    obs.append(load_outcome(k, idx, ld))
            elif k == 'cycle':
                # what client.start() does after load_data(): the services start; the first management cycle runs
                users.offline = set(op[1])
                net = mgr._network
                del net.sent[:]
                snapshot = [_fields(t) for t in mgr.transfers]
                n_exc = len(loop.exceptions)
                await mgr.start()
                await simloop.settle()
                sent = [list(x) for x in net.sent]
                cancelled = await mgr.stop()
                await asyncio.gather(*cancelled, return_exceptions=True)
                dl = sorted({(u, fn, 1) for u, cls, fn in sent if cls == 'PeerTransferQueue'})
                ul = [[u, fn] for u, cls, fn in sent if cls == 'PeerTransferRequest']
                obs.append('dl=' + '|'.join(f'{_xs(u)},{_xs(fn)},{d}' for u, fn, d in dl) +
                           ' ul=' + '|'.join(_xs(u) for u, _fn in ul))
                trace.append({'op': 'cycle', 'offline': sorted(op[1]), 'dl': [list(x) for x in dl],
                              'ul': [[u, fn, 0, ST_INIT] for u, fn in ul], 'sent': sent, 'transfers': snapshot,
                              # the stub does not stand for the network the code talks to (not judged then)
                              'undrivable': sorted(set(net.unknown)) + [e['exception'] for e in loop.exceptions[n_exc:]]})
            elif k == 'sched':
                users.offline = set(op[1])
                dl, ul = mgr._get_queued_transfers()
                obs.append('dl=' + '|'.join(f'{_xs(t.username)},{_xs(t.remote_path)},{t.direction.value}' for t in dl) +
                           ' ul=' + '|'.join(_xs(t.username) for t in ul))
                trace.append({'op': 'sched', 'offline': sorted(op[1]),
                              'dl': [[t.username, t.remote_path, t.direction.value] for t in dl],
                              'ul': [[t.username, t.remote_path, t.direction.value, t.state.VALUE.value] for t in ul],
                              'ul_known': all(any(t is x for x in mgr.transfers) for t in ul),
                              'transfers': [_fields(t) for t in mgr.transfers]})
            else:
                raise ValueError(f'unknown op {op!r}')
        except Exception as e:       # the real code raised where the model has no error: an observation
            obs.append(f'EXC {k} {type(e).__name__}')
            trace.append({'op': k, 'error': f'{type(e).__name__}: {e}'[:200]})

    # whatever is still suspended in the live manager resumes (a suspended abort holds the transfer's state lock)
    for _ in range(80):
        gates = [r.gate for r in pending_recs() if r.gate is not None and not r.gate.done()]
        if app.load is not None and not app.load.task.done():
            gates += [g for g in app.load.gates if not g.done()]
        if not gates:
            break
        for g in gates:
            g.set_result(None)
        await simloop.settle()
    keep.extend(app.pend.values())
    if app.load is not None:
        ld = app.load
        if ld.task.done():
            load_outcome('load-end', len(case['ops']), ld)       # judged by the monitor like any other ended load
        else:
            keep.append(ld)
            trace.append({'op': 'load-end', 'error': 'load_data() did not end after 80 resumptions'})

    # monitor-only: does a later state change of every transfer reach the manager?
    poke = []
    for t in list(mgr.transfers):
        try:
            mgr._management_flags = _RequestFlag(0)
            before = t.state.VALUE.value
            if before == ST_QUEUED or before in (ST_DL, ST_UL):
                done = await t.state.pause()
            else:
                done = await t.state.queue()
            poke.append({'ident': [t.username, t.remote_path, t.direction.value], 'from': before,
                         'to': t.state.VALUE.value, 'transitioned': bool(done),
                         'reported': bool(mgr._management_flags & _RequestFlag.TRANSFER_CHANGE)})
        except Exception as e:
            poke.append({'ident': [t.username, t.remote_path, t.direction.value], 'error': repr(e)[:200]})
    trace.append({'op': 'poke', 'results': poke})
    return obs, trace


# --------------------------------------------------------------------------------------------
# sweeps (monitor only): a write + the end of the process at every instant of a running schedule
# --------------------------------------------------------------------------------------------

TRANSITIONS = ['queue', 'pause', 'abort', 'fail', 'complete', 'incomplete', 'initialize', 'start_transferring']
LISTENER_MODES = ['none', 'none', 'write', 'slow', 'write+slow', 'write+slow+write']


async def _run_sweep(loop, case: dict, root: str):
    from aioslsk.transfer.model import Transfer, TransferDirection
    from aioslsk.exceptions import TransferNotFoundError
    data = os.path.join(root, 'data')
    os.mkdir(data)
    users = _StubUsers()
    ghost = _Ghost()
    probes: list[dict] = []
    errors: list[dict] = []
    keep: list = []

    if case.get('exec_defer'):
        # a thread pool answers later, not inline: `await asyncos.path.exists(..)` really suspends
        def deferred(executor, func, *args):
            fut = loop.create_future()

            def done():
                if fut.cancelled():
                    return
                try:
                    fut.set_result(func(*args))
                except BaseException as e:  # noqa
                    fut.set_exception(e)
            loop.call_soon(done)
            return fut
        loop.run_in_executor = deferred

    def probe(label: str, told=None):
        """write_cache() as the application / a periodic writer would call it right now, and the crash after it"""
        ev = {'op': 'probe', 'label': label, 'snapshot': [_fields(t) for t in mgr.transfers]}
        ev.update(ghost.view())
        if told is not None:
            ev['told'] = told
        try:
            mgr.write_cache()
        except Exception as e:
            ev.update(phase='write', error=f'{type(e).__name__}: {e}'[:200])
            probes.append(ev)
            return
        ev['dir'] = os.path.join(root, f'probe-{len(probes)}')
        shutil.copytree(data, ev['dir'])
        probes.append(ev)

    class SweepApp:
        async def _act(self, kind: str, label: str, told=None):
            mode = case['listeners'].get(kind, 'none').split('+')
            if mode[0] == 'write':
                probe(f'{label}: on entry', told)
            if 'slow' in mode:
                for _ in range(case.get('slow', 2)):
                    await asyncio.sleep(0)
                if mode[-1] == 'write' and len(mode) == 3:
                    probe(f'{label}: after its suspension')

        async def on_added(self, event):
            ident = _tid(event.transfer)
            ghost.added_reported(ident)
            await self._act('added', f'TransferAddedEvent listener {ident!r}')

        async def on_removed(self, event):
            ident = _tid(event.transfer)
            ghost.removed_reported(ident)
            await self._act('removed', f'TransferRemovedEvent listener {ident!r}')

        async def on_transfer_state_changed(self, transfer, old, new):
            ident = _tid(transfer)
            # "told" only counts for the object the manager lists (a detached transfer may share its identity with a
            # newer listed one)
            listed = any(t is transfer for t in mgr.transfers)
            await self._act('state', f'state listener {ident!r} {old.value}->{new.value}',
                            told=[list(ident), new.value] if listed else None)

    app = SweepApp()
    mgr, bus = _new_manager(data, users, app)
    keep.append((bus, app))

    async def dying(n: int):
        """a transfer task that needs n more loop iterations to end once it has been cancelled"""
        try:
            await loop.create_future()
        except asyncio.CancelledError:
            for _ in range(n):
                await asyncio.sleep(0)
            raise

    def build(sp: dict):
        t = Transfer(sp['u'], sp['p'], TransferDirection(sp['d']))
        _apply_spec(t, {**sp, 'tk': 0}, loop)
        if sp.get('tk', 0) >= 1:
            t._transfer_task = loop.create_task(dying(sp.get('die', 1)))
        if sp.get('tk', 0) >= 2:
            t._remotely_queue_task = loop.create_task(dying(sp.get('die', 1) + 1))
        t.state_listeners.append(app)
        return t

    async def do_add(sp: dict):
        t = build(sp)
        ident = _tid(t)
        ghost.add_called(ident)
        r = await mgr.add(t)
        ghost.add_returned(ident, r is t)

    # set-up: transfers added one after the other (listeners already active), then a quiescent write
    for sp in case['setup']:
        await do_add(sp)
    await asyncio.sleep(0)                # lets the tasks of the transfers start
    probe('set-up done')

    def find(ident):
        for t in mgr.transfers:
            if _tid(t) == tuple(ident):
                return t
        return None

    async def act(a: dict):
        for _ in range(a.get('delay', 0)):
            await asyncio.sleep(0)
        try:
            if a['do'] == 'add':
                await do_add(a['spec'])
            elif a['do'] == 'rm':
                t = find(a['id'])
                ident = tuple(a['id'])
                if t is None or ident in ghost.removing:
                    return
                ghost.remove_called(ident)
                try:
                    await mgr.remove(t)
                except BaseException:
                    ghost.remove_returned(ident, ok=False)
                    raise
                ghost.remove_returned(ident)
            elif a['do'] == 'tr':
                t = find(a['id'])
                if t is not None:
                    await getattr(t.state, a['method'])()
        except TransferNotFoundError:
            pass
        except Exception as e:
            errors.append({'op': a['do'], 'error': f'{type(e).__name__}: {e}'[:200]})

    mask = case.get('ticks', 'all')

    async def ticker(tasks):
        """the periodic writer: fires at every loop iteration (or at the chosen ones) while the schedule runs"""
        i = 0
        while not all(t.done() for t in tasks):
            if i >= 80:
                errors.append({'op': 'sweep', 'error': 'schedule did not finish within 80 loop iterations'})
                break
            if mask == 'all' or i in mask:
                probe(f'loop iteration {i}')
            await asyncio.sleep(0)
            i += 1

    if case.get('ticker_first'):
        tasks: list = []
        tk = loop.create_task(ticker(tasks))
        tasks.extend(loop.create_task(act(a)) for a in case['block'])
    else:
        tasks = [loop.create_task(act(a)) for a in case['block']]
        tk = loop.create_task(ticker(tasks))
    await tk
    await asyncio.gather(*tasks, return_exceptions=True)
    await simloop.settle()
    probe('schedule finished')
    if case.get('stop'):
        cancelled = await mgr.stop()
        await asyncio.gather(*cancelled, return_exceptions=True)
        ev = {'op': 'probe', 'label': 'stop() + store_data()', 'snapshot': [_fields(t) for t in mgr.transfers]}
        ev.update(ghost.view())
        await mgr.store_data()
        ev['dir'] = os.path.join(root, f'probe-{len(probes)}')
        shutil.copytree(data, ev['dir'])
        probes.append(ev)
    for t in list(mgr.transfers):
        for task in t.cancel_tasks():
            keep.append(task)

    # every write is followed by the end of the process: a fresh manager loads the copy made at that instant
    trace: list[dict] = [{'op': 'sweep-error', 'error': e['error'], 'what': e['op']} for e in errors]
    for ev in probes:
        d = ev.pop('dir', None)
        if d is not None:
            m2, b2 = _new_manager(d, users, None)
            try:
                await m2.load_data()
                ev['loaded'] = [_fields(t, m2) for t in m2.transfers]
            except Exception as e:
                ev.update(phase='load', error=f'{type(e).__name__}: {e}'[:200])
        trace.append(ev)
    return [], trace


def _gen_sweep(rng: random.Random) -> dict:
    n = rng.choice([1, 2, 2, 3, 4])
    idents: list[tuple] = []
    while len(idents) < n:
        i = _gen_ident(rng)
        if i not in idents:
            idents.append(i)
    setup = []
    for i in idents:
        sp = _gen_spec(rng, i)
        sp['die'] = rng.choice([0, 1, 2, 3])
        setup.append(sp)
    block = []
    busy_rm: set = set()
    for _ in range(rng.choice([1, 1, 2, 2, 3])):
        r = rng.random()
        if r < 0.5:
            cands = [i for i in idents if i not in busy_rm]
            if not cands:
                continue
            i = rng.choice(cands)
            busy_rm.add(i)
            block.append({'do': 'rm', 'id': list(i), 'delay': rng.choice([0, 0, 1, 2])})
        elif r < 0.75:
            i = rng.choice(idents) if rng.random() < 0.3 else _gen_ident(rng)
            sp = _gen_spec(rng, i)
            sp['die'] = rng.choice([0, 1, 2])
            block.append({'do': 'add', 'spec': sp, 'delay': rng.choice([0, 0, 1, 3])})
        else:
            block.append({'do': 'tr', 'id': list(rng.choice(idents)), 'method': rng.choice(TRANSITIONS),
                          'delay': rng.choice([0, 0, 1, 2])})
    if not block:
        block.append({'do': 'rm', 'id': list(idents[0]), 'delay': 0})
    ticks = rng.choice(['all', 'all', 'none', 'some'])
    return {'kind': 'sweep', 'setup': setup, 'block': block,
            'listeners': {'added': rng.choice(LISTENER_MODES), 'removed': rng.choice(LISTENER_MODES[1:]),
                          'state': rng.choice(LISTENER_MODES)},
            'slow': rng.choice([1, 2, 3]),
            'ticks': 'all' if ticks == 'all' else [] if ticks == 'none' else sorted(rng.sample(range(12), 3)),
            'ticker_first': rng.random() < 0.5, 'exec_defer': rng.random() < 0.5, 'stop': rng.random() < 0.3}


async def _run_loadsweep(loop, case: dict, root: str):
    """`load_data()` of a fresh manager next to tasks that call the public API for entries of the cache."""
    from aioslsk.transfer.model import Transfer, TransferDirection
    data = os.path.join(root, 'data')
    os.mkdir(data)
    users = _StubUsers()
    keep: list = []
    errors: list = []
    # session 1 leaves the cache (written by the tree under test, or by the pinned writer)
    if case['writer'] == 'tree':
        m1, b1 = _new_manager(data, users, None)
        for sp in case['cache']:
            t = Transfer(sp['u'], sp['p'], TransferDirection(sp['d']))
            _apply_spec(t, sp, loop)
            await m1.add(t)
        await m1.store_data()
    else:
        for sp in case['cache']:
            _raw_put(data, _pinned_key(sp['u'], sp['p'], sp['d']), _pinned_pickle(sp))
    for k in case['dupkeys']:
        sp = case['cache'][k]
        _dupkey(data, sp['u'], sp['p'], sp['d'])
    raw = _raw_db(data)

    class App:
        added = 0

        async def on_added(self, event):           # a listener that hands the event on (queue / UI / database): it yields
            self.added += 1
            for _ in range(case['slow']):
                await asyncio.sleep(0)

        async def on_removed(self, event):
            pass

    app = App()
    m2, b2 = _new_manager(data, users, app)
    keep.append((b2, app))

    async def wish(w):
        for _ in range(w['delay']):
            await asyncio.sleep(0)
        u, p, _d = w['id']
        if case['how'] == 'download':
            await m2.download(u, p)
        else:
            await m2.add(Transfer(u, p, TransferDirection.DOWNLOAD))

    coros = [m2.load_data()] + [wish(w) for w in case['wish']]
    if not case['load_first']:
        coros = coros[1:] + coros[:1]
    tasks = [loop.create_task(c) for c in coros]
    for r in await asyncio.gather(*tasks, return_exceptions=True):
        if isinstance(r, BaseException):
            errors.append(f'{type(r).__name__}: {r}'[:200])
    await simloop.settle()
    ev = {'op': 'loadsweep', 'cache': [list(_id(r)) for r in raw], 'wish': [w['id'] for w in case['wish']],
          'listed': [list(_tid(t)) for t in m2.transfers], 'added_events': app.added, 'errors': errors,
          'corrupt': any(r['st'] == -1 for r in raw)}
    try:
        await m2.store_data()
        m3, b3 = _new_manager(data, users, None)
        await m3.load_data()
        ev['after_restart'] = [list(_tid(t)) for t in m3.transfers]
    except Exception as e:
        ev['errors'].append(f'{type(e).__name__}: {e}'[:200])
    for t in list(m2.transfers):
        keep.extend(t.cancel_tasks())
    return [], [ev]


def _run_impl(case: dict):
    tmp = tempfile.mkdtemp(prefix='c17-', dir='/dev/shm' if os.path.isdir('/dev/shm') else None)
    try:
        if case.get('kind') == 'sweep':
            (obs, trace), _loop = simloop.run(_run_sweep, case, tmp, wall_timeout=120.0)
        elif case.get('kind') == 'loadsweep':
            (obs, trace), _loop = simloop.run(_run_loadsweep, case, tmp, wall_timeout=120.0)
        else:
            (obs, trace), _loop = simloop.run(_run_ops, case, tmp, wall_timeout=120.0)
        return obs, trace
    finally:
        shutil.rmtree(tmp, ignore_errors=True)


def _eval_case(case):
    try:
        return _run_impl(case)
    except (Exception, _HarnessError) as e:           # harness-level failure on this case: surfaces as a disagreement
        return [f'HARNESS-EXC {type(e).__name__}: {e}'], []


# --------------------------------------------------------------------------------------------
# monitor: the property statement on the implementation trace (no model involved)
# --------------------------------------------------------------------------------------------

def _expected_state(st: int, fs, bt) -> int:
    if st == ST_INIT:
        return ST_QUEUED
    if st in (ST_DL, ST_UL):
        return ST_COMPLETE if (fs is not None and fs == bt) else ST_INCOMPLETE
    return st


def _id(f) -> tuple:
    return (f['u'], f['p'], f['d'])


def _check_restart(flag, baseline: list, ghost: Optional[dict], loaded: list, where: str = 'a restart',
                   told: Optional[list] = None, touched=()):
    """The statement at one restart. `baseline`: attributes of the public list at the instant of the last write (or the
    raw records after an environment rewrite — these may hold one identity under two keys); `ghost`: what had been reported
    to the user at that instant (None after an environment rewrite); `loaded`: what the fresh manager holds; `touched`:
    identities for which other operations were called while the load was running (judged on "each once" only)."""
    if any(not (isinstance(f['u'], str) and isinstance(f['p'], str) and isinstance(f['d'], int)) for f in baseline):
        return                 # raw entries whose identity the harness cannot read (a format it does not know): not judged
    want, got = Counter(_id(f) for f in baseline), Counter(_id(f) for f in loaded)
    touched = {tuple(i) for i in touched}
    there = {tuple(i) for i in ghost['there']} if ghost else set()
    gone = {tuple(i) for i in ghost['gone']} if ghost else set()
    inflight = {tuple(i) for i in ghost['inflight']} if ghost else set()
    for ident in sorted(set(want) | set(got) | there | gone, key=repr):
        if got[ident] > 1:
            flag('C17-transfer-duplicated', f'transfer {ident!r} is present {got[ident]} times after {where}'
                 + (f' (the cache held it under {want[ident]} keys)' if want[ident] > 1 else ''),
                 observed=got[ident], required=1)
        if ident in touched:
            continue
        if ident in gone:
            if got[ident]:
                flag('C17-removed-transfer-back', f'the removal of {ident!r} had been reported (TransferRemovedEvent '
                     f'delivered / remove() returned) when the cache was written, yet it is loaded after {where}',
                     observed=sorted(map(repr, got)), required=f'{ident!r} absent')
        elif ident in there:
            if not got[ident]:
                flag('C17-transfer-lost', f'the addition of {ident!r} had been reported (TransferAddedEvent delivered / '
                     f'add() returned / loaded) when the cache was written, yet it is not there after {where}',
                     observed=sorted(map(repr, got)), required=f'{ident!r} present')
        elif ident in inflight:
            continue           # an add() / remove() of this identity was in progress and had reported nothing yet
        elif want[ident] and not got[ident]:
            flag('C17-transfer-lost', f'transfer {ident!r} was written to the cache but is not there after '
                 f'{where} ({len(baseline)} stored, {len(loaded)} loaded)',
                 observed=sorted(map(repr, got)), required=sorted(map(repr, want)))
        elif got[ident] and not want[ident]:
            flag('C17-removed-transfer-back', f'transfer {ident!r} is not in the stored list but was loaded',
                 observed=sorted(map(repr, got)), required=sorted(map(repr, want)))
    by_id = defaultdict(list)
    for f in baseline:
        by_id[_id(f)].append(f)
    for f in loaded:
        cands = by_id.get(_id(f))
        if not cands or got[_id(f)] != 1 or _id(f) in touched:
            continue
        # one identity under two keys: the loaded transfer is the image of ONE of the entries (which one is shelve's order)
        results = []
        for b in cands:
            local: list = []
            _check_one(lambda *a, **kw: local.append((a, kw)), f, b, where, told)
            results.append(local)
        for a, kw in min(results, key=len):
            flag(*a, **kw)


def _check_one(flag, f: dict, b: dict, where: str, told: Optional[list]):
    """one loaded transfer `f` against the stored entry `b` it comes from"""
    if True:
        for fld in ('lp', 'fs', 'bt', 'fr'):
            if f[fld] != b[fld]:
                flag('C17-field-changed', f'{fld} of {_id(f)!r} changed over {where}',
                     observed=f[fld], required=b[fld])
        bar = None if b['ar'] == '!' else b['ar']
        ok_ar = f['ar'] == bar or (bar is None and b['st'] == ST_ABORTED and f['ar'] == 'Requested')
        if not ok_ar:
            flag('C17-field-changed', f'abort_reason of {_id(f)!r} changed over {where}',
                 observed=f['ar'], required=bar)
        bst = b['st']
        if not isinstance(bst, int):
            bst = f['st'] if f['st'] not in IN_PROGRESS else None     # stored state not understood: only "in progress" is judged
        if told is not None and tuple(told[0]) == _id(f) and f['st'] != _expected_state(told[1], b['fs'], b['bt']):
            # the cache was written by a state listener that had just been told the new state
            flag('C17-state-not-as-reported', f'{_id(f)!r}: the state listener that wrote the cache had been told state '
                 f'{told[1]} (the transfer showed {bst}); loaded in state {f["st"]}', observed=f['st'],
                 required=_expected_state(told[1], b['fs'], b['bt']))
        if f['st'] in IN_PROGRESS:
            flag('C17-left-in-progress', f'{_id(f)!r} is in state {f["st"]} after load_data() '
                 f'(persisted state {bst})', observed=f['st'], required=_expected_state(bst, b['fs'], b['bt']))
        elif f['st'] != _expected_state(bst, b['fs'], b['bt']):
            flag('C17-wrong-repair', f'{_id(f)!r}: persisted state {bst} (filesize {b["fs"]}, '
                 f'bytes {b["bt"]}) became {f["st"]}', observed=f['st'],
                 required=_expected_state(bst, b['fs'], b['bt']))
        if f['rq'] is not False:
            flag('C17-remote-queue-mark-kept', f'{_id(f)!r}: remotely_queued = {f["rq"]!r} after load'
                 + (' (the stored entry carried the mark)' if b.get('rq') else ''),
                 observed=f['rq'], required=False)
        if f['ls'] != '1/1':
            flag('C17-not-listening', f'{_id(f)!r}: state_listeners (len/manager) = {f["ls"]} after load',
                 observed=f['ls'], required='1/1')
        if f['tk'] != 0:
            flag('C17-task-handle-loaded', f'{_id(f)!r} holds {f["tk"]} task handle(s) after load',
                 observed=f['tk'], required=0)


def _monitor(case: dict, trace: list) -> list[Violation]:
    vs: list[Violation] = []

    def flag(sig, what, observed=None, required=None):
        vs.append(Violation(sig, what, case, observed=observed, required=required))

    baseline: list[dict] = []      # what the cache is supposed to hold (persisted attribute values)
    ghost: Optional[dict] = None   # what had been reported when the cache was last written
    fresh_restart = False          # a sched op directly after a successful restart
    load_base: tuple = ([], None)  # (baseline, ghost) at the start of the phased load that is running
    for ev in trace:
        k = ev['op']
        if 'error' in ev and k not in ('restart', 'probe', 'restartc', 'loadr', 'load-end'):
            flag('C17-impl-raised', f'{k} raised {ev["error"]}', observed=ev['error'])
            if k == 'store':
                fresh_restart = False
            continue
        if k == 'new':
            baseline, ghost, fresh_restart = [], None, False
        elif k in ('add', 'addc', 'addr', 'mut', 'rm', 'rmc', 'rms'):
            fresh_restart = False
        elif k == 'store':
            baseline = [dict(f) for f in ev['snapshot']]
            ghost = {x: ev[x] for x in ('there', 'gone', 'inflight')} if 'there' in ev else None
        elif k in ('legacy', 'prev', 'prevc', 'dupkey'):
            if ev['result'] == 'ok':
                baseline = [dict(f) for f in ev['db_after']]
                ghost = None
        elif k in ('restartc', 'loadr', 'load-end'):
            # load_data() running next to other operations, suspended in TransferAddedEvent listeners
            if k == 'restartc':
                fresh_restart = False
                load_base = ([dict(f) for f in baseline], ghost)
            if ev.get('phase') != 'ended':
                if k == 'load-end':
                    flag('C17-load-raised', ev.get('error', 'load_data() did not end'), observed=ev.get('error'))
                continue
            lb, lg = load_base
            corrupt = any(f['st'] == -1 for f in lb)
            if 'error' in ev:
                if not corrupt:
                    flag('C17-load-raised', f'load_data() raised {ev["error"]} on a cache holding {len(lb)} '
                         'well-formed transfers', observed=ev['error'])
                continue
            if corrupt:
                continue
            _check_restart(flag, lb, lg, ev['loaded'], touched=ev['touched'],
                           where='a load_data() that ran next to other operations (suspended in TransferAddedEvent '
                                 f'listeners after each of {len(ev["registered"])} entries)' if ev['registered'] else
                                 'a load_data() run as its own task')
            if not ev['wrote']:
                ghost = None       # (a write made meanwhile set its own baseline)
            fresh_restart = not ev['touched']
        elif k == 'restart':
            fresh_restart = False
            corrupt = any(f['st'] == -1 for f in baseline)
            if 'error' in ev:
                if not corrupt:
                    flag('C17-load-raised', f'load_data() raised {ev["error"]} on a cache holding {len(baseline)} '
                         'well-formed transfers', observed=ev['error'])
                continue
            if corrupt:
                continue           # nothing is promised for a record without a state class
            _check_restart(flag, baseline, ghost, ev['loaded'])
            # the loaded list is what the next process starts from
            ghost = None
            fresh_restart = True
        elif k == 'probe':
            # a write at some instant of a running schedule + the end of the process right after it
            where = f'a restart from the cache written at [{ev["label"]}]'
            if 'error' in ev:
                flag('C17-impl-raised' if ev.get('phase') == 'write' else 'C17-load-raised',
                     f'{ev.get("phase")} at [{ev["label"]}] raised {ev["error"]}', observed=ev['error'])
                continue
            _check_restart(flag, ev['snapshot'], {x: ev[x] for x in ('there', 'gone', 'inflight')}, ev['loaded'],
                           where=where, told=ev.get('told'))
        elif k in ('sched', 'cycle'):
            if not fresh_restart or ev.get('undrivable'):
                continue
            how = ('the scheduler' if k == 'sched' else
                   'the first management cycle of the started manager (no PeerTransferQueue / PeerTransferRequest sent)')
            off = set(ev['offline'])
            dl = {tuple(x) for x in ev['dl']}
            ul_users = {x[0] for x in ev['ul']}
            for f in ev['transfers']:
                if f['u'] in off:
                    continue
                if f['d'] == 1 and (f['st'] in (ST_QUEUED, ST_INCOMPLETE) or (f['st'] == ST_FAILED and f['fr'] is None)):
                    if _id(f) not in dl:
                        flag('C17-not-scheduled', f'loaded download {_id(f)!r} (state {f["st"]}, remotely_queued '
                             f'{f["rq"]!r}) is not picked up by {how}', observed=sorted(map(repr, dl)))
                if f['d'] == 0 and f['st'] == ST_QUEUED and f['u'] not in ul_users:
                    flag('C17-not-scheduled', f'no queued upload of user {f["u"]!r} is picked up by {how}',
                         observed=sorted(ul_users))
            if k == 'cycle':
                fresh_restart = False      # the cycle has started transfers
        elif k == 'loadsweep':
            for e in ev['errors']:
                flag('C17-load-raised', f'load_data() / download() running next to each other raised {e}', observed=e)
            if ev['corrupt'] or ev['errors']:
                continue
            must = {tuple(i) for i in ev['cache']} | {tuple(i) for i in ev['wish']}
            for label, lst in (('after load_data() ran next to download() / add() calls for entries of the cache',
                                ev['listed']), ('after the next write + restart', ev.get('after_restart'))):
                if lst is None:
                    continue
                got = Counter(tuple(i) for i in lst)
                for ident in sorted(must | set(got), key=repr):
                    if got[ident] > 1:
                        flag('C17-transfer-duplicated', f'the manager holds transfer {ident!r} {got[ident]} times {label}',
                             observed=got[ident], required=1)
                    elif not got[ident] and ident in must:
                        flag('C17-transfer-lost', f'transfer {ident!r} (in the cache / asked for) is not listed {label}',
                             observed=sorted(map(repr, got)), required=f'{ident!r} present')
        elif k == 'poke':
            for r in ev['results']:
                if 'error' in r:
                    flag('C17-impl-raised', f'state change on {r["ident"]!r} raised {r["error"]}', observed=r['error'])
                elif r['transitioned'] and not r['reported']:
                    flag('C17-not-listening', f'state change {r["from"]}->{r["to"]} of {tuple(r["ident"])!r} was not '
                         'reported to the manager', observed=r, required='management cycle requested')
    return vs


# --------------------------------------------------------------------------------------------
# generator
# --------------------------------------------------------------------------------------------

BASES = ['abc\\d.mp3', 'user1\\x\\y.flac', '1:ab0', 'ab']
USERS = ['alice', 'bob', 'a', 'ab', '1:a', '2:ab', 'é', '日本', 'u 1', '10', '1', 'a:', '']
PATHS = ['@@x\\music\\a.mp3', 'c', 'bc', '\\x', 'x\\y.flac', '0', '1', 'b0', 'é\\ü.ogg', ':a', 'a b\\c d.mp3', '']
# identities that collide under plausible *wrong* key formats (plain concatenation is covered by BASES):
# length prefix without separator, separator without length, NUL / '|' separators
FAMILIES = [
    [('abcdefghijkl', 'rest'), ('2', 'abcdefghijklrest')],
    [('a:b', 'c'), ('a', 'b:c')],
    [('a|b', 'c'), ('a', 'b|c')],
    [('a\x00b', 'c'), ('a', 'b\x00c')],
    [('1:a', 'b'), ('a', 'b')],
    [('x', '1:yz'), ('x1:y', 'z')],
]
REASONS_F = [None, None, 'Cancelled', 'File not shared.', 'Queued', '']
REASONS_A = [None, None, 'Requested', 'Blocked', 'File not shared', '']
LOCAL_PATHS = [None, '/nonexistent-c17/dl/a.mp3', '/nonexistent-c17/é (1).mp3', '']
# every persisted attribute has its falsy-but-legal value ('' / 0 / 0.0 / False) among the generated ones: a load that
# takes "falsy" for "missing" changes it (checked by _boundary_values_complete at import)
BOUNDARY = {'u': '', 'p': '', 'lp': '', 'fs': 0, 'bt': 0, 'fr': '', 'ar': '', 'rq': False, 'piq': 0, 'qa': 0, 'lqa': 0,
            'ura': 0, 'lura': 0, 'stt': 0, 'ct': 0}


def _gen_ident(rng: random.Random) -> tuple:
    d = rng.choice([0, 1])
    r = rng.random()
    if r < 0.12:
        u, p = rng.choice(rng.choice(FAMILIES))
        return u, p, d
    if r < 0.5:
        b = rng.choice(BASES)
        i = rng.randint(0, len(b))
        return b[:i], b[i:], d
    return rng.choice(USERS), rng.choice(PATHS), d


def _gen_spec(rng: random.Random, ident: tuple) -> dict:
    u, p, d = ident
    st = rng.choice(ALL_STATES + [3, 5, 6, 5, 6])
    fs = rng.choice([None, 0, 1, 100, 100, 2 ** 33 + 5])
    if fs is None:
        bt = rng.choice([0, 0, 7])
    else:
        bt = rng.choice([0, fs, fs, max(fs - 1, 0), fs + 1, fs // 2])
    has_time = rng.random() < 0.5
    return {
        'u': u, 'p': p, 'd': d, 'st': st,
        'lp': rng.choice(LOCAL_PATHS),
        'fs': fs, 'bt': bt, 'fr': rng.choice(REASONS_F), 'ar': rng.choice(REASONS_A),
        'rq': rng.random() < 0.4, 'piq': rng.choice([None, None, 0, 3, 250]),
        'qa': rng.choice([0, 0, 1, 9]), 'lqa': rng.choice([0, 0, 1234]),
        'ura': rng.choice([0, 0, 2]), 'lura': rng.choice([0, 0, 99]),
        'stt': rng.choice([0, 1, 1700000000]) if has_time else None,
        'ct': rng.choice([None, 0, 1700000100]) if has_time else None,
        'off': rng.random() < 0.2, 'tk': rng.choice([0, 0, 0, 1, 2]),
    }


def _boundary_values_complete(n: int = 4000) -> list[str]:
    """Persisted fields whose falsy legal value the generator does not produce (must be empty)."""
    rng = random.Random('C17-boundary')
    seen: dict = {k: False for k in BOUNDARY}
    for _ in range(n):
        sp = _gen_spec(rng, _gen_ident(rng))
        for k, v in BOUNDARY.items():
            if sp[k] is not None and sp[k] == v and type(sp[k]) is type(v):
                seen[k] = True
    return [k for k, ok in seen.items() if not ok]


def _gen_phased(rng: random.Random) -> dict:
    """add() / remove() suspended in their listeners; attribute changes, further operations, cache writes and the end
    of the process while they are suspended."""
    ops: list = []
    listed: list[tuple] = []          # guess of the identities in the manager (only used to pick targets)
    pend_add: list[tuple] = []
    pend_rm: dict = {}                # ident -> resumptions so far
    for _ in range(rng.choice([1, 2, 2, 3, 4, 5])):
        ident = _gen_ident(rng)
        ops.append(['add', _gen_spec(rng, ident)])
        if ident not in listed:
            listed.append(ident)
    if rng.random() < 0.8:
        ops.append(['store'])

    def crash():
        ops.append(['restart'])
        pend_add.clear()
        pend_rm.clear()
        listed[:] = _idents_after(ops)
        if rng.random() < 0.5:
            ops.append(['sched', [u for u in sorted({i[0] for i in listed}) if rng.random() < 0.25]])

    for _ in range(rng.randint(2, 9)):
        r = rng.random()
        did_phase = False
        if r < 0.30:
            cands = [i for i in listed if i not in pend_rm] or listed
            if cands:
                ident = rng.choice(cands)
                ops.append(['rmc', *ident])
                pend_rm.setdefault(ident, 0)
                did_phase = True
        elif r < 0.52 and pend_rm:
            ident = rng.choice(list(pend_rm))
            ops.append(['rms', *ident])
            pend_rm[ident] += 1
            if ident in listed:
                listed.remove(ident)
            if pend_rm[ident] >= 2 or rng.random() < 0.15:
                if pend_rm[ident] >= 2:
                    del pend_rm[ident]
            did_phase = True
        elif r < 0.68:
            q = rng.random()
            if q < 0.2 and pend_rm:
                ident = rng.choice(list(pend_rm))       # the identity whose removal is in progress
            elif q < 0.3 and listed:
                ident = rng.choice(listed)              # already there
            else:
                ident = _gen_ident(rng)
            ops.append(['addc', _gen_spec(rng, ident)])
            if ident not in listed:
                listed.append(ident)
                pend_add.append(ident)
            did_phase = True
        elif r < 0.78 and pend_add:
            ident = pend_add.pop(rng.randrange(len(pend_add)))
            ops.append(['addr', *ident])
            did_phase = True
        elif r < 0.86 and listed:
            ops.append(['mut', _gen_spec(rng, rng.choice(listed))])
        elif r < 0.91 and listed:
            ident = rng.choice(listed)
            ops.append(['rm', *ident])
            if ident not in pend_rm:
                listed.remove(ident)
        elif r < 0.95:
            ident = _gen_ident(rng)
            ops.append(['add', _gen_spec(rng, ident)])
            if ident not in listed:
                listed.append(ident)
        else:
            ops.append(rng.choice([['rms', 'nobody', 'nothing', 1], ['addr', 'nobody', 'nothing', 0],
                                   ['rmc', 'nobody', 'nothing', 1]]))
        if did_phase and rng.random() < 0.65:
            ops.append(['store', 'stop'] if rng.random() < 0.2 else ['store'])
            if rng.random() < 0.3:
                crash()
    ops.append(['store', 'stop'] if rng.random() < 0.3 else ['store'])
    ops += [['restart'], ['sched', [u for u in sorted({i[0] for i in listed}) if rng.random() < 0.25]]]
    return {'kind': 'phased', 'ops': ops}


def _fresh_spec(ident: tuple) -> dict:
    """a transfer as `download()` / an incoming queue request creates it"""
    return {'u': ident[0], 'p': ident[1], 'd': ident[2], 'st': 0, 'lp': None, 'fs': None, 'bt': 0, 'fr': None, 'ar': None,
            'rq': False, 'piq': None, 'qa': 0, 'lqa': 0, 'ura': 0, 'lura': 0, 'stt': None, 'ct': None, 'off': False, 'tk': 0}


def _gen_prev_spec(rng: random.Random, ident: tuple) -> dict:
    """attributes of a transfer as the previous release stored it: the remote-queue mark is set more often than not
    (downloads waiting in a peer's queue at shutdown are the commonest content of a cache), in every state"""
    sp = _gen_spec(rng, ident)
    sp['tk'] = 0
    sp['rq'] = rng.random() < 0.65
    return sp


def _offline(rng: random.Random, idents) -> list:
    return [u for u in sorted({i[0] for i in idents}) if rng.random() < 0.2]


def _gen_prevrel(rng: random.Random) -> dict:
    """a cache left by the previous release (pinned writer), alone or next to entries the tree under test wrote itself"""
    ops: list = []
    idents: list[tuple] = []
    if rng.random() < 0.4:
        for _ in range(rng.randint(1, 4)):
            ident = _gen_ident(rng)
            ops.append(['add', _gen_spec(rng, ident)])
            if ident not in idents:
                idents.append(ident)
        ops.append(['store'])
    ncorp = len(corpus()['records'])
    for _ in range(rng.randint(1, 6)):
        if rng.random() < 0.3:
            i = rng.randrange(ncorp)
            sp = corpus()['records'][i]['spec']
            ident = (sp['u'], sp['p'], sp['d'])
            ops.append(['prevc', i])
        else:
            ident = rng.choice(idents) if idents and rng.random() < 0.2 else _gen_ident(rng)
            old = ident not in idents and rng.random() < 0.15
            ops.append(['prev', _gen_prev_spec(rng, ident), old])
        if ident not in idents:
            idents.append(ident)
    ops += [['restart'], ['sched', _offline(rng, idents)]]
    r = rng.random()
    if r < 0.5:
        ops.append(['cycle', _offline(rng, idents)])
    elif r < 0.8:
        ops += [['store'], ['restart'], ['sched', _offline(rng, idents)], ['cycle', _offline(rng, idents)]]
    else:
        for ident in idents:
            if rng.random() < 0.4:
                ops.append(['mut', _gen_spec(rng, ident)])
        if rng.random() < 0.5:
            ops.append(['rm', *rng.choice(idents)])
        ops += [['store'], ['restart'], ['sched', _offline(rng, idents)]]
    return {'kind': 'prevrel', 'ops': ops}


def _gen_dupkeys(rng: random.Random) -> dict:
    """one transfer under both key formats in one file (a cache both releases wrote to)"""
    ops: list = []
    idents: list[tuple] = []
    for _ in range(rng.randint(1, 6)):
        ident = _gen_ident(rng)
        if ident not in idents:
            idents.append(ident)
            ops.append(['add', _gen_spec(rng, ident)])
    ops.append(['store'])
    n = 0
    for ident in idents:
        if rng.random() < 0.55:
            ops.append(['dupkey', *ident])
            n += 1
    if not n:
        ops.append(['dupkey', *idents[0]])
    if rng.random() < 0.15:
        ops.append(['dupkey', 'nobody', 'nothing', 0])
    if rng.random() < 0.25:
        # the old-key entry differs from the new-key one: which one a load keeps is shelve's order (monitor only from here)
        ops.append(['prev', _gen_prev_spec(rng, rng.choice(idents)), True])
    ops += [['restart'], ['sched', _offline(rng, idents)]]
    if rng.random() < 0.6:
        ops += [['store'], ['restart'], ['sched', _offline(rng, idents)]]
    ops.append(['cycle', _offline(rng, idents)])
    return {'kind': 'dupkeys', 'ops': ops}


def _gen_phasedload(rng: random.Random) -> dict:
    """`load_data()` suspended in the TransferAddedEvent listener after every entry it registers; add() / remove() /
    attribute changes / writes for entries it has (not) reached in between; then to its end (or the end of the process)."""
    ops: list = []
    cache: list[tuple] = []
    for _ in range(rng.randint(2, 6)):
        ident = _gen_ident(rng)
        if ident not in cache:
            cache.append(ident)
            ops.append(['add', _gen_spec(rng, ident)])
    ops.append(['store'])
    for ident in list(cache):
        if rng.random() < 0.2:
            ops.append(['dupkey', *ident])
    for _ in range(rng.choice([0, 0, 1, 2])):
        ident = _gen_ident(rng)
        if ident not in cache:
            cache.append(ident)
            ops.append(['prev', _gen_prev_spec(rng, ident), False])
    ops.append(['restartc'])
    pend_add: list[tuple] = []
    pend_rm: list[tuple] = []
    for _ in range(rng.randint(2, 10)):
        r = rng.random()
        if r < 0.33:
            ops.append(['loadr'])
        elif r < 0.66:
            ident = rng.choice(cache) if rng.random() < 0.8 else _gen_ident(rng)
            sp = _fresh_spec(ident) if rng.random() < 0.6 else _gen_spec(rng, ident)
            if rng.random() < 0.5:
                ops.append(['add', sp])
            else:
                ops.append(['addc', sp])
                pend_add.append(ident)
        elif r < 0.72 and pend_add:
            ops.append(['addr', *pend_add.pop(rng.randrange(len(pend_add)))])
        elif r < 0.79:
            ops.append(['mut', _gen_spec(rng, rng.choice(cache))])
        elif r < 0.87:
            ops.append(['store', 'stop'] if rng.random() < 0.15 else ['store'])
        elif r < 0.93:
            ident = rng.choice(cache)
            if rng.random() < 0.5:
                ops.append(['rm', *ident])
            else:
                ops.append(['rmc', *ident])
                pend_rm.append(ident)
        elif r < 0.96 and pend_rm:
            ops.append(['rms', *rng.choice(pend_rm)])
        else:
            # (no `sched` here: a removal suspended in its abort holds the transfer's state lock, which the scheduler
            # respects and the model's `eligible` does not know about)
            ops.append(['loadr'])
    r = rng.random()
    if r < 0.8:
        ops += [['loadr'] for _ in range(len(cache) + 1)]
        if r < 0.6:
            ops += [['store'], ['restart'], ['sched', _offline(rng, cache)], ['cycle', _offline(rng, cache)]]
        else:
            # (no `cycle` here: transfers the harness added itself may hold task handles, which the first cycle respects
            # and the model's `eligible` does not know about)
            ops += [['sched', _offline(rng, cache)]]
    else:
        # the process ends while the load is still suspended
        ops += [['store'], ['restart'], ['sched', _offline(rng, cache)]]
    return {'kind': 'phasedload', 'ops': ops}


def _gen_loadsweep(rng: random.Random) -> dict:
    """monitor only: `load_data()` next to tasks that call the public `download()` / `add()` for entries of the cache (an
    application restoring its wish list next to `client.start()`), TransferAddedEvent listeners that really yield"""
    idents: list[tuple] = []
    for _ in range(rng.randint(2, 7)):
        ident = _gen_ident(rng)
        ident = (ident[0], ident[1], 1 if rng.random() < 0.8 else ident[2])
        if ident not in idents:
            idents.append(ident)
    specs = [{**_gen_spec(rng, i), 'tk': 0} for i in idents]
    wish = [{'id': list(i), 'delay': rng.choice([0, 0, 1, 2, 3, 5, 8])} for i in idents if i[2] == 1 and rng.random() < 0.65]
    if rng.random() < 0.3:
        i = _gen_ident(rng)
        wish.append({'id': [i[0], i[1], 1], 'delay': rng.choice([0, 1, 4])})
    return {'kind': 'loadsweep', 'cache': specs, 'dupkeys': [k for k in range(len(idents)) if rng.random() < 0.15],
            'wish': wish, 'slow': rng.choice([0, 1, 1, 2, 3]), 'how': rng.choice(['download', 'download', 'add']),
            'writer': rng.choice(['tree', 'tree', 'pinned']), 'load_first': rng.random() < 0.6}


def _gen_case(rng: random.Random) -> dict:
    kind = rng.choice(['roundtrip', 'roundtrip', 'sequence', 'sequence', 'sequence', 'legacy', 'legacy',
                       'migration', 'migration', 'malformed', 'phased', 'phased', 'phased', 'phased',
                       'prevrel', 'prevrel', 'prevrel', 'dupkeys', 'phasedload', 'phasedload', 'phasedload'])
    if kind == 'phased':
        return _gen_phased(rng)
    if kind == 'prevrel':
        return _gen_prevrel(rng)
    if kind == 'dupkeys':
        return _gen_dupkeys(rng)
    if kind == 'phasedload':
        return _gen_phasedload(rng)
    n = rng.choice([0, 1, 2, 3, 4, 5, 6, 7, 8, 8])
    ops: list = []
    idents: list[tuple] = []          # identities currently in the manager, in list order

    def add(dup_ok=True):
        if idents and dup_ok and rng.random() < 0.08:
            ident = rng.choice(idents)                   # an identity that already exists: add() returns the old one
        else:
            ident = _gen_ident(rng)
        ops.append(['add', _gen_spec(rng, ident)])
        if ident not in idents:
            idents.append(ident)

    def offline():
        us = sorted({i[0] for i in idents})
        return [u for u in us if rng.random() < 0.25]

    for _ in range(n):
        add()
    if kind == 'roundtrip':
        ops += [['store'], ['restart'], ['sched', offline()]]
        if rng.random() < 0.5:
            ops.append(['cycle', offline()])
    elif kind == 'sequence':
        ops.append(['store'])
        for _ in range(rng.randint(1, 8)):
            r = rng.random()
            if r < 0.25 and idents:
                ops.append(['mut', _gen_spec(rng, rng.choice(idents))])
            elif r < 0.45 and idents:
                i = rng.randrange(len(idents))
                ops.append(['rm', *idents[i]])
                idents.pop(i)
            elif r < 0.6 and len(idents) < 8:
                add()
            elif r < 0.8:
                ops.append(['store'])
            else:
                ops.append(['restart'])          # crash: whatever was not stored is gone
                # the harness cannot know what the store held here without replaying; rebuild from the ops below
                idents[:] = _idents_after(ops)
        ops += [['store'], ['restart'], ['sched', offline()]]
    elif kind == 'legacy':
        ops.append(['store'])
        for ident in idents:
            if rng.random() < 0.6:
                ops.append(['legacy', ident[0], ident[1], ident[2], rng.random() < 0.7, rng.random() < 0.5, False, False])
        if rng.random() < 0.2:
            ops.append(['legacy', 'nobody', 'nothing', 0, True, True, False, False])
        ops += [['restart'], ['sched', offline()]]
        if rng.random() < 0.5:
            ops += [['store'], ['restart']]
    elif kind == 'migration':
        # a cache written before the fix: every entry sits under the old key
        ops.append(['store'])
        for ident in idents:
            if rng.random() < 0.85:
                ops.append(['legacy', ident[0], ident[1], ident[2], rng.random() < 0.3, rng.random() < 0.3, True, False])
        ops.append(['restart'])
        idents[:] = _idents_after(ops)
        for ident in idents:
            if rng.random() < 0.6:
                ops.append(['mut', _gen_spec(rng, ident)])
        if idents and rng.random() < 0.4:
            i = rng.randrange(len(idents))
            ops.append(['rm', *idents[i]])
            idents.pop(i)
        ops += [['store'], ['restart'], ['sched', offline()]]
        if rng.random() < 0.3:
            ops += [['store'], ['restart']]
    else:  # malformed: a record whose state has no class, unknown targets, out-of-range indices
        ops.append(['store'])
        if idents:
            ident = rng.choice(idents)
            ops.append(['legacy', ident[0], ident[1], ident[2], False, False, False, True])
        ops += [['restart'], ['rm', 'nobody', 'nothing', 1], ['mut', _gen_spec(rng, _gen_ident(rng))]]
        ops += [['sched', []], ['new']]
        idents.clear()
        add(dup_ok=False)
        ops += [['store'], ['restart'], ['sched', []]]
    return {'kind': kind, 'ops': ops}


def _idents_after(ops: list) -> list[tuple]:
    """Identities the manager holds after the op list, *assuming the property* (used by the generator only to
    pick meaningful targets; a wrong guess merely yields a `not-found` observation on both sides)."""
    mgr: list[tuple] = []
    db: list[tuple] = []
    corrupt = False
    for op in ops:
        k = op[0]
        if k == 'new':
            mgr, db, corrupt = [], [], False
        elif k in ('add', 'addc'):
            ident = (op[1]['u'], op[1]['p'], op[1]['d'])
            if ident not in mgr:
                mgr.append(ident)
        elif k in ('rm', 'rms'):
            if (op[1], op[2], op[3]) in mgr:
                mgr.remove((op[1], op[2], op[3]))
        elif k == 'store':
            db, corrupt = list(mgr), False
        elif k == 'legacy':
            if op[7] and (op[1], op[2], op[3]) in db:
                corrupt = True
        elif k in ('prev', 'prevc'):
            sp = op[1] if k == 'prev' else corpus()['records'][op[1]]['spec']
            if (sp['u'], sp['p'], sp['d']) not in db:
                db.append((sp['u'], sp['p'], sp['d']))
        elif k in ('restart', 'restartc'):
            mgr = [] if corrupt else list(db)
    return mgr


def _collisions(idents: list[tuple]) -> int:
    c = Counter(u + p + str(d) for u, p, d in set(idents))
    return sum(v - 1 for v in c.values() if v > 1)


# the defect repaired by fixes/C17-cache-key-ambiguous.patch: both keys were sha256('abc\\d.mp31')
def _w(u, p, st, bt):
    return {'u': u, 'p': p, 'd': 1, 'st': st, 'lp': None, 'fs': 100, 'bt': bt, 'fr': None, 'ar': None, 'rq': False,
            'piq': None, 'qa': 0, 'lqa': 0, 'ura': 0, 'lura': 0, 'stt': None, 'ct': None, 'off': False, 'tk': 0}


WITNESS_COLLISION = {'kind': 'witness-collision',
                     'ops': [['add', _w('ab', 'c\\d.mp3', 1, 0)], ['add', _w('a', 'bc\\d.mp3', 5, 40)],
                             ['store'], ['restart'], ['sched', []]]}
# a cache written by the unpatched release, loaded, changed and stored by the patched one: the old entry must go
WITNESS_MIGRATION = {'kind': 'witness-migration',
                     'ops': [['add', _w('bob', 'x\\y.flac', 5, 40)], ['store'],
                             ['legacy', 'bob', 'x\\y.flac', 1, True, True, True, False], ['restart'],
                             ['mut', _w('bob', 'x\\y.flac', 7, 100)], ['store'], ['restart'], ['sched', []]]}


# the cache written by stop() / from a listener while remove() is suspended in the delivery of TransferRemovedEvent
# (PAUSED: via the abort transition; COMPLETE: no abort), and while add() is suspended in TransferAddedEvent
WITNESS_WRITE_IN_REMOVED = {'kind': 'witness-write-in-removed-listener',
                            'ops': [['add', _w('u 1', 'b0', 10, 100)], ['add', _w('bob', 'done.mp3', 7, 100)], ['store'],
                                    ['rmc', 'u 1', 'b0', 1], ['store'], ['rms', 'u 1', 'b0', 1], ['store', 'stop'],
                                    ['restart'], ['rmc', 'bob', 'done.mp3', 1], ['store'], ['restart'], ['sched', []]]}
WITNESS_WRITE_IN_ADDED = {'kind': 'witness-write-in-added-listener',
                          'ops': [['addc', _w('alice', 'new.mp3', 1, 0)], ['store'], ['restart'], ['sched', []]]}
# a cache of the previous release: downloads that were waiting in a peer's queue at shutdown (mark set), in several states
WITNESS_PREV_RELEASE = {'kind': 'witness-previous-release-cache',
                        'ops': [['prev', {**_w('alice', '@@abc\\music\\01.mp3', 1, 0), 'rq': True}, False],
                                ['prev', {**_w('bob', '@@xyz\\set.flac', 4, 40), 'rq': True}, False],
                                ['prev', {**_w('carol', 'old\\key.mp3', 10, 0), 'rq': True}, True],
                                ['prevc', 0], ['restart'], ['sched', []], ['cycle', []]]}
# one transfer under both key formats in one file
WITNESS_TWO_KEYS = {'kind': 'witness-one-transfer-two-keys',
                    'ops': [['add', _w('bob', 'x\\y.flac', 4, 40)], ['add', _w('alice', 'a.mp3', 1, 0)], ['store'],
                            ['dupkey', 'bob', 'x\\y.flac', 1], ['restart'], ['sched', []], ['store'], ['restart']]}
# download() of an entry the suspended read has not reached yet (whichever entry comes first, the other is added meanwhile)
WITNESS_LOAD_RACE = {'kind': 'witness-add-during-load',
                     'ops': [['add', _w('bob', 'x\\y.flac', 4, 40)], ['add', _w('alice', 'a.mp3', 1, 0)], ['store'],
                             ['restartc'], ['add', _fresh_spec(('bob', 'x\\y.flac', 1))],
                             ['add', _fresh_spec(('alice', 'a.mp3', 1))], ['loadr'], ['loadr'], ['loadr'],
                             ['store'], ['restart'], ['sched', []]]}
WITNESSES = [WITNESS_COLLISION, WITNESS_MIGRATION, WITNESS_WRITE_IN_REMOVED, WITNESS_WRITE_IN_ADDED,
             WITNESS_PREV_RELEASE, WITNESS_TWO_KEYS, WITNESS_LOAD_RACE]


def _corpus_cases() -> list[dict]:
    """every record of the corpus is loaded in every run: 8 at a time, then the scheduler's view and the first cycle"""
    n = len(corpus()['records'])
    idx = list(range(n))
    random.Random('C17-corpus').shuffle(idx)
    return [{'kind': 'corpus', 'ops': [['prevc', i] for i in idx[a:a + 8]] + [['restart'], ['sched', []], ['cycle', []]]}
            for a in range(0, n, 8)]


class C17(Property):
    id = 'C17'
    props_module = 'AioslskVerif.Props.C17'
    driver_module = 'AioslskVerif.Driver.C17'
    rule = ('op sequences (add / mut / rm / store / legacy-rewrite / restart / sched / cycle = the first management cycle of '
            'the started manager) over lists of 0..8 transfers, every state x direction, field values from boundary sets (every '
            "persisted field has its falsy legal value: 0, 0.0, '', False), names drawn so that plain concatenations collide; "
            'phased sequences (addc / addr / rmc / rms: add() and remove() suspended in their listeners, with mut / further '
            'operations / store / stop+store / restart in between); caches of ANOTHER release of the writer (prev: the entry '
            'the pinned __getstate__ leaves, remote-queue mark set in every state, under the current / the pre-fix key; prevc: '
            'the 200 records of corpus/C17 written by the unmodified HEAD writer, all of them loaded in every run; dupkey: one '
            'transfer under both key formats); phased loads (restartc / loadr: load_data() suspended in the TransferAddedEvent '
            'listener after every entry it registers, add / addc / mut / rm / rmc / store for entries it has (not) reached in '
            'between); sweeps (monitor only): concurrent add / remove / real state transitions with writing '
            'and suspending listeners, slowly dying tasks, a deferred executor, a write + crash at every loop iteration; '
            'loadsweeps (monitor only): load_data() next to tasks calling download() / add() for entries of the cache, '
            'yielding listeners; all derived from VERIF_SEED. A case is non-trivial when a restart loaded at least one transfer '
            'and the cache held an in-progress state, a pair of colliding concatenations, a legacy / old-key / other-writer / '
            'two-key record, or was written while an operation was suspended, or when operations were called for identities of '
            'the cache while a load was suspended; a sweep when a probe taken while an operation was in flight '
            'loaded at least one transfer; a loadsweep when a download() of a cache entry ran next to a load with yielding '
            'listeners; distinct = distinct canonical case')
    assumptions = [
        'sha256 is injective on the hashed strings that occur (theorems take `Function.Injective H` as a hypothesis; '
        'the correspondence compares sha256(model key bytes) with the real database keys)',
        'pickle / shelve / dbm store and return what they were given (exercised on real temp files, not modelled); '
        'a crash inside shelve is outside the property',
        'transfer identities (username, remote_path, direction) in the manager are pairwise distinct (add() enforces it) '
        'and do not change after creation',
        'times and attempt stamps are whole numbers in the generated cases (floats are persisted verbatim by pickle)',
        'two remove() calls for the same identity do not overlap (on HEAD the second one ends in ValueError from '
        'list.remove and a second TransferRemovedEvent; not part of this property); every other overlap is generated',
        'the ghost sets say nothing about an identity while an add()/remove() of it is in progress and has reported '
        'nothing yet, nor after an add() called during a removal in progress (either outcome is accepted there)',
        '"the previous release" = the writer pinned by theorem C17_fields_pinned (HEAD: the whole __dict__ minus '
        '_UNPICKABLE_FIELDS, state by value); the harness keeps a frozen copy of it that reproduces byte for byte the 200 '
        'records of corpus/C17/head-writer-records.json, which the unmodified HEAD TransferShelveCache.write produced',
        'the order in which shelve hands out the entries is the environment\'s: a phased load tells it to the model; a cache '
        'holding one identity in two DIFFERING entries is judged by the monitor only (either entry may be the one kept)',
        'for identities for which other operations are called while load_data() is running only "listed exactly once" is '
        'judged (on HEAD an add()/download() racing with the load wins over the not-yet-reached cache entry; a write_cache() '
        'made meanwhile stores the list as far as it has been loaded)',
    ]
    modelled = ('transfer/cache.py read/write (with fixes/C17-cache-key-ambiguous.patch), Transfer.__getstate__/'
                '__setstate__/__eq__/is_transfered, TransferState.init_from_state, TransferManager.read_cache/add and the '
                'selection part of _get_queued_transfers; TransferManager.add/remove split at their suspension points '
                '(TransferAddedEvent delivery, state listeners of the abort transition, TransferRemovedEvent delivery) '
                'with write_cache() and the end of the process at each of them, the abort() of the state classes '
                '(generated table), ghost sets of what was reported; TransferManager.read_cache split at ITS suspension '
                'points (TransferAddedEvent delivery after every registered entry) with every other operation in between; '
                'entries left by the pinned writer / under both key formats; state sets, enum values, field lists regenerated '
                'from the source; exercised only: pickle, shelve/dbm.dumb, EventBus, TransferManager.stop, real state '
                'transitions, cancellation of transfer tasks, _remove_local_file through the executor (sweeps), '
                '_prioritize_uploads ordering, TransferManager.start / _management_job / manage_transfers / _queue_remotely / '
                '_initialize_upload up to the first peer message (cycle), TransferManager.download (loadsweeps)')

    def regenerate(self):
        return [cache_constants.generate(common.REPO, common.LEAN)]

    def correspondence(self, seed, tier, model_ok, widen=1):
        res = KResult()
        rng = random.Random(f'C17-{seed}')
        n = (1900 if tier == "quick" else 24000) * widen
        cases = WITNESSES + _corpus_cases() + [_gen_case(rng) for _ in range(n)]
        rng_s = random.Random(f'C17-sweep-{seed}')
        sweeps = [_gen_sweep(rng_s) for _ in range((300 if tier == "quick" else 4000) * widen)]
        rng_l = random.Random(f'C17-loadsweep-{seed}')
        sweeps += [_gen_loadsweep(rng_l) for _ in range((200 if tier == "quick" else 3000) * widen)]
        missing = _boundary_values_complete()
        if missing:
            res.disagreements.append(Disagreement({'kind': 'generator-self-check'}, missing, [],
                                                  'the generator no longer produces the falsy legal value of these fields'))
        bad = _corpus_self_check()
        if bad:
            res.disagreements.append(Disagreement({'kind': 'generator-self-check'}, bad[:10], [],
                                                  'the frozen pinned writer of the harness does not reproduce the corpus of '
                                                  'records written by the unmodified HEAD writer'))
        res.count('corpus:records', len(corpus()['records']))
        differs = _tree_writer_differs()
        if differs:
            res.count('corpus:records-the-tree-under-test-writes-differently', differs)
            res.notes.append(f'the writer of the tree under test stores {differs} of the {len(corpus()["records"])} corpus '
                             'records differently from the pinned writer (information; the corpus stands for the previous '
                             'release)')
        impl_all = common.parallel_map(_eval_case, cases + sweeps, chunksize=4)
        impl, impl_s = impl_all[:len(cases)], impl_all[len(cases):]
        model = None
        if model_ok:
            lines, spans = [], []
            for c, (_io, tr) in zip(cases, impl):
                ls = ['new'] + _model_lines(c, tr)
                spans.append((len(lines) + 1, len(ls) - 1))
                lines += ls
            out = common.run_driver(self.driver_file, lines)
            model = [out[a:a + k] for a, k in spans]
        else:
            res.model_available = False
        for i, c in enumerate(cases):
            res.evaluations += 1
            io_, trace = impl[i]
            res.count('kind:' + c['kind'])
            res.count('ops', len(c['ops']))
            for op in c['ops']:
                res.count('op:' + op[0] + (':stop' if op[0] == 'store' and len(op) > 1 else ''))
                if op[0] == 'legacy':
                    res.count(f'legacy:abort-absent={int(op[4])},offset={int(op[5])},old-key={int(op[6])},unset={int(op[7])}')
                if op[0] == 'prev':
                    res.count(f'prev:st={op[1]["st"]},d={op[1]["d"]},rq={int(op[1]["rq"])}' + (',old-key' if op[2] else ''))
                if op[0] in ('add', 'addc', 'mut', 'prev'):
                    for k, v in BOUNDARY.items():
                        if op[1][k] is not None and op[1][k] == v and type(op[1][k]) is type(v):
                            res.count(f'boundary:{k}={v!r}')
            for o in io_:
                w = o.split(' ', 1)[0]
                if w in ('pending', 'dup', 'aborting', 'announcing', 'done', 'busy', 'no-pending', 'stuck', 'loading'):
                    res.count('phase:' + w)
            nontrivial = False
            baseline: list = []
            special = False
            cut = None                    # first op whose outcome depends on shelve's order (compared up to there)
            for ev in trace:
                if ev.get('ambiguous') and cut is None:
                    cut = ev['i']
                    res.count('restart:one-identity-two-differing-entries (monitor only from there)')
                if ev['op'] in ('restartc', 'loadr', 'load-end') and ev.get('phase') == 'ended' and 'loaded' in ev:
                    res.count('load:ended-after-suspensions', 1 if ev['registered'] else 0)
                    if ev['touched']:
                        res.count('load:operations-for-identities-meanwhile')
                        if ev['loaded']:
                            nontrivial = True
                    if ev['wrote']:
                        res.count('load:cache-written-meanwhile')
                if ev['op'] == 'cycle':
                    res.count('cycle:PeerTransferQueue', len(ev['dl']))
                    res.count('cycle:PeerTransferRequest', len(ev['ul']))
                if ev['op'] in ('prev', 'prevc', 'dupkey') and ev.get('result') == 'ok':
                    baseline, special = ev['db_after'], True
                    if len({_id(f) for f in baseline}) < len(baseline):
                        res.count('cache:one-identity-under-two-keys')
                if ev['op'] == 'new':
                    baseline, special = [], False
                elif ev['op'] == 'store' and 'error' not in ev:
                    baseline, special = ev['snapshot'], bool(ev.get('inflight'))
                    if ev.get('inflight'):
                        res.count('store:while-suspended')
                        if ev.get('gone'):
                            res.count('store:while-suspended,removal-reported')
                elif ev['op'] == 'legacy' and ev.get('result') == 'ok':
                    baseline, special = ev['db_after'], True
                elif ev['op'] == 'restart' and 'loaded' in ev:
                    res.count('restart:loaded', len(ev['loaded']))
                    res.count(f'restart:size={len(ev["loaded"])}')
                    coll = _collisions([_id(f) for f in baseline])
                    if coll:
                        res.count('restart:with-colliding-concatenation')
                    for f in baseline:
                        res.count(f'persisted:st={f["st"]},d={f["d"]}')
                        if f.get('rq') and 'key' in f:
                            res.count(f'persisted-by-another-writer:rq=1,st={f["st"]},d={f["d"]}')
                    if ev['loaded'] and (special or coll or any(f['st'] in IN_PROGRESS for f in baseline)):
                        nontrivial = True
                elif ev['op'] == 'restart':
                    res.count('restart:error')
            if nontrivial:
                res.nontrivial_keys.add(common.sha(c['ops']))
            if io_ and io_[0].startswith('HARNESS-EXC'):
                res.disagreements.append(Disagreement(c, io_[0], None, 'harness could not run the case'))
                continue
            if model is not None:
                res.traces_validated += 1
                a = [_canon(x, False) for x in io_]
                b = [_canon(x, True) for x in model[i]]
                if cut is not None:
                    a, b = a[:cut], b[:cut]
                if a != b:
                    k = next((j for j, (x, y) in enumerate(zip(a, b)) if x != y), min(len(a), len(b)))
                    res.disagreements.append(Disagreement(
                        c, a[k] if k < len(a) else None, b[k] if k < len(b) else None,
                        f'op #{k} {c["ops"][k] if k < len(c["ops"]) else ""}'[:300]))
            res.violations += _monitor(c, trace)
            if len(res.samples) < 3 and 3 <= len(c['ops']) <= 6 and c['kind'] not in ('witness-collision',):
                res.samples.append({'case': c, 'impl': [x[:400] for x in io_]})
        # sweeps: real code + monitor (no model)
        for c, (io_, trace) in zip(sweeps, impl_s):
            res.evaluations += 1
            res.count('kind:' + c['kind'])
            if io_ and io_[0].startswith('HARNESS-EXC'):
                res.disagreements.append(Disagreement(c, io_[0], None, 'harness could not run the sweep'))
                continue
            if c['kind'] == 'loadsweep':
                ev = trace[0]
                res.count('loadsweep:wishes', len(ev['wish']))
                both = {tuple(i) for i in ev['cache']} & {tuple(i) for i in ev['wish']}
                if both:
                    res.count('loadsweep:download()-of-a-cache-entry-during-load', len(both))
                    if c['slow']:
                        res.nontrivial_keys.add(common.sha(c))
                res.violations += _monitor(c, trace)
                continue
            for a in c['block']:
                res.count('sweep:do=' + a['do'] + (':' + a['method'] if a['do'] == 'tr' else ''))
            for kind, mode in c['listeners'].items():
                res.count(f'sweep:{kind}-listener={mode}')
            hot = 0
            for ev in trace:
                if ev['op'] != 'probe':
                    continue
                res.count('sweep:probes')
                if ev.get('inflight'):
                    res.count('sweep:probes-while-in-flight')
                    if ev.get('loaded'):
                        hot += 1
                if ev.get('told'):
                    res.count('sweep:probes-in-state-listener')
                if ev.get('gone') and ev.get('inflight'):
                    res.count('sweep:probes-removal-reported-while-in-flight')
            if hot:
                res.nontrivial_keys.add(common.sha(c))
            res.violations += _monitor(c, trace)
        return res

    def replay(self, case):
        io_, trace = _eval_case(case)
        if io_ and io_[0].startswith('HARNESS-EXC'):
            raise RuntimeError(io_[0])
        return _monitor(case, trace)

    def known_witnesses(self):
        return []


PROPERTY = C17()
